"""C11 — ground-station geometry matches independent geodesy."""
import ast
import copy
import itertools
import math
import os
import random

from harness import core, py2lean, instantiate
from harness.core import Outcome, f2b, b2f

ID = "C11"
LEAN_TARGETS = ["BeyondVerif.Props.C11", "BeyondVerif.Props.C11Handover", "BeyondVerif.Props.C11Mask", "BeyondVerif.Props.C11MaskLife", "BeyondVerif.Props.C11Names", "BeyondVerif.Witness.C11"]
THEOREMS = [
    "BeyondVerif.C11.earth_constants",
    "BeyondVerif.C11.station_on_ellipsoid_partial",
    "BeyondVerif.C11.station_height",
    "BeyondVerif.C11.normal_is_ellipsoid_normal",
    "BeyondVerif.C11.topo_axes",
    "BeyondVerif.C11.topo_orthonormal",
    "BeyondVerif.C11.topo_det_one",
    "BeyondVerif.C11.topo_is_enu_components",
    "BeyondVerif.C11.topo_velocity_is_enu_components",
    "BeyondVerif.C11.range_is_enu_range",
    "BeyondVerif.C11.elevation_is_enu_elevation",
    "BeyondVerif.C11.azimuth_is_minus_theta",
    "BeyondVerif.C11.range_rate_is_enu_range_rate",
    "BeyondVerif.C11.station_fixed_in_itrf",
    "BeyondVerif.C11.station_origin_maps_to_zero",
    "BeyondVerif.C11.topo_round_trip",
    "BeyondVerif.C11.station_inertial_velocity",
    "BeyondVerif.C11.station_from_to",
    "BeyondVerif.C11.handover_through_parent",
    "BeyondVerif.C11.handover_is_enu_components",
    "BeyondVerif.C11.handover_spherical",
    "BeyondVerif.C11.handover_to_itself",
    "BeyondVerif.C11.handover_chain",
    "BeyondVerif.C11.create_station_from_degrees",
    "BeyondVerif.C11.range_per_leg",
    "BeyondVerif.C11.measures_are_spherical_components",
    "BeyondVerif.C11.fmod_two_pi_range",
    "BeyondVerif.C11.fmod_two_pi_congruent",
    "BeyondVerif.C11.mask_is_pwl_interp",
    "BeyondVerif.C11.pwl_value_unique",
    "BeyondVerif.C11.mask_exact_hit",
    "BeyondVerif.C11.mask_two_pi_value_serves_at_zero",
    "BeyondVerif.C11.mask_given_at_creation_is_stored",
    "BeyondVerif.C11.no_mask_given_is_no_mask",
    "BeyondVerif.C11.mask_read_is_function_of_current_table",
    "BeyondVerif.C11.mask_assignment_replaces_table",
    "BeyondVerif.C11.mask_after_any_history_is_pwl_interp",
    "BeyondVerif.C11.mask_given_at_creation_is_pwl_interp",
    "BeyondVerif.C11.station_longitude_plus_360",
    "BeyondVerif.C11.station_longitude_minus_360",
    "BeyondVerif.C11.lookup_after_create",
    "BeyondVerif.C11.lookup_other_name_unaffected",
    "BeyondVerif.C11.use_keeps_registry",
    "BeyondVerif.C11.recreated_station_is_the_new_station",
    "BeyondVerif.C11W.earth_radius_is_not_wgs84",
    "BeyondVerif.C11W.mask_given_as_ndarray_is_stored",
]
LEVEL_TEXT = ("Lean theorems over R about formulas translated from the Python source on every run (stations._geodetic_to_cartesian, the topocentric "
              "matrix expression of orient.TopocentricOrientation with rot2/rot3 of utils/matrix.py, forms._cartesian_to_spherical, the four "
              "measures.*.from_orbit value expressions, the Earth constants): for all lat, lon, alt the station lies on the ellipsoid a, b=a(1-f) "
              "at height alt along the ellipsoid normal; the matrix columns are north, west, up of the ENU triad (orthonormal, det +1); range, "
              "elevation, azimuth(=-theta) and range-rate equal the ENU quantities for every target — also a target whose state arrives in the frame of ANOTHER station "
              "(Frame.transform station -> station modelled as the code combines it: product of the two rotations, difference of the two centre offsets turned into the "
              "target orientation) and is handed on through any number of stations: its coordinates at the last station are those of the direct change from the Earth-fixed frame; "
              "Range = r*(len(path)-1); get_mask (loop "
              "modelled statement for statement, its formulas — the reduction modulo 2 pi, the scan test, the wrap x0, the returned expression — "
              "translated from the source) equals the piecewise-linear interpolant of the table, the 2 pi value serving at 0, for all strictly increasing "
              "tables ending at 2 pi and all azimuths; the way from the table GIVEN to the table read is inside the model: the `mask=` handling of "
              "TopocentricFrame.__init__ and create_station is translated from the source (a list/tuple of rows or a 2xN ndarray is stored unchanged), a state machine "
              "describes assignment, in-place writes and reads of station.mask, and for every creation argument and every history whose current table "
              "follows the convention the next read is the interpolant of that table (reads keep nothing, change nothing); a station name stands for the coordinates of "
              "its last creation (registry state machine: after any history, create_station(name, coords) then a change to the frame of that name gives position and axes of "
              "the new coordinates, other names unaffected); a longitude L and L +- 360 deg give the same position and axes.")
LEVEL_NOTE = ("R -> double gap covered only by tolerance-bounded correspondence; the control flow of get_mask (extraction refuses another statement shape), "
              "the attribute semantics of station.mask (plain attribute: checked on the class bodies), Python truth values / np.asarray of the mask argument, "
              "frame-change plumbing (centre offset, inverse, the walk station -> parent -> station of both graphs) and expand() are hand-modelled and tied by correspondence (real station objects driven through "
              "random creation arguments and operation histories against the compiled state machine); the ellipsoid's equatorial radius in constants.py is 6378136.3 m, not the "
              "WGS-84 value (known finding); Lean kernel + propext/Classical.choice/Quot.sound; py2lean translator and harness trusted")
TECHNIQUE = "Lean 4 proof (ring/field_simp/trig identities; list induction over the mask scan loop) over formulas regenerated from the Python AST; differential correspondence"
TRUSTED = [
    "harness/py2lean.py + the extraction code of harness/props/C11.py: translate the source expressions into Generated/StationGeo{F,R}.lean on every run",
    "lean/templates/Station.tpl (hand-written: frame change M^-1 (r - s) with M^-1 = M^T, station -> station change M_B^T M_A x + M_B^T s_A - M_B^T s_B, control flow of the get_mask scan loop, the state machine of station.mask, "
    "the registry of station names (hooks, links and frames.dynamic keyed by name, each creation overriding), expand()), tied by the correspondence run",
    "the hand-written semantic primitives of the generated mask path (MASK_PRELUDE in harness/props/C11.py: Python's bool() of None / sequences / ndarrays, np.asarray of a sequence of two rows) and the encoding of a 2xN table as a list of columns",
    "numpy / libm double arithmetic vs R: tolerance 1e-9 relative (angles 1e-10 rad scaled by conditioning)",
    "numpy semantics: `@` is the matrix product, np.linalg.inv of an orthonormal matrix is its transpose, `x in array` / np.where(==) is float equality, float % is floored modulo",
]
ASSUMPTIONS = [
    "station coordinates are given in a numeric kind for which numpy converts to float64 radians: Python int/float, numpy int32/int64/uint32/float64, "
    "as tuple, list or array, also mixed (all generated in correspondence and oracle); narrow integer dtypes are a known finding, float32 input is "
    "checked by the oracle to the precision of the input",
    "the coordinates are geodetic coordinates in the station's parent frame — an Earth-fixed frame: WGS84 = ITRF (default), PEF, TIRF (all generated); theorems and model "
    "work in that frame; equatorial=True (axes of EME2000 at the same place) is checked by the oracle only",
    "a mask is handed over at creation as a list / tuple of two rows (lists, tuples, arrays, numpy scalars, ints) or as a 2xN float ndarray, or assigned later as a 2xN float array; reads use Python / numpy real scalars",
    "pole motion / Earth-orientation rotations between ITRF and the inertial frames belong to C02; here only expand() and the rest state of the station enter",
    "theorems are over R; the implementation computes in IEEE doubles",
    "mask tables follow the documented convention (strictly increasing azimuths, last azimuth 2 pi); other tables are modelled and compared in the correspondence but no theorem speaks about them",
]
NOT_COVERED = ["the clause 'WGS-84' itself: station_on_ellipsoid_partial is about the ellipsoid (Earth.r, Earth.f) of constants.py, whose radius is not WGS-84's (counter-witness in Witness/C11.lean, known finding)",
               "angular rates theta_dot / phi_dot of the spherical form (not part of the property; compared in the correspondence only)",
               "get_mask when no mask is set (raises ValueError): modelled and compared, outside the property",
               "equatorial=True stations: no theorem (oracle: same place, at rest, axes of EME2000)",
               "light-time / signal-path effects in Range and Doppler (the code has none; the measures are instantaneous geometric quantities)",
               "visibility() iteration and the AOS/LOS/mask listeners (C10)"]
OPEN = ["coordinates given as int8/uint8/int16/uint16 numpy arrays are converted in float16/float32 (known finding C11-station-narrow-int-dtype); the model "
        "(doubles / R) does not describe that rounding, so these kinds are kept out of the correspondence and covered by the oracle only",
        "the ellipsoid has the WGS-84 flattening but the EGM-96 equatorial radius 6378136.3 m: stations are 0.7 m closer to the geocentre than WGS-84 coordinates say (known finding C11-station-ellipsoid-radius); all theorems are stated for the constants as they are in constants.py"]
RULE = ("correspondence: stations on a lat/lon/alt grid (all quadrants, near-polar) + random, created through create_station from coordinates of 14 numeric kinds "
        "(Python/numpy ints and floats, tuples, lists, arrays, mixed) with the model fed the exact values in degrees (op create + every station-frame op); targets from 1 km to lunar distance in ITRF with velocities; ops geo / topom / "
        "topo (copy(frame=station, form='spherical')) / hand (a state given in the frame of the previous station under the same parent, of the station itself, of a second station at the same coordinates, changed directly to the station's frame) / meas (the four measures, paths of 2-4 nodes) / sta2itrf / expand / mask (random tables of 1-72 points incl. "
        "first azimuth 0, regular grids, tables violating the convention, azimuths in [-4pi,4pi], exact hits, multiples of 2pi, the middle of every segment incl. the last one) / "
        "maskrun (a station created with mask= None / omitted / [] / () / list / tuple / rows of arrays / numpy scalars / int elevations / ndarray, keyword or positional, through "
        "create_station or TopocentricFrame, parent frame default/WGS84/ITRF/PEF/TIRF, equatorial or not, then a history of assignments (4 array layouts), None, in-place column writes, "
        "writes into the caller's own list, reads incl. azimuths asked before; replies and stored tables vs the state machine). Stations of the sweep are created with every option too. "
        "reg (histories of creations and RE-creations under 1-3 names, at other / at the same coordinates, interleaved; every live name used through the object and through its name after each creation, vs the registry model). "
        "Station coordinates: signed and 0..360 east longitudes, exactly 0/180/-180/360, beyond one turn, the poles, altitudes from -11 km to geostationary height. "
        "non-trivial = generic input (not an edge constant); "
        "distinct = distinct request line. oracle: independent ENU computation in extended precision on the real API, ellipsoid membership/normal, rest in ITRF/PEF/TIRF, "
        "omega x r and finite differences in inertial frames, measures vs ENU quantities, "
        "the same look angles / axes / four measures for targets handed to the station in the frame of another station (the previous stations of the sweep with all their options, other parent frame, "
        "a second station at the same coordinates, an equatorial station, the station itself; cartesian / spherical / cylindrical form; directly or through 1-2 further stations; station addressed as object or by name), "
        "station position/axes for every numeric kind of coordinates incl. narrow numpy dtypes, mask vs independent interpolation for tables assigned, given at creation "
        "(12 kinds of object x 4 entry points, round robin), re-assigned, written in place; parent frames; equatorial stations; longitude L vs L +- 360 k; "
        "histories of stations re-created under names in use (each live name vs ENU at its last coordinates after every creation)")

TWO_PI = 2 * math.pi
WGS84_A = 6378137.0
WGS84_INVF = 298.257223563


def _setup():
    import logging
    from beyond.config import config
    config.set("eop", "missing_policy", "pass")
    logging.getLogger("beyond.frames.frames").setLevel(logging.ERROR)     # "A frame with the name … is already registered. Overriding"


_counter = itertools.count()


# numeric kinds in which create_station is given (latitude deg, longitude deg, altitude m).
# WIDE: numpy turns them into float64 radians (modelled, compared in the correspondence);
# NARROW_INT: exact small-integer numpy dtypes for which np.radians answers in float16 / float32 (oracle only, known finding);
# float32: the input itself carries only 24 bits (oracle only, tolerance of the input's own precision).
WIDE_KINDS = ["float-tuple", "float-list", "int-tuple", "int-list", "np-int64-array", "np-int32-array", "np-int64-scalars",
              "np-float64-array", "np-float64-scalars", "mixed-int-float-int", "mixed-float-int-int", "mixed-int-int-float",
              "mixed-npint32-float-npfloat", "np-uint32-array-or-int64"]
NARROW_INT_KINDS = ["np-int8-array", "np-uint8-array", "np-int16-array", "np-uint16-array"]
OTHER_KINDS = ["np-float32-array"]


def typed_coords(kind, lat, lon, alt):
    """(lat, lon, alt) in degrees / metres as an object of the given numeric kind; integer kinds round (latitude kept within +-89)"""
    import numpy as np
    il = max(-89, min(89, int(round(lat))))
    io, ia = int(round(lon)), int(round(alt))
    fl, fo, fa = float(lat), float(lon), float(alt)
    if kind == "float-tuple":
        return (fl, fo, fa)
    if kind == "float-list":
        return [fl, fo, fa]
    if kind == "int-tuple":
        return (il, io, ia)
    if kind == "int-list":
        return [il, io, ia]
    if kind == "np-int64-array":
        return np.array([il, io, ia], dtype=np.int64)
    if kind == "np-int32-array":
        return np.array([il, io, ia], dtype=np.int32)
    if kind == "np-int64-scalars":
        return (np.int64(il), np.int64(io), np.int64(ia))
    if kind == "np-float64-array":
        return np.array([fl, fo, fa], dtype=np.float64)
    if kind == "np-float64-scalars":
        return (np.float64(fl), np.float64(fo), np.float64(fa))
    if kind == "mixed-int-float-int":
        return (il, fo, ia)
    if kind == "mixed-float-int-int":
        return (fl, io, ia)
    if kind == "mixed-int-int-float":
        return [il, io, fa]
    if kind == "mixed-npint32-float-npfloat":
        return (np.int32(il), fo, np.float64(fa))
    if kind == "np-uint32-array-or-int64":
        return np.array([il, io, ia], dtype=np.uint32 if min(il, io, ia) >= 0 else np.int64)
    if kind == "np-int8-array":
        return np.array([il, max(-128, min(127, io if io <= 180 else io - 360)), max(-128, min(127, ia % 128))], dtype=np.int8)
    if kind == "np-uint8-array":
        return np.array([abs(il), io % 256, ia % 256], dtype=np.uint8)
    if kind == "np-int16-array":
        return np.array([il, max(-32768, min(32767, io)), max(-32768, min(32767, ia))], dtype=np.int16)
    if kind == "np-uint16-array":
        return np.array([abs(il), io % 360, min(65535, abs(ia))], dtype=np.uint16)
    if kind == "np-float32-array":
        return np.array([fl, fo, fa], dtype=np.float32)
    raise ValueError(kind)


# ways a caller hands a horizon mask over when the station is created (`mask=` of create_station / TopocentricFrame):
# kind of object x entry point.  "seq" and "arr" kinds are stored (np.asarray), None / empty sequences mean "no mask".  (Until /repo
# e7f290a an ndarray was rejected by an `if mask` truth-value test — fixed finding C11-mask-ndarray-at-creation; the oracle family
# `mask-given-rejected-ndarray-truth-value` stays alive.)
MASK_OBJ_KINDS = {"list": "seq", "tuple": "seq", "list-of-arrays": "seq", "tuple-of-lists": "seq", "list-np-scalars": "seq", "list-int-elev": "seq",
                  "ndarray": "arr", "ndarray-F-order": "arr", "none": "absent", "omitted": "absent", "empty-list": "eseq", "empty-tuple": "eseq"}
MASK_ENTRIES = ["create_station", "create_station-positional", "TopocentricFrame", "TopocentricFrame-positional"]
PARENTS = ["default", "WGS84", "ITRF", "PEF", "TIRF"]


def mask_object(okind, az, el):
    """the object of kind `okind` holding the table (az, el); also the exact table it denotes (Python floats)"""
    import numpy as np
    az, el = [float(a) for a in az], [float(e) for e in el]
    if okind == "list":
        return [list(az), list(el)], (az, el)
    if okind == "tuple":
        return (tuple(az), tuple(el)), (az, el)
    if okind == "list-of-arrays":
        return [np.array(az, dtype=float), np.array(el, dtype=float)], (az, el)
    if okind == "tuple-of-lists":
        return (list(az), list(el)), (az, el)
    if okind == "list-np-scalars":
        return [[np.float64(a) for a in az], [np.float64(e) for e in el]], (az, el)
    if okind == "list-int-elev":      # elevations given as whole numbers (Python ints) next to float azimuths
        iel = [int(round(e)) for e in el]
        return [list(az), iel], (az, [float(e) for e in iel])
    if okind == "ndarray":
        return np.array([az, el], dtype=float), (az, el)
    if okind == "ndarray-F-order":
        return np.asfortranarray(np.array([az, el], dtype=float)), (az, el)
    if okind in ("none", "omitted"):
        return None, ([], [])
    if okind == "empty-list":
        return [], ([], [])
    if okind == "empty-tuple":
        return (), ([], [])
    raise ValueError(okind)


def new_station(lat_deg, lon_deg, alt, mask=None, kind="float-tuple", mask_given=None, entry="create_station", parent="default", equatorial=False, name=None):
    """returns the station created by beyond from coordinates of the given numeric kind; `st.c11_deg` holds the exact
    values (as Python floats) of the coordinates that were passed in.
    mask: assigned AFTER creation (`st.mask = array`).  mask_given = (okind, az, el): handed over AT creation through `entry`
    (create_station(..., mask=obj), or TopocentricFrame(name, o, c, mask=obj) on the orientation and centre of a station made without).
    parent: the `parent_frame` argument ("default" = not passed).  Exceptions of the constructor propagate (leftovers are removed)."""
    import numpy as np
    from beyond.frames import frames
    from beyond.frames.stations import create_station, TopocentricFrame
    _setup()
    name = name or f"C11s{next(_counter)}"       # an explicit name may already be in use: the station is then RE-created under it
    coords = typed_coords(kind, lat_deg, lon_deg, alt)
    vals = [float(c) for c in coords]
    pf = None if parent == "default" else getattr(frames, parent)
    kw = {}
    if equatorial:
        kw["equatorial"] = True
    extra = []
    if mask_given is not None:
        okind = mask_given[0]
        obj, _tbl = mask_object(*mask_given)
    if mask_given is None or entry.startswith("TopocentricFrame"):
        st = create_station(name, coords, **kw) if pf is None else create_station(name, coords, parent_frame=pf, **kw)
        if mask_given is not None:
            base = st
            try:
                if okind == "omitted":
                    st = TopocentricFrame(name + "b", base.orientation, base.center)
                elif entry.endswith("positional"):
                    st = TopocentricFrame(name + "b", base.orientation, base.center, obj)
                else:
                    st = TopocentricFrame(name + "b", base.orientation, base.center, mask=obj)
            except Exception:
                drop_station(base)
                raise
            extra = [name + "b"]
    else:
        try:
            if okind == "omitted":
                st = create_station(name, coords, **kw) if pf is None else create_station(name, coords, pf, **kw)
            elif entry.endswith("positional"):
                st = create_station(name, coords, pf or frames.WGS84, obj, **kw)
            elif pf is None:
                st = create_station(name, coords, mask=obj, **kw)
            else:
                st = create_station(name, coords, mask=obj, parent_frame=pf, **kw)
        except Exception:
            drop_by_name(name, (pf or frames.WGS84).orientation, (pf or frames.WGS84).center)
            raise
    st.c11_deg = vals
    st.c11_kind = kind
    st.c11_name = name
    st.c11_extra = extra
    st.c11_given = obj if mask_given is not None else None
    if mask is not None:
        st.mask = np.array(mask, dtype=float)
    return st


def _detach(leaf, parent, name):
    leaf.neighbors.pop(parent, None)
    parent.neighbors.pop(leaf, None)
    seen, todo = {parent}, [parent]
    while todo:
        n = todo.pop()
        n.routes.pop(name, None)
        for m in n.neighbors:
            if m not in seen:
                seen.add(m)
                todo.append(m)


def drop_station(st):
    """detach a station created by new_station from beyond's registries again (harness-side only): Node._update is
    quadratic in the number of nodes, so thousands of registered stations would make every later frame change crawl.
    A station is a leaf of both graphs, so the routes between the remaining nodes are untouched."""
    from beyond.frames import frames, center, orient
    name = getattr(st, "c11_name", st.name)
    parent_c = next((n for n in st.center.node.neighbors), center.Earth.node)
    if getattr(st.orientation, "parent", None) is not None:     # equatorial stations share the EME2000 orientation: nothing to detach
        _detach(st.orientation, st.orientation.parent, name)
        if f"{name}_to_{st.orientation.parent.name}" in orient.Orientation.__dict__:
            delattr(orient.Orientation, f"{name}_to_{st.orientation.parent.name}")
    _detach(st.center.node, parent_c, name)
    for nm in [name] + list(getattr(st, "c11_extra", [])):
        frames.dynamic.pop(nm, None)
    if f"{name}_to_{parent_c.name}" in center.Center.__dict__:
        delattr(center.Center, f"{name}_to_{parent_c.name}")


def drop_by_name(name, parent_orientation, parent_center):
    """same, for a station whose creation raised after its centre / orientation were linked (no station object to start from)"""
    from beyond.frames import frames, center, orient
    for parent in (parent_orientation, parent_center.node):
        for leaf in [n for n in parent.neighbors if n.name == name]:
            _detach(leaf, parent, name)
    frames.dynamic.pop(name, None)
    for cls, attr in ((orient.Orientation, f"{name}_to_{parent_orientation.name}"), (center.Center, f"{name}_to_{parent_center.name}")):
        if attr in cls.__dict__:
            delattr(cls, attr)


# ---------------------------------------------------------------- input generators

def gen_station(rng, k=None):
    """(lat_deg, lon_deg, alt, kind): every quadrant; longitudes in the signed and in the 0..360 east convention, exactly 0 / 180 / -180 / 360,
    below -180 and above 360 (the code takes any angle); the poles themselves; altitudes from ocean trenches to the geostationary belt"""
    grid = [(0.0, 0.0, 0.0, "equator-greenwich"), (89.999, 10.0, 100.0, "near-north-pole"), (-89.9999, -170.0, 2800.0, "near-south-pole"),
            (43.604482, 1.443962, 172.0, "NE"), (-33.9, 18.4, 20.0, "SE"), (-33.45, -70.66, 570.0, "SW"), (40.7, -74.0, 10.0, "NW"),
            (31.5, 35.5, -400.0, "below-sea-level"), (27.98, 86.92, 8848.0, "high"), (0.0, 180.0, 0.0, "antimeridian"),
            (-0.0001, 359.9999, 1.0, "lon-near-360"), (65.0, -180.0, 5.0, "lon-minus-180"), (12.0, 270.0, 9000.0, "lon-270"),
            (28.524, 279.349, 3.0, "lon-0-360-convention"), (39.007, 345.598, 2187.0, "lon-0-360-convention"), (-25.0, 360.0, 50.0, "lon-360"),
            (51.0, 180.0000001, 10.0, "lon-just-above-180"), (10.0, 400.0, 0.0, "lon-above-360"), (-10.0, -300.0, 0.0, "lon-below-minus-180"),
            (90.0, 30.0, 10.0, "north-pole"), (-90.0, 200.0, 2835.0, "south-pole"), (11.35, 142.2, -10920.0, "trench"), (5.0, 300.0, 4.0e5, "very-high"),
            (0.0, 285.0, 3.5786e7, "geostationary-height")]
    if k is not None and k < len(grid):
        return grid[k]
    u = rng.random()
    if u < 0.15:
        lat = rng.choice([-1, 1]) * (90 - 10 ** rng.uniform(-4, 0))
    else:
        lat = math.degrees(math.asin(rng.uniform(-1, 1)))
    lat = max(min(lat, 89.99995), -89.99995)
    u = rng.random()
    if u < 0.35:
        lon, conv = rng.uniform(-180, 180), "signed"
    elif u < 0.8:
        lon, conv = rng.uniform(0, 360), "0-360"
    elif u < 0.9:
        lon, conv = rng.choice([0.0, 180.0, -180.0, 360.0, 90.0, 270.0, -90.0, 181.0, 359.0]), "exact"
    else:
        lon, conv = rng.uniform(-720, 720), "any-turn"
    alt = rng.uniform(-400, 9000) if rng.random() < 0.9 else rng.choice([-11000.0, 1.0e5, 2.0e7])
    quad = ("N" if lat >= 0 else "S") + ("E" if 0 <= (lon % 360) < 180 else "W")
    return (lat, lon, alt, ("polar-" + quad if abs(lat) > 89 else quad) + "-lon-" + conv)


def gen_target(rng, spos, up):
    """target position/velocity in the Earth-fixed frame; returns (r, v, kind)"""
    u = rng.random()
    if u < 0.25:
        # near the station: 1 km .. 2000 km in a random direction (also below the horizon)
        dist = 10 ** rng.uniform(3, 6.3)
        kind = "near"
    elif u < 0.65:
        dist = None
        rad = 6378e3 + 10 ** rng.uniform(5.2, 6.5)
        kind = "leo-meo"
    elif u < 0.85:
        dist = None
        rad = 4.2164e7 * rng.uniform(0.9, 1.1)
        kind = "geo"
    else:
        dist = None
        rad = 10 ** rng.uniform(8, 8.7)
        kind = "far"
    dirv = [rng.gauss(0, 1) for _ in range(3)]
    n = math.sqrt(sum(c * c for c in dirv))
    dirv = [c / n for c in dirv]
    if dist is not None:
        r = [s + dist * c for s, c in zip(spos, dirv)]
    else:
        r = [rad * c for c in dirv]
    if rng.random() < 0.04:
        h = 10 ** rng.uniform(3, 7)
        r = [s + h * c for s, c in zip(spos, up)]
        kind = "zenith"
    sp = rng.choice([0.0, 10.0, 3000.0, 7600.0])
    v = [rng.uniform(-1, 1) * sp for _ in range(3)]
    return r, v, kind


def gen_mask(rng):
    """(azimuths, elevations, kind) following the documented convention unless kind says otherwise"""
    n = rng.choice([1, 2, 2, 2, 3, 4, 5, 6, 8, 10, 12, 12, 24, 72])
    u = rng.random()
    kind = "conv"
    if n == 1:
        az = [TWO_PI]
    else:
        first_zero = u < 0.2
        gap = 1e-3 if n <= 12 else 1e-5
        inner = sorted(rng.uniform(1e-3, TWO_PI - 1e-3) for _ in range(n - 1))
        ok = all(b - a > gap for a, b in zip(inner, inner[1:]))
        while not ok:
            inner = sorted(rng.uniform(1e-3, TWO_PI - 1e-3) for _ in range(n - 1))
            ok = all(b - a > gap for a, b in zip(inner, inner[1:]))
        if first_zero:
            inner[0] = 0.0
            kind = "conv-first-zero"
        elif u < 0.3 and n > 2:
            # regular grid in degrees, as a surveyed mask is usually written
            inner = [math.radians(360.0 * (j + 1) / n) for j in range(n - 1)]
            kind = "conv-regular"
        az = inner + [TWO_PI]
    el = [rng.uniform(0, 1.4) for _ in az]
    return az, el, kind


def gen_mask_unconventional(rng):
    """tables outside the documented convention (last azimuth < 2 pi, or negative first azimuth): modelled, no theorem"""
    n = rng.choice([1, 2, 3, 5])
    az = sorted(rng.uniform(0.05, 6.0) for _ in range(n))
    while not all(b - a > 1e-3 for a, b in zip(az, az[1:])):
        az = sorted(rng.uniform(0.05, 6.0) for _ in range(n))
    kind = "last-below-2pi"
    if rng.random() < 0.3:
        az = [-0.5] + az + [TWO_PI]
        kind = "first-negative"
    el = [rng.uniform(0, 1.4) for _ in az]
    return az, el, kind


def gen_azimuths(rng, az, k):
    """k azimuths (value, kind) for the table with azimuths `az`: anywhere in [-4 pi, 4 pi], on the nodes (also shifted by whole turns),
    whole turns, inside the wrap-around segment [0, first node), inside the LAST segment (last interior node, 2 pi), tiny values"""
    out = []
    lo_last = az[-2] if len(az) >= 2 else 0.0
    for _ in range(k):
        u = rng.random()
        if u < 0.4:
            out.append((rng.uniform(-2 * TWO_PI, 2 * TWO_PI), "random"))
        elif u < 0.52:
            out.append((rng.choice(az), "exact-hit"))
        elif u < 0.6:
            out.append((rng.choice(az) + rng.choice([-1, 1]) * TWO_PI, "hit-shifted"))
        elif u < 0.7:
            out.append((rng.choice([0.0, TWO_PI, -TWO_PI, 2 * TWO_PI, -2 * TWO_PI, -0.0]), "multiple-of-2pi"))
        elif u < 0.8:
            out.append((rng.uniform(0, az[0]) if az[0] > 0 else rng.uniform(0, 1e-3), "wrap-segment"))
        elif u < 0.93:
            x = rng.uniform(lo_last, az[-1]) if az[-1] > lo_last else rng.uniform(0, TWO_PI)
            out.append((x + rng.choice([0, 0, 0, -1, 1, 2]) * TWO_PI, "last-segment"))
        else:
            out.append((rng.choice([-1e-20, 1e-300, -1e-9, TWO_PI - 1e-12, 1e-12, float(rng.randrange(-7, 14))]), "tiny-or-whole"))
    return out


def segment_azimuths(az):
    """one azimuth in the middle of every segment of the table (wrap-around segment first, last segment last), and every node"""
    nodes = ([0.0] if az[0] > 0 else []) + list(az)
    return [((a + b) / 2, "segment-middle") for a, b in zip(nodes, nodes[1:]) if b > a] + [(a, "node") for a in az]


def azimuth_object(rng, x):
    """the azimuth `x` as one of the kinds of number a caller passes to get_mask; returns (object, kind)"""
    import numpy as np
    u = rng.random()
    if x == int(x) and abs(x) < 2 ** 31 and u < 0.6:
        return (int(x), "int") if u < 0.3 else (np.int64(int(x)), "np-int64")
    if u < 0.75:
        return x, "float"
    return np.float64(x), "np-float64"


def gen_mask_arg(rng):
    """(okind, entry) — how a mask is handed over at the creation of a station"""
    u = rng.random()
    if u < 0.7:
        okind = rng.choice([k for k, c in MASK_OBJ_KINDS.items() if c == "seq"])
    elif u < 0.8:
        okind = rng.choice([k for k, c in MASK_OBJ_KINDS.items() if c == "arr"])
    else:
        okind = rng.choice([k for k, c in MASK_OBJ_KINDS.items() if c in ("absent", "eseq")])
    return okind, rng.choice(MASK_ENTRIES)


ASSIGN_KINDS = ["c-array", "transposed-view", "vstack", "default-dtype"]


def assign_object(akind, az, el):
    """the array of kind `akind` a caller assigns to `station.mask`"""
    import numpy as np
    if akind == "c-array":
        return np.array([az, el], dtype=float)
    if akind == "transposed-view":        # a non-contiguous view: columns of an Nx2 array of (azimuth, elevation) rows
        return np.array(list(zip(az, el)), dtype=float).reshape(len(az), 2).T
    if akind == "vstack":
        return np.vstack([np.array(az, dtype=float), np.array(el, dtype=float)])
    if akind == "default-dtype":
        return np.array([list(az), list(el)]) if az else np.zeros((2, 0))
    raise ValueError(akind)


def gen_mask_history(rng, az, el, n_steps, strict, n_reads=3):
    """a history of operations on a station that holds the table (az, el) — nothing when az is empty —: list of
    ("Q", x, kind) get_mask | ("A", az, el, akind) station.mask = array | ("N",) station.mask = None | ("P", i, a, e) station.mask[:, i] = (a, e)
    | ("L",) the caller writes into the list object it gave at creation.  It starts with reads (every segment of the table is visited, the last
    one included), then `n_steps` modifications each followed by reads.
    strict: every table follows the convention and every operation succeeds (oracle); otherwise anything the model covers: tables outside
    the convention, empty tables, reads without a mask, writes out of range."""
    ops = []
    cur = [list(az), list(el)] if len(az) else None
    asked = []

    def reads(k, segments):
        if cur and cur[0]:
            qs = gen_azimuths(rng, cur[0], k)
            sg = segment_azimuths(cur[0])
            m = len(sg) - len(cur[0])
            qs += ([sg[m - 1]] if m > 0 else []) + rng.sample(sg, min(segments, len(sg)))     # middle of the last segment, then others
            if asked and rng.random() < 0.7:
                qs.append((rng.choice(asked), "asked-before"))     # the same azimuth again, after the table changed: nothing may be remembered
            rng.shuffle(qs)
        else:
            qs = [] if strict else [(rng.uniform(-7, 7), "random")]
        asked.extend(x for x, _k in qs[:2])
        ops.extend(("Q", x, k_) for x, k_ in qs)

    reads(n_reads, 3)
    if rng.random() < 0.5:
        ops.append(("L",))
        reads(1, 0)
    for _ in range(n_steps):
        u = rng.random()
        if u < 0.45 or (strict and not cur):
            a2, e2, _k = gen_mask(rng) if strict or rng.random() < 0.8 else gen_mask_unconventional(rng)
            if not strict and rng.random() < 0.05:
                a2, e2 = [], []
            cur = [list(a2), list(e2)]
            ops.append(("A", list(a2), list(e2), rng.choice(ASSIGN_KINDS)))
        elif u < 0.55:
            cur = None
            ops.append(("N",))
            if strict:
                continue
        elif cur and cur[0] and (strict or rng.random() < 0.9):
            i = rng.randrange(len(cur[0]))
            lo = cur[0][i - 1] if i > 0 else 0.0
            hi = cur[0][i + 1] if i + 1 < len(cur[0]) else None
            if hi is None or not lo < hi or rng.random() < 0.4:
                a = cur[0][i]                                  # elevation only (the closing node keeps its azimuth)
            elif strict or rng.random() < 0.9:
                a = rng.uniform(lo, hi)                        # the node moves between its neighbours
                a = a if lo < a < hi else cur[0][i]
            else:
                a = rng.uniform(-1, 7)                         # anywhere: the table may leave the convention (modelled, no theorem)
            e = rng.uniform(0, 1.4)
            cur[0][i], cur[1][i] = a, e
            ops.append(("P", i, a, e))
        else:
            n = len(cur[0]) if cur else 0
            ops.append(("P", n + rng.randrange(3), rng.uniform(0, 6), rng.uniform(0, 1)))
        reads(2, 1)
    return ops


def apply_to_table(cur, op):
    """the table [az, el] (None: no mask) a station is expected to hold after `op`; writes that raise leave it unchanged"""
    if op[0] == "A":
        return [list(op[1]), list(op[2])]
    if op[0] == "N":
        return None
    if op[0] == "P" and cur is not None and op[1] < len(cur[0]):
        cur = [list(cur[0]), list(cur[1])]
        cur[0][op[1]], cur[1][op[1]] = op[2], op[3]
    return cur


def conventional(az):
    return len(az) > 0 and az[-1] == TWO_PI and all(b > a for a, b in zip(az, az[1:]))


# ---------------------------------------------------------------- independent geodesy (extended precision)

def enu_reference(a, f, lat, lon, alt, r, v):
    """WGS-84-style east/north/up computation in numpy extended precision; independent of beyond.
    returns dict(s, E, N, U, range, az, el, rr, horiz)"""
    import numpy as np
    L = np.longdouble
    lat, lon, alt, a, f = L(lat), L(lon), L(alt), L(a), L(f)
    e2 = f * (2 - f)
    sl, cl, so, co = np.sin(lat), np.cos(lat), np.sin(lon), np.cos(lon)
    nu = a / np.sqrt(1 - e2 * sl * sl)
    s = np.array([(nu + alt) * cl * co, (nu + alt) * cl * so, (nu * (1 - e2) + alt) * sl], dtype=L)
    E = np.array([-so, co, L(0)], dtype=L)
    N = np.array([-sl * co, -sl * so, cl], dtype=L)
    U = np.array([cl * co, cl * so, sl], dtype=L)
    d = np.array(r, dtype=L) - s
    e, n, u = E @ d, N @ d, U @ d
    rng = np.sqrt(e * e + n * n + u * u)
    horiz = np.sqrt(e * e + n * n)
    return {"s": s, "E": E, "N": N, "U": U, "range": rng, "az": np.arctan2(e, n), "el": np.arctan2(u, horiz),
            "rr": (d @ np.array(v, dtype=L)) / rng, "horiz": horiz, "enu": (e, n, u)}


def angdiff(a, b):
    d = (float(a) - float(b)) % TWO_PI
    return min(d, TWO_PI - d)


def pwl_reference(az, el, x):
    """independent piecewise-linear interpolation of the table, the 2 pi value also serving at 0"""
    import numpy as np
    xs, ys = list(az), list(el)
    if xs[0] > 0:
        xs, ys = [0.0] + xs, [ys[-1]] + ys
    xr = x - TWO_PI * math.floor(x / TWO_PI)
    if xr >= TWO_PI:
        xr = TWO_PI
    if xr < 0:
        xr = 0.0
    return float(np.interp(xr, xs, ys)), xr


# ---------------------------------------------------------------- oracle on the real API

def check_target(out, st, inp_s, a, f, lat, lon, alt, r, v, date, npath, skind="", tkind="", pframe="ITRF"):
    """one station, one target given in the Earth-fixed frame the station was created in (`parent_frame`, default WGS84 = ITRF): station-frame spherical/cartesian coordinates and the four measures vs the ENU reference"""
    import numpy as np
    from beyond.orbits import StateVector
    from beyond.utils.measures import Range, Azimut, Elevation, Doppler
    lat_d, lon_d = inp_s["latlonalt_deg_m"][:2]
    ref = enu_reference(a, f, lat, lon, alt, r, v)
    sv = StateVector(r + v, date, "cartesian", pframe)
    t = sv.copy(frame=st, form="spherical")
    inp = dict(inp_s, target_itrf=r + v, date=str(date))
    rg = float(ref["range"])
    hz = max(float(ref["horiz"]), 1e-30)
    cosel = hz / rg
    tol_r = 1e-6 + 2e-15 * rg + 4e-9
    tol_az = 1e-10 + 4e-9 / hz
    tol_el = 1e-10 + min(1e-15 / max(cosel, 1e-300), 5e-8) + 4e-9 / rg
    out.count(key=("topo", lat_d, lon_d, tuple(r)), kind="topo-vs-enu", target=tkind, station=skind,
              az_quadrant=int(((float(ref["az"]) % TWO_PI) // (math.pi / 2))), above=bool(ref["el"] > 0))
    if not abs(float(t.r) - rg) <= tol_r:
        out.fail("topo-range", "range in the station frame differs from the ENU range", inp, observed=float(t.r), expected=rg)
    if not abs(float(t.phi) - float(ref["el"])) <= tol_el:
        out.fail("topo-elevation", "phi in the station frame differs from the ENU elevation", inp, observed=float(t.phi), expected=float(ref["el"]))
    if cosel > 1e-7 and not angdiff(-float(t.theta), ref["az"]) <= tol_az:
        out.fail("topo-azimuth", "-theta in the station frame differs from the ENU azimuth (clockwise from north)", inp, observed=-float(t.theta), expected=float(ref["az"]))
    tol_rr = 1e-9 + 1e-12 * float(np.linalg.norm(v)) + 1e-8 * float(np.linalg.norm(v)) / rg
    if not abs(float(t.r_dot) - float(ref["rr"])) <= tol_rr:
        out.fail("topo-range-rate", "r_dot in the station frame differs from d.v/|d| computed in the Earth-fixed frame", inp, observed=float(t.r_dot), expected=float(ref["rr"]))
    # cartesian axes: x north, y west, z up
    c = np.array(sv.copy(frame=st, form="cartesian"))[:3]
    e, n, u = (float(q) for q in ref["enu"])
    if not np.allclose(c, [n, -e, u], rtol=0, atol=tol_r):
        out.fail("topo-axes", "cartesian coordinates in the station frame are not (north, west, up)", inp, observed=list(map(float, c)), expected=[n, -e, u])
    # --- measures
    path = tuple([st] + ["sat", st, "relay"][: npath - 1])
    exp = {"Range": rg * (npath - 1), "Azimut": -float(ref["az"]), "Elevation": float(ref["el"]), "Doppler": float(ref["rr"])}
    for cls in (Range, Azimut, Elevation, Doppler):
        m = cls(path, date, 0.0).from_orbit(sv)
        nm = cls.__name__
        out.count(key=("meas", nm, npath, lat_d, tuple(r)), kind="measure-" + nm, path_len=npath)
        val = float(m.value)
        ok = {"Range": abs(val - exp[nm]) <= tol_r * (npath - 1),
              "Azimut": cosel <= 1e-7 or angdiff(val, exp[nm]) <= tol_az,
              "Elevation": abs(val - exp[nm]) <= tol_el,
              "Doppler": abs(val - exp[nm]) <= tol_rr}[nm]
        if not (ok and m.date == sv.date and m.path == path):
            out.fail("measure-" + nm, f"{nm}.from_orbit value is not the topocentric quantity (range once per leg; azimuth stored as theta = -azimuth)",
                     dict(inp, path_len=npath), observed=val, expected=exp[nm])


SOURCE_FORMS = ["cartesian", "spherical", "cartesian", "spherical", "cylindrical"]


def source_kind(src, st, src_rec, inp_s):
    """in which kind of frame the target is handed to station `st`: computed from the two stations"""
    if src is st:
        return "same-station"
    if src_rec.get("equatorial"):
        return "equatorial-station"
    if PARENT_NAME[src_rec.get("parent", "default")] != PARENT_NAME[inp_s.get("parent", "default")]:
        return "other-station-other-parent"
    if list(src_rec["latlonalt_deg_m"]) == list(inp_s["latlonalt_deg_m"]):
        return "twin-station"
    return "other-station"


def station_record(st, parent="default", equatorial=False):
    """what is needed to create the station again (replay)"""
    rec = {"latlonalt_deg_m": list(st.c11_deg), "coords_kind": st.c11_kind}
    if parent != "default":
        rec["parent"] = parent
    if equatorial:
        rec["equatorial"] = True
    return rec


def check_given_in(out, st, inp_s, a, f, lat, lon, alt, r, v, date, npath, src, src_rec, form, via=(), skind="", tkind="", pframe="ITRF", by_name=False):
    """"ANY target": the target (r, v in the Earth-fixed frame `pframe` of station `st`) reaches `st` in the frame of ANOTHER station `src` —
    as the points yielded by src.visibility() do, or sv.copy(frame=src) —, in form `form`, possibly handed on through the stations `via`
    first; point.copy(frame=st, form="spherical"), the cartesian axes and the four measures of that point vs the ENU reference at `st`"""
    import numpy as np
    from beyond.orbits import StateVector
    from beyond.utils.measures import Range, Azimut, Elevation, Doppler
    lat_d, lon_d = inp_s["latlonalt_deg_m"][:2]
    ref = enu_reference(a, f, lat, lon, alt, r, v)
    sv = StateVector(r + v, date, "cartesian", pframe)
    sing = [0.0, 0.0]       # conditioning of the spherical form near the zenith / nadir of a frame on the way (position, velocity): no defect, a property of the coordinates

    def held(pt):
        c = np.array(pt.copy(form="cartesian"), dtype=float)
        rk = float(np.linalg.norm(c[:3]))
        if pt.form.name == "spherical" and rk > 0:
            cphi = max(math.hypot(c[0], c[1]) / rk, 1e-12)
            sing[0] += 8e-16 * rk / cphi
            sing[1] += 8e-16 * float(np.linalg.norm(c[3:])) / cphi ** 2
        return rk
    def route(form):
        sing[:] = [0.0, 0.0]
        pt = sv.copy(frame=src, form=form)
        pts = [pt]
        for vst, _rec in via:
            pt = pt.copy(frame=vst)
            pts.append(pt)
        return pts
    pts = route(form)
    if form != "cartesian" and not all(np.all(np.isfinite(np.array(pt, dtype=float))) for pt in pts + [pts[-1].copy(frame=st)]):
        # exactly at the zenith of a frame on the way (or of the station itself: a frame change keeps the form) the angular rates of the
        # spherical / cylindrical form are 0/0: that target is handed over in cartesian form
        form = "cartesian"
        pts = route(form)
    point = pts[-1]
    reach0 = max(held(pt) for pt in pts)
    skd = source_kind(src, st, src_rec, inp_s)
    inp = dict(inp_s, target_itrf=r + v, date=str(date), given_in=dict(src_rec, form=form), via=[rec for _v, rec in via], path_len=npath)
    if by_name:
        inp["by_name"] = True
    t = point.copy(frame=st.name if by_name else st, form="spherical")
    rg = float(ref["range"])
    hz = max(float(ref["horiz"]), 1e-30)
    cosel = hz / rg
    # rounding: each frame on the way holds the point at the length of its own position vector there
    reach = max([reach0, float(np.linalg.norm(r)), rg]) + 6.4e6
    inertial = skd == "equatorial-station" or any(rec.get("equatorial") for _v, rec in via) or skd == "other-station-other-parent" or any(PARENT_NAME[rec.get("parent", "default")] != pframe for _v, rec in via)
    noise = 8e-9 + (60e-16 if inertial else 12e-16) * reach * (1 + len(via)) + sing[0]
    sp = float(np.linalg.norm(v))
    tol_r = 1e-6 + 2e-15 * rg + noise
    tol_az = 1e-10 + noise / hz
    tol_el = 1e-10 + min(1e-15 / max(cosel, 1e-300), 5e-8) + noise / rg
    tol_rr = 1e-9 + 1e-12 * sp + 2 * noise * sp / rg + sing[1] + (1e-9 + 1e-12 * 7.3e-5 * reach if inertial else 0.0)
    out.count(key=("given-in", lat_d, lon_d, tuple(r), tuple(src_rec["latlonalt_deg_m"]), form, len(via)), kind="topo-given-in-" + skd, form=form, via=len(via), target=tkind, station=skind,
              az_quadrant=int(((float(ref["az"]) % TWO_PI) // (math.pi / 2))), above=bool(ref["el"] > 0))
    sfx = f"-target-given-in-{skd}-frame"
    txt = f" when the target is given in the frame of {skd.replace('-', ' ')} ({form} form" + (f", handed on through {len(via)} more station(s)" if via else "") + ")"
    if not abs(float(t.r) - rg) <= tol_r:
        out.fail("topo-range" + sfx, "range in the station frame differs from the ENU range" + txt, inp, observed=float(t.r), expected=rg)
    if not abs(float(t.phi) - float(ref["el"])) <= tol_el:
        out.fail("topo-elevation" + sfx, "phi in the station frame differs from the ENU elevation" + txt, inp, observed=float(t.phi), expected=float(ref["el"]))
    if cosel > 1e-7 and not angdiff(-float(t.theta), ref["az"]) <= tol_az:
        out.fail("topo-azimuth" + sfx, "-theta in the station frame differs from the ENU azimuth (clockwise from north)" + txt, inp, observed=-float(t.theta), expected=float(ref["az"]))
    if not abs(float(t.r_dot) - float(ref["rr"])) <= tol_rr:
        out.fail("topo-range-rate" + sfx, "r_dot in the station frame differs from d.v/|d| computed in the Earth-fixed frame" + txt, inp, observed=float(t.r_dot), expected=float(ref["rr"]))
    c = np.array(point.copy(frame=st, form="cartesian"))[:3]
    e, n, u = (float(q) for q in ref["enu"])
    if not np.allclose(c, [n, -e, u], rtol=0, atol=tol_r):
        out.fail("topo-axes" + sfx, "cartesian coordinates in the station frame are not (north, west, up)" + txt, inp, observed=list(map(float, c)), expected=[n, -e, u])
    path = tuple([st] + ["sat", st, "relay"][: npath - 1])
    exp = {"Range": rg * (npath - 1), "Azimut": -float(ref["az"]), "Elevation": float(ref["el"]), "Doppler": float(ref["rr"])}
    for cls in (Range, Azimut, Elevation, Doppler):
        m = cls(path, date, 0.0).from_orbit(point)
        nm = cls.__name__
        out.count(key=("meas-given-in", nm, npath, lat_d, tuple(r), tuple(src_rec["latlonalt_deg_m"]), form), kind="measure-" + nm + "-given-in-" + skd, path_len=npath)
        val = float(m.value)
        ok = {"Range": abs(val - exp[nm]) <= tol_r * (npath - 1),
              "Azimut": cosel <= 1e-7 or angdiff(val, exp[nm]) <= tol_az,
              "Elevation": abs(val - exp[nm]) <= tol_el,
              "Doppler": abs(val - exp[nm]) <= tol_rr}[nm]
        if not (ok and m.date == point.date and m.path == path):
            out.fail("measure-" + nm + sfx, f"{nm}.from_orbit value is not the topocentric quantity (range once per leg; azimuth stored as theta = -azimuth)" + txt,
                     inp, observed=val, expected=exp[nm])


def check_station_state(out, st, inp_s, a, f, lat, lon, alt, date, ref0, skind="", ckind="", fd_frame=None, pframe="ITRF"):
    """one station: on the ellipsoid at its height along the normal, at the reference position, at rest in the Earth-fixed frames,
    omega x r in the frames of the rotation axis, velocity = d(position)/dt in inertial frame `fd_frame`"""
    import numpy as np
    from beyond.dates import timedelta
    from beyond.orbits import StateVector
    lat_d, lon_d = inp_s["latlonalt_deg_m"][:2]
    # --- the station sits on the ellipsoid at the given height, along the ellipsoid normal
    origin = StateVector([0, 0, 0, 0, 0, 0], date, "cartesian", st)
    s_itrf = np.array(origin.copy(frame=pframe))      # in the frame the coordinates were given in
    out.count(key=("ellipsoid", lat_d, lon_d, alt), kind="station-ellipsoid", station=skind, coords=ckind, parent=pframe)
    L = np.longdouble
    foot = np.array(s_itrf[:3], dtype=L) - L(alt) * ref0["U"]
    b = L(a) * (1 - L(f))
    lhs = (foot[0] ** 2 + foot[1] ** 2) / L(a) ** 2 + foot[2] ** 2 / b ** 2
    grad = np.array([foot[0] / L(a) ** 2, foot[1] / L(a) ** 2, foot[2] / b ** 2], dtype=L)
    grad = grad / np.sqrt(grad @ grad)
    if not (abs(float(lhs - 1)) < 1e-12 and float(np.max(np.abs(grad - ref0["U"]))) < 1e-12):
        out.fail("station-ellipsoid", "station minus alt*normal is not on the ellipsoid (a, a(1-f)) / the normal there is not the geodetic vertical", inp_s,
                 observed={"position": list(map(float, s_itrf[:3])), "ellipsoid_lhs_minus_1": float(lhs - 1)}, expected={"position": list(map(float, ref0["s"]))})
    if not float(np.max(np.abs(np.array(s_itrf[:3], dtype=L) - ref0["s"]))) < 1e-6:
        out.fail("station-position", "station position differs from the geodetic -> ECEF formula evaluated independently", inp_s,
                 observed=list(map(float, s_itrf[:3])), expected=list(map(float, ref0["s"])))
    # --- at rest in the Earth-fixed frames
    out.count(key=("rest", lat_d, lon_d, alt), kind="station-rest", station=skind)
    for fr in ("ITRF", "PEF", "TIRF"):
        vv = np.array(origin.copy(frame=fr))[3:]
        if not np.all(np.abs(vv) < 1e-12):
            out.fail("station-not-at-rest-" + fr, f"station has a non-zero velocity in the Earth-fixed frame {fr}", dict(inp_s, date=str(date)), observed=list(map(float, vv)), expected=[0, 0, 0])
    # --- moves with the Earth's rotation in inertial frames
    om = 7.292115146706979e-5 * (1 - (date.eop.lod / 1000.0) / 86400.0)
    for fr in ("TOD", "CIRF"):
        sv = np.array(origin.copy(frame=fr))
        exp = np.array([-om * sv[1], om * sv[0], 0.0])
        out.count(key=("omega", fr, lat_d, lon_d), kind="station-omega-cross-r", frame=fr)
        if not np.allclose(sv[3:], exp, rtol=0, atol=1e-9):
            out.fail("station-inertial-velocity-" + fr, "station velocity in the frame of the rotation axis is not omega x r", dict(inp_s, date=str(date), frame=fr),
                     observed=list(map(float, sv[3:])), expected=list(map(float, exp)))
    if fd_frame:
        fr = fd_frame
        h = 30.0
        pts = {}
        for dt in (-2 * h, -h, h, 2 * h):
            o = StateVector([0, 0, 0, 0, 0, 0], date + timedelta(seconds=dt), "cartesian", st)
            pts[dt] = np.array(o.copy(frame=fr))[:3]
        fd = (8 * (pts[h] - pts[-h]) - (pts[2 * h] - pts[-2 * h])) / (12 * h)
        vv = np.array(origin.copy(frame=fr))[3:]
        out.count(key=("fd", fr, lat_d, lon_d), kind="station-velocity-finite-difference", frame=fr)
        if not np.allclose(vv, fd, rtol=0, atol=3e-3):
            out.fail("station-inertial-velocity-" + fr, "station velocity in an inertial frame is not the time derivative of its position there",
                     dict(inp_s, date=str(date), frame=fr), observed=list(map(float, vv)), expected=list(map(float, fd)))

def check_coords_kind(out, kind, lat_d, lon_d, alt, a, f):
    """create_station(coordinates of the given numeric kind): position and axes vs the reference evaluated on the exact values"""
    import numpy as np
    try:
        st = new_station(lat_d, lon_d, alt, kind=kind)
    except Exception as e:  # noqa: BLE001
        vals = [float(c) for c in typed_coords(kind, lat_d, lon_d, alt)]
        out.count(key=("coords", kind, lat_d, lon_d, alt), kind="station-coordinates", coords=kind)
        out.fail("station-coordinates-raises-" + kind, f"create_station raises for coordinates given as {kind}", {"latlonalt_deg_m": vals, "coords_kind": kind},
                 observed=repr(e), expected="a station")
        return
    lat_d, lon_d, alt = st.c11_deg
    ref = enu_reference(a, f, math.radians(lat_d), math.radians(lon_d), alt, [0, 0, 0], [0, 0, 0])
    pos = np.array([float(c) for c in st.center.offset[:3]])
    m = np.array(st.orientation._m, dtype=float)
    axes = np.array([[float(c) for c in ref[k]] for k in ("N", "E", "U")])
    axes[1] = -axes[1]
    drop_station(st)
    out.count(key=("coords", kind, lat_d, lon_d, alt), kind="station-coordinates", coords=kind)
    tol_p, tol_m = 1e-6, 1e-12
    if kind == "np-float32-array":   # the input carries 24 bits; the code converts it to radians in that precision
        e32 = float(np.finfo(np.float32).eps)
        ang = e32 * (abs(math.radians(lat_d)) + abs(math.radians(lon_d)) + 1e-3)
        tol_p, tol_m = 1e-6 + 7e6 * ang, 1e-12 + 2 * ang
    dp = float(np.max(np.abs(pos - np.array([float(c) for c in ref["s"]]))))
    dm = float(np.max(np.abs(m.T - axes)))
    if not (dp <= tol_p and dm <= tol_m):
        fam = "station-coordinates-narrow-int-dtype" if kind in NARROW_INT_KINDS else "station-coordinates-" + kind
        out.fail(fam, f"a station created from coordinates given as {kind} is not at the place / does not have the north-west-up axes of those coordinates",
                 {"latlonalt_deg_m": [lat_d, lon_d, alt], "coords_kind": kind}, observed={"position": pos.tolist(), "position_error_m": dp, "axes_error": dm},
                 expected={"position": [float(c) for c in ref["s"]]})


def real_store(st):
    """what `station.mask` holds, in the notation of the driver: none | junk | t<n>,a1,e1,…"""
    import numpy as np
    m = st.mask
    if m is None:
        return "none"
    if not isinstance(m, np.ndarray) or m.ndim != 2 or m.shape[0] != 2 or m.dtype != np.float64:
        return "junk"
    return f"t{m.shape[1]}" + "".join("," + f2b(float(a)) + "," + f2b(float(e)) for a, e in zip(m[0], m[1]))


def table_str(az, el):
    return f"t{len(az)}" + "".join("," + f2b(float(a)) + "," + f2b(float(e)) for a, e in zip(az, el))


def real_op(rng, st, op):
    """apply one operation of a mask history to the real station; returns the reply: "ok" | float | "index-error" | "no-mask" | "type-error" | "<Exception>" """
    import numpy as np
    try:
        if op[0] == "A":
            st.mask = assign_object(op[3], op[1], op[2])
            return "ok"
        if op[0] == "N":
            st.mask = None
            return "ok"
        if op[0] == "P":
            st.mask[:, op[1]] = (op[2], op[3])
            return "ok"
        if op[0] == "L":
            given = getattr(st, "c11_given", None)
            if isinstance(given, list) and given and all(isinstance(r, list) and r for r in given):
                given[0][-1], given[1][0] = 1.0, 99.0
            return None
        if op[0] == "Q":
            xo, _k = azimuth_object(rng, op[1])
            with np.errstate(all="ignore"):
                return float(st.get_mask(xo))
    except IndexError:
        return "index-error"
    except TypeError:
        return "type-error"
    except ValueError as e:
        return "no-mask" if "No mask" in str(e) else "ValueError"
    raise ValueError(op)


def mask_tolerance(az, el, akind):
    slope = max([abs((el[j + 1] - el[j]) / (az[j + 1] - az[j])) for j in range(len(az) - 1)] + [abs(el[0] - el[-1]) / az[0] if az[0] > 0 else 0.0])
    return 1e-12 + 1e-13 * slope + 1e-9 * slope * (akind in ("tiny", "tiny-or-whole"))


def check_mask_value(out, got, az, el, x, mkind="", akind="random", how="assigned", extra=None):
    """`got` = get_mask(x) of a station that is supposed to hold the conventional table (az, el), vs the independent piecewise-linear
    interpolation; `how` says how the table got there (it goes into the family of a failure and into its replay input)"""
    exp, xr = pwl_reference(az, el, x)
    out.count(key=("mask", how, tuple(az), x), kind="mask-" + akind, table=mkind, npoints=len(az), how=how, nontrivial=akind not in ("multiple-of-2pi",))
    # a table that gives a value at azimuth 0 itself is discontinuous there: skip the float-ambiguous neighbourhood
    if az[0] <= 0 and (xr < 1e-9 or TWO_PI - xr < 1e-9) and akind != "multiple-of-2pi":
        return True
    if not (isinstance(got, float) and abs(got - exp) <= mask_tolerance(az, el, akind)):
        last_lo = az[-2] if len(az) >= 2 else 0.0
        seg = "wrap" if (az[0] > 0 and xr < az[0]) else ("hit" if xr in az else ("last" if xr > last_lo else "interior"))
        fam = "mask-interp-" + seg + ("" if how == "assigned" else "-" + how)
        inp = {"azimuths": list(az), "elevations": list(el), "azim": x, "akind": akind, "how": how}
        inp.update(extra or {})
        out.fail(fam, "get_mask differs from the piecewise-linear interpolation of the table (2 pi value also serving at 0)"
                 + ("" if how == "assigned" else f" — table {how}"), inp, observed=got, expected=exp)
        return False
    return True


def check_mask(out, st, az, el, x, mkind="", akind="random"):
    """get_mask(x) on the table (az, el) assigned to `station.mask` vs the independent piecewise-linear interpolation"""
    import numpy as np
    st.mask = np.array([az, el], dtype=float)
    try:
        with np.errstate(all="ignore"):
            got = float(st.get_mask(x))
    except Exception as e:  # noqa: BLE001
        got = repr(e)
    check_mask_value(out, got, az, el, x, mkind, akind)


def check_mask_given(out, rng, okind, entry, az, el, ops, mkind="", coords=(10.0, 20.0, 30.0), parent="default", equatorial=False):
    """a station created WITH the conventional table (az, el) handed over as an object of kind `okind` through `entry`, then driven
    through the history `ops` (gen_mask_history, strict): the station holds the given table; every read is the interpolation of the table the
    station holds at that moment — in every segment, on the nodes, outside [0, 2 pi) —: the given one, unaffected by later writes of the
    caller into its own list, then the re-assigned / modified-in-place one."""
    import numpy as np
    extra = {"okind": okind, "entry": entry, "parent": parent, "equatorial": equatorial, "given": [list(az), list(el)]}
    cls = MASK_OBJ_KINDS[okind]
    out.count(key=("mask-given", okind, entry, tuple(az)), kind="mask-given", okind=okind, entry=entry, table=mkind, npoints=len(az), equatorial=equatorial)
    try:
        st = new_station(*coords, mask_given=(okind, az, el), entry=entry, parent=parent, equatorial=equatorial)
    except Exception as e:  # noqa: BLE001
        if cls == "arr" and isinstance(e, ValueError) and "truth value of an" in str(e):
            out.fail("mask-given-rejected-ndarray-truth-value", f"a mask given at creation as a numpy array ({okind}) through {entry} is rejected: "
                     "the truth value of an array is ambiguous", dict(extra, ops=[]), observed=repr(e), expected="a station holding the table")
            return
        out.fail(f"mask-given-rejected-{okind}", f"a mask given at creation as {okind} through {entry} is rejected",
                 dict(extra, ops=[]), observed=repr(e), expected="a station holding the table")
        return
    try:
        _obj, (taz, tel) = mask_object(okind, az, el)         # the exact table the object denotes (list-int-elev rounds the elevations)
        cur = [taz, tel] if taz else None
        how = "given-at-" + entry.split("-")[0]
        if real_store(st) != (table_str(taz, tel) if cur else "none"):
            out.fail(f"mask-stored-{entry.split('-')[0]}", "the table held by the station differs from the table given at its creation",
                     dict(extra, ops=[]), observed=None if st.mask is None else np.asarray(st.mask).tolist(), expected=cur)
        for k, op in enumerate(ops):
            rep = real_op(rng, st, op)
            if op[0] == "Q":
                if cur is not None and conventional(cur[0]):
                    if not check_mask_value(out, rep, cur[0], cur[1], op[1], mkind, op[2], how, dict(extra, ops=[list(o) for o in ops[:k + 1]])):
                        break
            else:
                cur = apply_to_table(cur, op)
                if op[0] != "L":
                    how = {"A": "after-reassignment", "N": "after-clear", "P": "after-write-in-place"}[op[0]]
                    mkind = "history"
                    if rep != "ok":
                        out.fail("mask-" + how + "-raises", "an operation on station.mask that is valid for the table it holds raises",
                                 dict(extra, ops=[list(o) for o in ops[:k + 1]]), observed=rep, expected="ok")
                        break
    finally:
        drop_station(st)


PARENT_NAME = {"default": "ITRF", "WGS84": "ITRF", "ITRF": "ITRF", "PEF": "PEF", "TIRF": "TIRF"}


def creation_failure(out, e, inp_s, mgiven, entry, violates=False):
    """a station of a sweep could not be created with the options it was given: a failure of the oracle (or a disagreement), never a harness error"""
    arr = mgiven is not None and MASK_OBJ_KINDS[mgiven[0]] == "arr" and isinstance(e, ValueError) and "truth value of an" in str(e)
    fam = "mask-given-rejected-ndarray-truth-value" if arr else ("mask-given-rejected-" + mgiven[0] if mgiven is not None else "station-creation-raises")
    inp = dict(inp_s)
    if mgiven is not None:
        inp.update(okind=mgiven[0], entry=entry, given=[list(mgiven[1]), list(mgiven[2])], ops=[])
    out.fail(fam, "create_station / TopocentricFrame raises for valid coordinates and options" + (f" (mask given as {mgiven[0]} through {entry})" if mgiven is not None else ""),
             inp, observed=repr(e), expected="a station", **({"violates_property": True} if violates else {}))


def station_options(rng, k):
    """(parent, mask_given, entry) for the k-th station of a sweep: the first ones are plain create_station(name, coords) calls"""
    if k < 3 or rng.random() < 0.4:
        return "default", None, "create_station"
    parent = rng.choice(PARENTS)
    mgiven, entry = None, "create_station"
    if rng.random() < 0.6:
        okind = rng.choice(list(MASK_OBJ_KINDS))
        az, el, _mk = gen_mask(rng)
        mgiven, entry = (okind, az, el), rng.choice(MASK_ENTRIES)
    return parent, mgiven, entry


def check_equatorial(out, rng, lat_d, lon_d, alt, a, f, date, parent):
    """create_station(..., equatorial=True): the frame is centred on the same point of the ellipsoid (at rest in the Earth-fixed frame) and has the
    axes of EME2000 — coordinates of a target there are the EME2000 difference target - station"""
    import numpy as np
    from beyond.orbits import StateVector
    try:
        st = new_station(lat_d, lon_d, alt, parent=parent, equatorial=True)
    except Exception as e:  # noqa: BLE001
        out.fail("station-equatorial-raises", "create_station(equatorial=True) raises", {"latlonalt_deg_m": [lat_d, lon_d, alt], "equatorial": True, "parent": parent},
                 observed=repr(e), expected="a station")
        return
    try:
        pframe = PARENT_NAME[parent]
        lat_d, lon_d, alt = st.c11_deg
        inp = {"latlonalt_deg_m": [lat_d, lon_d, alt], "equatorial": True, "parent": parent, "date": str(date)}
        ref0 = enu_reference(a, f, math.radians(lat_d), math.radians(lon_d), alt, [0, 0, 0], [0, 0, 0])
        origin = StateVector([0, 0, 0, 0, 0, 0], date, "cartesian", st)
        sp = np.array(origin.copy(frame=pframe))
        out.count(key=("equatorial", lat_d, lon_d, alt), kind="station-equatorial", parent=parent)
        if not (float(np.max(np.abs(np.array(sp[:3], dtype=np.longdouble) - ref0["s"]))) < 1e-6 and np.all(np.abs(sp[3:]) < 1e-9)):
            out.fail("station-equatorial-position", "an equatorial station is not at rest at the geodetic position of its coordinates", inp,
                     observed=list(map(float, sp)), expected=list(map(float, ref0["s"])) + [0, 0, 0])
        x = [rng.uniform(-1, 1) * 2e7 for _ in range(3)] + [rng.uniform(-1, 1) * 5e3 for _ in range(3)]
        sv = StateVector(x, date, "cartesian", "EME2000")
        got = np.array(sv.copy(frame=st, form="cartesian"))
        exp = np.array(x) - np.array(origin.copy(frame="EME2000"))
        if not (np.allclose(got[:3], exp[:3], rtol=0, atol=1e-6) and np.allclose(got[3:], exp[3:], rtol=0, atol=1e-9)):
            out.fail("station-equatorial-axes", "coordinates in an equatorial station frame are not the EME2000 difference target - station",
                     dict(inp, state_eme2000=x), observed=list(map(float, got)), expected=list(map(float, exp)))
    finally:
        drop_station(st)


def check_longitude_turns(out, rng, lat_d, lon_d, alt, a, f):
    """a longitude L and L + 360 k (signed vs 0..360 east convention, any whole number of turns) give the same station:
    each is compared with the reference evaluated at L"""
    import numpy as np
    ref = enu_reference(a, f, math.radians(lat_d), math.radians(lon_d), alt, [0, 0, 0], [0, 0, 0])
    axes = np.array([[float(c) for c in ref[k]] for k in ("N", "E", "U")])
    axes[1] = -axes[1]
    for turn in (1, -1, rng.choice([2, -2, 3])):
        lon2 = lon_d + 360.0 * turn
        inp = {"latlonalt_deg_m": [lat_d, lon2, alt], "coords_kind": "float-tuple", "same_as_longitude": lon_d}
        out.count(key=("lon-turn", lat_d, lon_d, turn), kind="station-longitude-turns", turn=turn, lon_range="above-180" if lon2 > 180 else ("below-minus-180" if lon2 < -180 else "signed"))
        try:
            st = new_station(lat_d, lon2, alt)
        except Exception as e:  # noqa: BLE001
            out.fail("station-longitude-turns-raises", "create_station raises for a longitude outside [-180, 180]", inp, observed=repr(e), expected="a station")
            continue
        pos = np.array([float(c) for c in st.center.offset[:3]])
        m = np.array(st.orientation._m, dtype=float)
        drop_station(st)
        dp = float(np.max(np.abs(pos - np.array([float(c) for c in ref["s"]]))))
        dm = float(np.max(np.abs(m.T - axes)))
        if not (dp <= 1e-6 + 2e-15 * abs(turn) * 7e6 * 7 and dm <= 1e-12 + 1e-14 * abs(turn)):
            out.fail("station-longitude-turns", f"the station created with longitude L{360 * turn:+d} deg is not the station of longitude L (position / north-west-up axes)",
                     inp, observed={"position": pos.tolist(), "position_error_m": dp, "axes_error": dm}, expected={"position": [float(c) for c in ref["s"]]})


def gen_name_history(rng, scenario=None):
    """a history of creations under a small pool of names: list of [name_key, lat, lon, alt]; scenario: other-coordinates (a name is
    re-created elsewhere), same-coordinates (re-created at the very same place), interleaved (two or three names, re-creations in between)"""
    scenario = scenario or rng.choice(["other-coordinates", "other-coordinates", "same-coordinates", "interleaved", "interleaved"])
    place = lambda: list(gen_station(rng)[:3])
    if scenario == "other-coordinates":
        h = [["X"] + place() for _ in range(rng.choice([2, 2, 3]))]
    elif scenario == "same-coordinates":
        p0 = place()
        h = [["X"] + p0, ["X"] + p0] + ([["X"] + place()] if rng.random() < 0.5 else [])
    else:
        names = ["X", "Y", "Z"][: rng.choice([2, 3])]
        h = [[n] + place() for n in names]
        for _ in range(rng.choice([2, 3, 4])):
            h.append([rng.choice(names)] + place())
    return scenario, h


def check_name_history(out, rng, a, f, date, history, scenario="", n_tg=3, tag=None):
    """stations created, and RE-created, under a few names (the registry supports it: "already registered. Overriding"): after every creation each
    name in use is the station of ITS LAST coordinates — place on the ellipsoid, rest, and range / azimuth / elevation / range-rate / axes / the four
    measures of targets vs the independent ENU computation there —, reached through the object returned by create_station and through the name."""
    import numpy as np
    from beyond.orbits import StateVector
    tag = tag or f"C11n{next(_counter)}"
    objs, live, count = [], {}, {}
    try:
        for k, (key, lat_d, lon_d, alt) in enumerate(history):
            hist = [list(h) for h in history[:k + 1]]
            try:
                st = new_station(lat_d, lon_d, alt, name=tag + key)
            except Exception as e:  # noqa: BLE001
                out.fail("station-recreation-raises" if key in live else "station-creation-raises", "create_station raises", {"latlonalt_deg_m": [lat_d, lon_d, alt], "history": hist},
                         observed=repr(e), expected="a station")
                return
            objs.append(st)
            live[key] = st
            count[key] = count.get(key, 0) + 1
            out.count(key=("names", tag, k), kind="station-names", scenario=scenario, recreated=count[key] > 1)
            for key2, st2 in live.items():
                la, lo, al = st2.c11_deg
                lat, lon = math.radians(la), math.radians(lo)
                role = "recreated" if count[key2] > 1 else ("beside-recreated" if any(c > 1 for c in count.values()) else "created-once")
                inp_s = {"latlonalt_deg_m": [la, lo, al], "coords_kind": "float-tuple", "name": key2, "history": hist}
                ref0 = enu_reference(a, f, lat, lon, al, [0, 0, 0], [0, 0, 0])
                n0 = len(out.failures)
                check_station_state(out, st2, inp_s, a, f, lat, lon, al, date, ref0, role, "float-tuple")
                for _ in range(n_tg):
                    r, v, tkind = gen_target(rng, [float(c) for c in ref0["s"]], [float(c) for c in ref0["U"]])
                    check_target(out, st2, inp_s, a, f, lat, lon, al, r, v, date, rng.choice([2, 3, 4]), role, tkind)
                # through the name: frames.dynamic / get_frame hand out the last creation
                r, v, tkind = gen_target(rng, [float(c) for c in ref0["s"]], [float(c) for c in ref0["U"]])
                ref = enu_reference(a, f, lat, lon, al, r, v)
                t = StateVector(r + v, date, "cartesian", "ITRF").copy(frame=tag + key2, form="spherical")
                out.count(key=("by-name", tag, k, key2), kind="topo-by-name", station=role)
                rg, hz = float(ref["range"]), max(float(ref["horiz"]), 1e-30)
                if not (abs(float(t.r) - rg) <= 1e-6 + 2e-15 * rg + 4e-9 and abs(float(t.phi) - float(ref["el"])) <= 1e-10 + 5e-8 + 4e-9 / rg
                        and (hz / rg <= 1e-7 or angdiff(-float(t.theta), ref["az"]) <= 1e-10 + 4e-9 / hz)):
                    out.fail("topo-by-name", "copy(frame=<name of the station>) differs from ENU at the last coordinates created under that name",
                             dict(inp_s, target_itrf=r + v, date=str(date)), observed=[float(t.r), -float(t.theta), float(t.phi)], expected=[rg, float(ref["az"]), float(ref["el"])])
                for fl in out.failures[n0:]:
                    if role != "created-once" and not fl["family"].startswith("station-ellipsoid-radius"):
                        fl["family"] += "-station-" + role
                        fl["what"] += f" — station '{key2}' {role.replace('-', ' ')} (history of creations under re-used names)"
                if len(out.failures) > n0:
                    return
    finally:
        for st in objs:
            drop_station(st)


def check_wgs84(out, st, inp_s, a, f, lat, lon, alt, date):
    """the ellipsoid is WGS-84 (property text): a = 6378137 m, 1/f = 298.257223563"""
    from beyond.orbits import StateVector
    refw = enu_reference(WGS84_A, 1 / WGS84_INVF, lat, lon, alt, [0, 0, 0], [0, 0, 0])
    tgt = [float(c) for c in (refw["s"] + 500e3 * refw["U"])]
    refw = enu_reference(WGS84_A, 1 / WGS84_INVF, lat, lon, alt, tgt, [0, 0, 0])
    t = StateVector(tgt + [0, 0, 0], date, "cartesian", "ITRF").copy(frame=st, form="spherical")
    out.count(key=("wgs84",) + tuple(inp_s["latlonalt_deg_m"]), kind="wgs84-constants")
    if not abs(float(t.r) - float(refw["range"])) <= 1e-6:
        fam = "station-ellipsoid-radius" if (a != WGS84_A and abs(f - 1 / WGS84_INVF) < 1e-15) else "station-ellipsoid-constants"
        out.fail(fam, "range to a point 500 km above the WGS-84 position of the station differs from 500 km: the station is placed on an ellipsoid "
                 f"with equatorial radius {a!r} m, flattening 1/{1 / f!r} instead of WGS-84 (6378137 m, 1/298.257223563)",
                 dict(inp_s, target_itrf=tgt), observed=float(t.r), expected=float(refw["range"]))


def oracle(ctx, widened):
    """a harness error must never hide a violation: when a later part of the sweep raises (a changed library may raise anywhere) the
    failing inputs found so far are reported; when none was found — other than those of the open known findings — the exception propagates
    (infrastructure error, exit 2)"""
    out = Outcome()
    try:
        return _oracle(ctx, widened, out)
    except Exception as e:  # noqa: BLE001
        known = core.load_known()
        if all(core.match_known(ID, fl, known) is not None for fl in out.failures):
            raise           # nothing new was found before the exception: an infrastructure error, not a verdict
        import traceback
        out.notes.append("oracle sweep interrupted by " + repr(e) + " at " + traceback.format_exc().strip().split("\n")[-3].strip())
        return out


def _oracle(ctx, widened, out):
    import numpy as np
    from beyond.constants import Earth
    from beyond.dates import Date, timedelta
    from beyond.orbits import StateVector
    from beyond.utils.measures import Range, Azimut, Elevation, Doppler
    _setup()
    rng = ctx.rng
    big = widened or ctx.thorough
    a, f = float(Earth.r), float(Earth.f)
    d0 = Date(2021, 3, 4, 5, 6, 7)
    n_st = 400 if big else 60
    n_tg = 40 if big else 16
    wgs_done = 0
    pool = []           # the last stations of the sweep stay alive: targets are handed over from THEIR frames to the station under test
    n_ho = 10 if big else 6
    for k in range(n_st):
        lat_d, lon_d, alt, skind = gen_station(rng, k)
        ckind = "float-tuple" if rng.random() < 0.4 else rng.choice(WIDE_KINDS)
        # every option of create_station: the Earth-fixed frame the coordinates are given in, a mask handed over at creation
        parent, mgiven, entry = station_options(rng, k)
        pframe = PARENT_NAME[parent]
        try:
            st = new_station(lat_d, lon_d, alt, kind=ckind, parent=parent, mask_given=mgiven, entry=entry)
        except Exception as e:  # noqa: BLE001
            creation_failure(out, e, {"latlonalt_deg_m": [lat_d, lon_d, alt], "coords_kind": ckind, "parent": parent}, mgiven, entry)
            continue
        lat_d, lon_d, alt = st.c11_deg
        lat, lon = math.radians(lat_d), math.radians(lon_d)
        inp_s = {"latlonalt_deg_m": [lat_d, lon_d, alt], "coords_kind": ckind}
        if parent != "default" or mgiven is not None:
            inp_s.update(parent=parent, mask_given=None if mgiven is None else [mgiven[0], list(mgiven[1]), list(mgiven[2])], entry=entry)
        ref0 = enu_reference(a, f, lat, lon, alt, [0, 0, 0], [0, 0, 0])
        date = d0 + timedelta(seconds=rng.uniform(0, 4e7))
        check_station_state(out, st, inp_s, a, f, lat, lon, alt, date, ref0, skind, ckind,
                            rng.choice(["EME2000", "MOD", "GCRF", "TEME", "G50"]) if k % 3 == 0 else None, pframe=pframe)
        # --- targets: topocentric spherical coordinates vs ENU
        for _ in range(n_tg):
            r, v, tkind = gen_target(rng, [float(c) for c in ref0["s"]], [float(c) for c in ref0["U"]])
            check_target(out, st, inp_s, a, f, lat, lon, alt, r, v, date, rng.choice([2, 3, 3, 4]), skind, tkind, pframe=pframe)
        # --- target given in an inertial frame: the direct change to the station frame agrees with going through the Earth-fixed frame first
        if k % 2 == 0:
            fr = rng.choice(["EME2000", "TEME", "GCRF", "TOD"])
            rad = 6378e3 + 10 ** rng.uniform(5.3, 7.6)
            dirv = np.array([rng.gauss(0, 1) for _ in range(3)])
            dirv /= np.linalg.norm(dirv)
            x = list(rad * dirv) + [rng.uniform(-7e3, 7e3) for _ in range(3)]
            sv = StateVector(x, date, "cartesian", fr)
            itrf = np.array(sv.copy(frame=pframe))
            ref = enu_reference(a, f, lat, lon, alt, list(itrf[:3]), list(itrf[3:]))
            t = sv.copy(frame=st, form="spherical")
            out.count(key=("via", fr, lat_d, tuple(x)), kind="topo-from-inertial", frame=fr)
            rg = float(ref["range"])
            if not (abs(float(t.r) - rg) <= 1e-6 + 1e-14 * rg + 1e-8 and abs(float(t.phi) - float(ref["el"])) <= 1e-9
                    and (float(ref["horiz"]) < 1 or angdiff(-float(t.theta), ref["az"]) <= 1e-10 + 1e-7 / float(ref["horiz"]))
                    and abs(float(t.r_dot) - float(ref["rr"])) <= 1e-7):
                out.fail("topo-from-inertial-" + fr, "station-frame coordinates of an inertial state differ from ENU applied to its Earth-fixed image",
                         dict(inp_s, frame=fr, state=x, date=str(date)), observed=[float(t.r), float(t.theta), float(t.phi), float(t.r_dot)],
                         expected=[rg, -float(ref["az"]), float(ref["el"]), float(ref["rr"])])
        # --- "ANY target": the target reaches the station in the frame of another station (one of the previous stations of the sweep, whatever
        #     its options; a second station at the very same coordinates; an equatorial station; the station itself), in any form, directly or
        #     handed on through further stations, the station addressed as an object or by its name
        sources = [(p_st, p_rec) for p_st, p_rec in pool] + [(st, dict(inp_s, same_object=True))]
        extras = []
        try:
            if k % 4 == 1:
                tw = new_station(lat_d, lon_d, alt, kind=ckind, parent=parent)
                extras.append((tw, station_record(tw, parent)))
            if k % 4 == 3:
                eq_par = rng.choice(PARENTS)
                eq = new_station(*gen_station(rng)[:3], parent=eq_par, equatorial=True)
                extras.append((eq, station_record(eq, eq_par, True)))
        except Exception as e:  # noqa: BLE001
            creation_failure(out, e, {"latlonalt_deg_m": [lat_d, lon_d, alt], "coords_kind": ckind, "parent": parent}, None, "create_station")
        n0 = len(out.failures)
        for j in range(n_ho if (pool or extras) else 1):
            r, v, tkind = gen_target(rng, [float(c) for c in ref0["s"]], [float(c) for c in ref0["U"]])
            src, src_rec = extras[0] if (extras and j < 2) else (sources[-1] if j == n_ho - 1 else rng.choice(sources[:-1] or sources))
            others = [c for c in sources[:-1] + extras if c[0] is not src]
            via = rng.sample(others, min(len(others), rng.choice([1, 1, 2]))) if (others and rng.random() < 0.3) else []
            check_given_in(out, st, inp_s, a, f, lat, lon, alt, r, v, date, rng.choice([2, 3, 3, 4]), src, src_rec, rng.choice(SOURCE_FORMS), via, skind, tkind,
                           pframe=pframe, by_name=rng.random() < 0.15)
            if len(out.failures) > n0:
                break
        for e_st, _rec in extras:
            drop_station(e_st)
        if wgs_done < 3:
            wgs_done += 1
            check_wgs84(out, st, inp_s, a, f, lat, lon, alt, date)
        # the mask handed over with the coordinates is the station's mask
        if mgiven is not None and MASK_OBJ_KINDS[mgiven[0]] in ("seq", "arr"):
            _o, (taz, tel) = mask_object(*mgiven)
            for x, akind in gen_azimuths(rng, taz, 3) + segment_azimuths(taz)[:len(taz)][-1:]:
                try:
                    with np.errstate(all="ignore"):
                        got = float(st.get_mask(x))
                except Exception as e:  # noqa: BLE001
                    got = repr(e)
                check_mask_value(out, got, taz, tel, x, "conv", akind, "given-at-" + entry.split("-")[0],
                                 {"okind": mgiven[0], "entry": entry, "parent": parent, "given": [list(mgiven[1]), list(mgiven[2])], "ops": [["Q", x, akind]]})
        pool.append((st, dict(inp_s)))
        if len(pool) > 3:
            drop_station(pool.pop(0)[0])
    for p_st, _rec in pool:
        drop_station(p_st)
    # --- the station is where its coordinates say, whatever numeric kind they are given in
    for kind in WIDE_KINDS + NARROW_INT_KINDS + OTHER_KINDS:
        for _ in range(12 if big else 3):
            lat_d, lon_d, alt, _sk = gen_station(rng)
            check_coords_kind(out, kind, lat_d, lon_d, alt, a, f)
    # --- a longitude and the same longitude plus whole turns (signed / 0..360 east conventions) are the same station
    for _ in range(60 if big else 8):
        lat_d, lon_d, alt, _sk = gen_station(rng)
        check_longitude_turns(out, rng, lat_d, rng.uniform(-180, 180), alt, a, f)
    # --- names: stations re-created under a name already in use, at other / at the same coordinates, names interleaved
    for i in range(120 if big else 10):
        scenario, history = gen_name_history(rng, ["other-coordinates", "same-coordinates", "interleaved"][i] if i < 3 else None)
        check_name_history(out, rng, a, f, d0 + timedelta(seconds=rng.uniform(0, 4e7)), history, scenario)
    # --- equatorial=True: same place, axes of EME2000
    for _ in range(40 if big else 6):
        lat_d, lon_d, alt, _sk = gen_station(rng)
        check_equatorial(out, rng, lat_d, lon_d, alt, a, f, d0 + timedelta(seconds=rng.uniform(0, 4e7)), rng.choice(PARENTS))
    # --- horizon mask assigned to station.mask
    st = new_station(10.0, 20.0, 30.0)
    n_tab = 3000 if big else 150
    for i in range(n_tab):
        az, el, mkind = gen_mask(rng)
        sg = segment_azimuths(az)
        for x, akind in gen_azimuths(rng, az, 10) + sg[:len(sg) - len(az)][-1:] + [rng.choice(sg)]:
            check_mask(out, st, az, el, x, mkind, akind)
    drop_station(st)
    # --- horizon mask handed over at the creation of the station (every kind of object x every entry point), and its life afterwards
    combos = [(ok, en) for en in MASK_ENTRIES for ok in MASK_OBJ_KINDS]
    rng.shuffle(combos)
    # a second station lives through all of it: what happens to the others is none of its business
    baz, bel, _bk = gen_mask(rng)
    by = new_station(-35.0, 149.0, 600.0, mask_given=("list", baz, bel))
    for i in range(1500 if big else 144):
        okind, entry = combos[i % len(combos)]
        az, el, mkind = gen_mask(rng)
        given = MASK_OBJ_KINDS[okind] in ("seq", "arr")
        ops = gen_mask_history(rng, az if given else [], el if given else [], rng.choice([0, 1, 2, 3]) if given else 2, strict=True, n_reads=6)
        check_mask_given(out, rng, okind, entry, az, el, ops, mkind, parent=rng.choice(PARENTS), equatorial=rng.random() < 0.12)
        x, akind = gen_azimuths(rng, baz, 1)[0]
        check_mask_value(out, real_op(rng, by, ("Q", x, akind)), baz, bel, x, "conv", akind, "given-at-create_station-other-stations-created-since",
                         {"okind": "list", "entry": "create_station", "given": [baz, bel], "ops": [["Q", x, akind]], "other_stations": i + 1})
    drop_station(by)
    out.sample({"checks": "ellipsoid membership + normal, position formula, rest in ITRF/PEF/TIRF, omega x r in TOD/CIRF, finite-difference velocity in inertial frames, "
                          "range/elevation/azimuth/range-rate/axes vs extended-precision ENU, the four measures, inertial targets, WGS-84 constants, mask vs np.interp "
                          "(table assigned / given at creation as list, tuple, rows of arrays ... through create_station or TopocentricFrame / re-assigned / written in place), "
                          "parent_frame WGS84 / ITRF / PEF / TIRF, equatorial=True, longitudes plus whole turns, stations re-created under names in use"})
    return out


# ---------------------------------------------------------------- extraction: source -> Generated/StationGeo{F,R}.lean

def _path(*parts):
    return os.path.join(core.REPO, "beyond", *parts)


def _tree(*parts):
    return ast.parse(open(_path(*parts)).read())


def _return_value(fn):
    rets = [s for s in fn.body if isinstance(s, ast.Return)]
    if len(rets) != 1 or rets[0] is not fn.body[-1]:
        raise py2lean.Untranslatable(f"{fn.name}: expected a single trailing return")
    return rets[0].value


class _Rewrite(ast.NodeTransformer):
    """`orb.copy(frame=self.frame, form="spherical").<attr>` -> Name(<attr>_s); `len(self.path)` -> Name(npath)"""

    def visit_Attribute(self, node):
        v = node.value
        if isinstance(v, ast.Call) and isinstance(v.func, ast.Attribute) and v.func.attr == "copy":
            kw = {k.arg: ast.dump(k.value) for k in v.keywords}
            want = {"frame": ast.dump(ast.parse("self.frame", mode="eval").body), "form": ast.dump(ast.Constant("spherical"))}
            if v.args or kw != want or ast.dump(v.func.value) != ast.dump(ast.Name("orb", ast.Load())):
                raise py2lean.Untranslatable("measure: unexpected copy() call " + ast.unparse(v))
            if node.attr not in ("r", "theta", "phi", "r_dot"):
                raise py2lean.Untranslatable("measure: unexpected spherical component " + node.attr)
            return ast.Name("s_" + node.attr, ast.Load())
        return self.generic_visit(node)

    def visit_Call(self, node):
        if ast.unparse(node) == "len(self.path)":
            return ast.Name("npath", ast.Load())
        return self.generic_visit(node)


MATMUL_PRELUDE = """/-- numpy's `@` on 3x3 matrices given as lists of rows -/
def matMul3 (a b : List (List R)) : List (List R) :=
  a.map (fun row => [0, 1, 2].map (fun j =>
    row.getD 0 0 * (b.getD 0 []).getD j 0 + row.getD 1 0 * (b.getD 1 []).getD j 0 + row.getD 2 0 * (b.getD 2 []).getD j 0))

"""


MASK_PRELUDE = """/-! ## the horizon mask: from the `mask=` argument to `self.mask`, and the formulas of `get_mask` -/

/-- what a caller can hand over as `mask=` to `create_station` / `TopocentricFrame`: nothing or `None`; an empty list / tuple;
a list / tuple of two rows `[[az…], [el…]]` of equal length (given here by its columns); a 2xN `numpy.ndarray` (by its columns) -/
inductive MaskArg where
  | absent
  | emptySeq
  | seq (tbl : List (R × R))
  | arr (tbl : List (R × R))

/-- what `self.mask` holds: `None`, a 2xN array (by its columns), or an array that is not 2xN (indexing `[0, :]` fails) -/
inductive MaskStore where
  | none
  | table (tbl : List (R × R))
  | junk

/-- outcome of the constructor's handling of `mask=`: an exception, or the value stored in `self.mask` -/
inductive MaskInit where
  | raises
  | stored (m : MaskStore)

inductive PyTruth where
  | isTrue
  | isFalse
  | raises

/-- Python's `bool(mask)`: `None` and empty sequences are false, a sequence of two rows is true (whatever the rows hold), a numpy array
with 0 or with 2 and more elements raises ValueError ("the truth value of an array … is ambiguous").  (Not used by the current
`TopocentricFrame.__init__`, which tests `mask is not None and len(mask)`; kept so that a return of `if mask` is translated as what it is.) -/
def maskTruth : MaskArg → PyTruth
  | .absent => .isFalse
  | .emptySeq => .isFalse
  | .seq _ => .isTrue
  | .arr _ => .raises

/-- `mask is None` -/
def maskIsNone : MaskArg → PyTruth
  | .absent => .isTrue
  | _ => .isFalse

/-- the truth value of `len(mask)` (also `len(mask) > 0`, `len(mask) != 0`): `len(None)` raises TypeError; a sequence of two rows and a 2xN array have length 2 -/
def maskLenTruth : MaskArg → PyTruth
  | .absent => .raises
  | .emptySeq => .isFalse
  | .seq _ => .isTrue
  | .arr _ => .isTrue

def pyNot : PyTruth → PyTruth
  | .isTrue => .isFalse
  | .isFalse => .isTrue
  | .raises => .raises

/-- `a and b` / `a or b` (the right operand is evaluated only when needed) -/
def pyAnd (a b : PyTruth) : PyTruth :=
  match a with
  | .isTrue => b
  | r => r

def pyOr (a b : PyTruth) : PyTruth :=
  match a with
  | .isFalse => b
  | r => r

/-- `np.asarray(mask)` / `np.array(mask)`: the same numbers as a (new, for sequences) float array; `None` and `[]` give arrays that are not 2xN -/
def npAsarray : MaskArg → MaskInit
  | .absent => .stored .junk
  | .emptySeq => .stored .junk
  | .seq tbl => .stored (.table tbl)
  | .arr tbl => .stored (.table tbl)

"""

GET_MASK_SHAPE = [
    "if self.mask is None:\n    raise ValueError(…)",
    "azim %= <period>",
    "if azim in self.mask[0, :]:\n    return self.mask[1, np.where(azim == self.mask[0, :])[0][0]]",
    "for next_i, mask_azim in enumerate(self.mask[0, :]):\n    if <stop>:\n        break\nelse:\n    next_i = 0",
    "x0, y0 = self.mask[:, next_i - 1]",
    "x1, y1 = self.mask[:, next_i]",
    "if next_i - 1 == -1:\n    x0 = <wrap>",
    "return <interp>",
]


def _no_docstring(body):
    return body[1:] if body and isinstance(body[0], ast.Expr) and isinstance(getattr(body[0], "value", None), ast.Constant) \
        and isinstance(body[0].value.value, str) else body


def _mask_test_expr(t, what):
    """Lean text (type PyTruth) of a condition on the argument `mask`"""
    u = ast.unparse(t)
    if u == "mask":
        return "maskTruth mask"
    if u == "mask is None":
        return "maskIsNone mask"
    if u == "mask is not None":
        return "pyNot (maskIsNone mask)"
    if u in ("len(mask)", "len(mask) > 0", "len(mask) != 0", "len(mask) >= 1"):
        return "maskLenTruth mask"
    if u in ("len(mask) == 0", "not len(mask)"):
        return "pyNot (maskLenTruth mask)"
    if isinstance(t, ast.UnaryOp) and isinstance(t.op, ast.Not):
        return f"pyNot ({_mask_test_expr(t.operand, what)})"
    if isinstance(t, ast.BoolOp):
        f = "pyAnd" if isinstance(t.op, ast.And) else "pyOr"
        txt = _mask_test_expr(t.values[-1], what)
        for v in reversed(t.values[:-1]):
            txt = f"{f} ({_mask_test_expr(v, what)}) ({txt})"
        return txt
    raise py2lean.Untranslatable(f"{what}: condition on the mask argument not understood: {u}")


def _mask_value_expr(e, what):
    """Lean text (type MaskInit) of the expression whose value goes to `self.mask`, in terms of the argument `mask`"""
    if isinstance(e, ast.Constant) and e.value is None:
        return "MaskInit.stored MaskStore.none"
    if isinstance(e, ast.Call) and ast.unparse(e.func) in ("np.asarray", "np.array") and len(e.args) == 1 and not e.keywords \
            and ast.unparse(e.args[0]) == "mask":
        return "npAsarray mask"
    if isinstance(e, ast.IfExp):
        return (f"(match {_mask_test_expr(e.test, what)} with\n    | .raises => MaskInit.raises\n"
                f"    | .isTrue => {_mask_value_expr(e.body, what)}\n    | .isFalse => {_mask_value_expr(e.orelse, what)})")
    raise py2lean.Untranslatable(f"{what}: the value stored in self.mask is no longer None / np.asarray(mask) chosen by the truth value of mask: "
                                 + ast.unparse(e))


def mask_path_lean(stree, ftree):
    """Lean definitions regenerated from stations.py: `initMask` (TopocentricFrame.__init__), `createStationMask` (create_station),
    `maskReduce`, `maskStops`, `maskWrapX0`, `maskInterp` (get_mask).  Raises Untranslatable when the code no longer has the shape
    the state-machine model of Station.tpl (plain attribute `mask`, read only by get_mask) and its scan loop were written for."""
    U = py2lean.Untranslatable
    tr = py2lean.Tr()
    cls = next((s for s in stree.body if isinstance(s, ast.ClassDef) and s.name == "TopocentricFrame"), None)
    fcls = next((s for s in ftree.body if isinstance(s, ast.ClassDef) and s.name == "Frame"), None)
    if cls is None or fcls is None or [ast.unparse(b) for b in cls.bases] != ["frames.Frame"]:
        raise U("TopocentricFrame is no longer a direct subclass of frames.Frame")
    # `mask` is a plain instance attribute: no descriptor, no attribute hooks, nobody but __init__ writes it, nobody but get_mask reads it
    for c in (cls, fcls):
        for s in c.body:
            names = [s.name] if isinstance(s, (ast.FunctionDef, ast.ClassDef)) else \
                [n for t in getattr(s, "targets", [getattr(s, "target", None)]) if t is not None for n in tr.target_names(t)]
            for n in names:
                if n in ("mask", "__setattr__", "__getattr__", "__getattribute__", "__slots__", "__init_subclass__", "__new__"):
                    raise U(f"class {c.name} defines `{n}`: `station.mask` is no longer a plain attribute")
        if c.decorator_list or c.keywords:
            raise U(f"class {c.name} has decorators / a metaclass")
    for c in (cls, fcls):
        for fn in [s for s in c.body if isinstance(s, ast.FunctionDef)]:
            for node in ast.walk(fn):
                if isinstance(node, ast.Attribute) and node.attr in ("mask", "__dict__") and (c.name, fn.name) not in (("TopocentricFrame", "__init__"), ("TopocentricFrame", "get_mask")):
                    raise U(f"{c.name}.{fn.name} touches self.mask")
                if isinstance(node, ast.Call) and ast.unparse(node.func) in ("setattr", "getattr", "vars", "delattr"):
                    raise U(f"{c.name}.{fn.name} uses {ast.unparse(node.func)}()")
    # --- TopocentricFrame.__init__
    init = py2lean.find_function(stree, "TopocentricFrame.__init__")
    a = init.args
    if [x.arg for x in a.args] != ["self", "name", "orientation", "center", "mask"] or [ast.unparse(d) for d in a.defaults] != ["None"] \
            or a.vararg or a.kwarg or a.kwonlyargs or a.posonlyargs or init.decorator_list:
        raise U("TopocentricFrame.__init__ signature changed")
    body = _no_docstring(init.body)
    if len(body) != 2 or not isinstance(body[0], ast.Assign) or [ast.unparse(t) for t in body[0].targets] != ["self.mask"] \
            or ast.unparse(body[1]) != "super().__init__(name, orientation, center)":
        raise U("TopocentricFrame.__init__ is no longer `self.mask = …; super().__init__(name, orientation, center)`: " + "; ".join(ast.unparse(s) for s in body))
    out = ["/-- `TopocentricFrame.__init__`: `" + ast.unparse(body[0]) + "` -/\ndef initMask (mask : MaskArg) : MaskInit :=\n  "
           + _mask_value_expr(body[0].value, "TopocentricFrame.__init__") + "\n\n"]
    finit = py2lean.find_function(ftree, "Frame.__init__")
    for node in ast.walk(finit):
        if isinstance(node, ast.Attribute) and isinstance(node.ctx, ast.Store) and node.attr not in ("name", "orientation", "center"):
            raise U("Frame.__init__ stores self." + node.attr)
    # --- create_station: `mask` goes unchanged, and only, to TopocentricFrame(name, o, c, mask=mask)
    cfn = py2lean.find_function(stree, "create_station")
    a = cfn.args
    if [x.arg for x in a.args] != ["name", "latlonalt", "parent_frame", "mask", "equatorial"] \
            or [ast.unparse(d) for d in a.defaults] != ["frames.WGS84", "None", "False"] or a.vararg or a.kwarg or a.kwonlyargs or a.posonlyargs or cfn.decorator_list:
        raise U("create_station signature changed (name, latlonalt, parent_frame=frames.WGS84, mask=None, equatorial=False)")
    uses = [n for n in ast.walk(cfn) if isinstance(n, ast.Name) and n.id == "mask"]
    cbody = _no_docstring(cfn.body)
    if len(uses) != 1 or not isinstance(cbody[-1], ast.Return) or ast.unparse(cbody[-1]) != "return TopocentricFrame(name, o, c, mask=mask)" \
            or sum(isinstance(n, ast.Return) for n in ast.walk(cfn)) != 1:
        raise U("create_station no longer hands `mask` unchanged (and only) to `return TopocentricFrame(name, o, c, mask=mask)`")
    eq = next((s for s in cbody if isinstance(s, ast.If) and ast.unparse(s.test) == "equatorial"), None)
    if eq is None or [ast.unparse(s) for s in eq.body] != ["o = orient.EME2000"] or len(eq.orelse) != 4 \
            or ast.unparse(eq.orelse[0]) != "o = orient.TopocentricOrientation(name, latlonalt, parent=parent_frame.orientation)" \
            or ast.unparse(eq.orelse[3]) != "o + parent_frame.orientation":
        raise U("create_station: the `if equatorial: o = orient.EME2000 else: o = TopocentricOrientation(…)` choice changed")
    if "c = center.Center(name, body=parent_frame.center.body)" not in [ast.unparse(s) for s in cbody]:
        raise U("create_station: the centre is no longer Center(name, body=parent_frame.center.body)")
    out.append("/-- `create_station(name, latlonalt, parent_frame, mask, equatorial)`: `mask` is used once, in `return TopocentricFrame(name, o, c, mask=mask)` -/\n"
               "def createStationMask (mask : MaskArg) : MaskInit := initMask mask\n\n")
    # --- get_mask: statement shape + the formulas
    g = py2lean.find_function(stree, "TopocentricFrame.get_mask")
    if [x.arg for x in g.args.args] != ["self", "azim"] or g.args.defaults or g.decorator_list:
        raise U("get_mask signature changed")
    gb = _no_docstring(g.body)
    holes = {}

    def shape(i, s):
        if i == 0 and isinstance(s, ast.If) and not s.orelse and len(s.body) == 1 and isinstance(s.body[0], ast.Raise) \
                and isinstance(s.body[0].exc, ast.Call) and ast.unparse(s.body[0].exc.func) == "ValueError":
            return ast.unparse(s.test) == "self.mask is None"
        if i == 1 and isinstance(s, ast.AugAssign) and isinstance(s.op, ast.Mod) and ast.unparse(s.target) == "azim":
            holes["period"] = s.value
            return True
        if i == 3 and isinstance(s, ast.For) and len(s.body) == 1 and isinstance(s.body[0], ast.If) and not s.body[0].orelse:
            holes["stop"] = s.body[0].test
            t = copy.deepcopy(s)
            t.body[0].test = ast.Name("STOP", ast.Load())
            return ast.unparse(t) == GET_MASK_SHAPE[3].replace("<stop>", "STOP")
        if i == 6 and isinstance(s, ast.If) and not s.orelse and len(s.body) == 1 and isinstance(s.body[0], ast.Assign) \
                and ast.unparse(s.test) == "next_i - 1 == -1" and [ast.unparse(t) for t in s.body[0].targets] == ["x0"]:
            holes["wrap"] = s.body[0].value
            return True
        if i == 7 and isinstance(s, ast.Return) and s.value is not None:
            holes["interp"] = s.value
            return True
        if i in (2, 4, 5):
            return ast.unparse(s) == GET_MASK_SHAPE[i]
        return False

    if len(gb) != len(GET_MASK_SHAPE) or not all(shape(i, s) for i, s in enumerate(gb)):
        bad = next((i for i, s in enumerate(gb) if i >= len(GET_MASK_SHAPE) or not shape(i, s)), len(gb))
        raise U(f"get_mask no longer has the statements the scan-loop model was written for (statement {bad}: expected `{GET_MASK_SHAPE[min(bad, len(GET_MASK_SHAPE) - 1)]}`)")
    free = {k: sorted({n.id for n in ast.walk(v) if isinstance(n, ast.Name)} - {"np"}) for k, v in holes.items()}
    if free["period"] or free["wrap"] or not set(free["stop"]) <= {"mask_azim", "azim"} or not set(free["interp"]) <= {"x0", "y0", "x1", "y1", "azim"}:
        raise U(f"get_mask: unexpected variables in its formulas: {free}")
    out.append("/-- `azim %= …` of `get_mask` -/\ndef maskReduce (azim : R) : R :=\n  "
               + tr.expr(ast.BinOp(ast.Name("azim", ast.Load()), ast.Mod(), holes["period"])) + "\n\n")
    out.append("/-- the test that ends the scan loop of `get_mask` -/\nabbrev maskStops (mask_azim azim : R) : Prop :=\n  " + tr.expr(holes["stop"]) + "\n\n")
    out.append("/-- `x0` of the wrap-around segment (`if next_i - 1 == -1: x0 = …`) -/\ndef maskWrapX0 : R :=\n  " + tr.expr(holes["wrap"]) + "\n\n")
    out.append("/-- the value `get_mask` returns between the nodes `(x0, y0)` and `(x1, y1)` -/\ndef maskInterp (x0 y0 x1 y1 azim : R) : R :=\n  "
               + tr.expr(holes["interp"]) + "\n\n")
    return "".join(out)


def build_generated():
    """text of the generated Lean body + dict of numeric self-check values"""
    tr = py2lean.Tr()
    parts = [MATMUL_PRELUDE]
    # 1. constants.py: Earth = Body(equatorial_radius=…, flattening=…), Body.eccentricity, the r/f/e aliases
    ctree = _tree("constants.py")
    earth = next((s for s in ctree.body if isinstance(s, ast.Assign) and py2lean.Tr().target_names(s.targets[0]) == ["Earth"]), None)
    if earth is None or not isinstance(earth.value, ast.Call) or tr.dotted(earth.value.func) != "Body":
        raise py2lean.Untranslatable("constants.Earth is not a Body(...) literal")
    kw = {k.arg: k.value for k in earth.value.keywords}
    getattr_fn = py2lean.find_function(ctree, "Body.__getattr__")
    adict = next((s.value for s in getattr_fn.body if isinstance(s, ast.Assign) and isinstance(s.value, ast.Dict)), None)
    alias = {k.value: v.value for k, v in zip(adict.keys, adict.values) if isinstance(k, ast.Constant) and isinstance(v, ast.Constant)} if adict else {}
    if not (alias.get("r") == "equatorial_radius" and alias.get("f") == "flattening" and alias.get("e") == "eccentricity"):
        raise py2lean.Untranslatable("Body aliases r/f/e changed")
    init = py2lean.find_function(ctree, "Body.__init__")
    stores = {ast.unparse(s) for s in init.body}
    if not {"self.equatorial_radius = equatorial_radius", "self.flattening = flattening"} <= stores:
        raise py2lean.Untranslatable("Body.__init__ does not store equatorial_radius / flattening as given")
    ecc = _return_value(py2lean.find_function(ctree, "Body.eccentricity"))
    parts.append("/-- `Earth.r` = `Earth.equatorial_radius` (constants.py) -/\ndef earthR : R := " + tr.expr(kw["equatorial_radius"]) + "\n")
    parts.append("/-- `Earth.f` = `Earth.flattening` -/\ndef earthF : R := " + tr.expr(kw["flattening"]) + "\n")
    parts.append("/-- `Earth.e` = `Body.eccentricity` -/\ndef earthE : R := " + py2lean.Tr(consts={"self.f": "earthF"}).expr(ecc) + "\n\n")
    # 2. utils/matrix.py: rot2, rot3
    mtree = _tree("utils", "matrix.py")
    for name in ("rot2", "rot3"):
        fn = py2lean.find_function(mtree, name)
        if [a.arg for a in fn.args.args] != ["theta"]:
            raise py2lean.Untranslatable(name + " signature")
        parts.append(f"/-- `{name}` of utils/matrix.py -/\ndef {name} (theta : R) : List (List R) :=\n  " + tr.expr(_return_value(fn)) + "\n\n")
    # 3. stations.py: _geodetic_to_cartesian
    spath = _path("frames", "stations.py")
    gfn = py2lean.find_function(ast.parse(open(spath).read()), "TopocentricFrame._geodetic_to_cartesian")
    if [a.arg for a in gfn.args.args] != ["cls", "lat", "lon", "alt"] or ast.unparse(_return_value(gfn)) != "np.array([x, y, z, 0, 0, 0])":
        raise py2lean.Untranslatable("_geodetic_to_cartesian signature / return value changed")
    parts.append("/-- `TopocentricFrame._geodetic_to_cartesian` (position part; the velocity part is the literal 0, 0, 0) -/\n" +
                 py2lean.translate_slice(spath, "TopocentricFrame._geodetic_to_cartesian", ["lat", "lon", "alt"], ["x", "y", "z"], "geodeticToCartesian",
                                         result_expr="[x, y, z]", consts={"Earth.r": "earthR", "Earth.e": "earthE", "Earth.f": "earthF"}) + "\n")
    # 3b. stations.py: create_station — how the coordinates given by the caller reach the two functions above
    cfn = py2lean.find_function(ast.parse(open(spath).read()), "create_station")
    csrc = [ast.unparse(x) for x in cfn.body]
    need = ["latlonalt = list(latlonalt)", "latlonalt[:2] = np.radians(latlonalt[:2])",
            "coordinates = TopocentricFrame._geodetic_to_cartesian(*latlonalt)",
            "c.add_link(parent_frame.center, parent_frame.orientation, coordinates)"]
    idx = [csrc.index(x) if x in csrc else -1 for x in need]
    if -1 in idx or idx != sorted(idx) or idx[:3] != list(range(idx[0], idx[0] + 3)):
        raise py2lean.Untranslatable("create_station: the coordinates are no longer copied into a list, converted by np.radians on [:2] "
                                     "and passed to _geodetic_to_cartesian / add_link as before: " + "; ".join(n for n, i in zip(need, idx) if i == -1))
    if not any("orient.TopocentricOrientation(name, latlonalt, parent=parent_frame.orientation)" in x for x in csrc):
        raise py2lean.Untranslatable("create_station: TopocentricOrientation is no longer built from the converted latlonalt")
    rad = cfn.body[idx[1]].value                      # np.radians(latlonalt[:2]) — elementwise on list items, each of its own type
    rad = copy.deepcopy(rad)
    rad.args = [ast.Name("deg", ast.Load())]
    parts.append("/-- the conversion `create_station` applies to latitude and longitude (a Python list, so element by element and without a\n"
                 "common dtype): `latlonalt[:2] = np.radians(latlonalt[:2])`; the altitude is passed on as given -/\n"
                 f"def stationRadians (deg : R) : R :=\n  {tr.expr(rad)}\n\n")
    # 3c. stations.py: the path of the `mask=` argument from create_station / TopocentricFrame(...) to `self.mask`, and the
    #     shape of get_mask (the hand-written scan-loop model of Station.tpl was written for exactly these statements)
    parts.append(MASK_PRELUDE)
    parts.append(mask_path_lean(ast.parse(open(spath).read()), _tree("frames", "frames.py")))
    # 4. orient.py: the topocentric matrix
    otree = _tree("frames", "orient.py")
    ofn = py2lean.find_function(otree, "TopocentricOrientation.__init__")
    src = [ast.unparse(s) for s in ofn.body]
    if "lat, lon = latlonalt[:-1]" not in src:
        raise py2lean.Untranslatable("TopocentricOrientation.__init__: lat, lon are not latlonalt[:-1]")
    massign = next((s for s in ofn.body if isinstance(s, ast.Assign) and ast.unparse(s.targets[0]) == "self._m"), None)
    if massign is None:
        raise py2lean.Untranslatable("TopocentricOrientation.__init__: no self._m")
    tp = py2lean.find_function(otree, "TopocentricOrientation._to_parent")
    if ast.unparse(_return_value(tp)) != "(self._m, None)":
        raise py2lean.Untranslatable("TopocentricOrientation._to_parent no longer returns (self._m, None)")
    mexpr = py2lean.Tr(funcs={"rot2": "rot2", "rot3": "rot3"}, matmul="matMul3").expr(massign.value)
    parts.append("/-- `TopocentricOrientation._m` = the station-to-parent rotation (`_to_parent` returns it with rate None) -/\n"
                 f"def topoM (lat lon : R) : List (List R) :=\n  {mexpr}\n\n")
    # 5. forms.py: cartesian -> spherical
    fpath = _path("orbits", "forms.py")
    sfn = py2lean.find_function(ast.parse(open(fpath).read()), "Form._cartesian_to_spherical")
    ssrc = [ast.unparse(s) for s in sfn.body]
    if not ("(x, y, z, vx, vy, vz) = coord" in ssrc or "x, y, z, vx, vy, vz = coord" in ssrc) or "r = np.linalg.norm(coord[:3])" not in ssrc \
            or ast.unparse(_return_value(sfn)) != "np.array([r, theta, phi, r_dot, theta_dot, phi_dot], dtype=float)":
        raise py2lean.Untranslatable("_cartesian_to_spherical: unpacking / norm / return value changed")
    parts.append("/-- `Form._cartesian_to_spherical`; `r` is `np.linalg.norm(coord[:3])`, passed in by the model -/\n" +
                 py2lean.translate_slice(fpath, "Form._cartesian_to_spherical", ["x", "y", "z", "vx", "vy", "vz", "r"],
                                         ["theta", "phi", "r_dot", "theta_dot", "phi_dot"], "sphericalOf",
                                         result_expr="[r, theta, phi, r_dot, theta_dot, phi_dot]") + "\n")
    # 6. utils/measures.py: value expressions of the four station measures
    metree = _tree("utils", "measures.py")
    for cls in ("Azimut", "Elevation", "Range", "Doppler"):
        fn = py2lean.find_function(metree, cls + ".from_orbit")
        call = _return_value(fn)
        if not (isinstance(call, ast.Call) and ast.unparse(call.func) == "self.__class__" and len(call.args) == 3 and not call.keywords
                and ast.unparse(call.args[0]) == "self.path" and ast.unparse(call.args[1]) == "orb.date"):
            raise py2lean.Untranslatable(f"{cls}.from_orbit: unexpected constructor call")
        val = _Rewrite().visit(copy.deepcopy(call.args[2]))
        parts.append(f"/-- value of `{cls}.from_orbit`: spherical components of `orb.copy(frame=self.frame, form=\"spherical\")`, `npath = len(self.path)` -/\n"
                     f"def meas{cls} (s_r s_theta s_phi s_r_dot npath : R) : R :=\n  {tr.expr(val)}\n\n")
    fr = py2lean.find_function(metree, "StationMeasure.frame")
    if ast.unparse(_return_value(fr)) != "self.path[0]":
        raise py2lean.Untranslatable("StationMeasure.frame is no longer path[0]")
    return "".join(parts)


def extract(ctx):
    body = build_generated()
    ch = py2lean.instantiate(core.LEAN, "StationGeo", body,
                             "beyond/constants.py, utils/matrix.py, frames/stations.py, frames/orient.py, orbits/forms.py, utils/measures.py")
    ch += instantiate.main()
    return ch


# ---------------------------------------------------------------- correspondence: compiled Lean model vs the real code

def _floats(line):
    return [b2f(s) for s in line.split()]


def _cmp(out, family, what, inp, real, model_line, tols, angles=(), skip=()):
    """real: list of floats; tols: list of absolute tolerances (already scaled); angles: indices compared modulo 2 pi"""
    if not model_line or not (model_line[0].isdigit()):
        out.fail(family, "model rejected the request: " + model_line, inp, observed=[float(v) for v in real], expected=model_line)
        return False
    model = _floats(model_line)
    if len(model) != len(real):
        out.fail(family, "model returned a different number of values", inp, observed=[float(v) for v in real], expected=model)
        return False
    for i, (a, b, tol) in enumerate(zip(real, model, tols)):
        a = float(a)
        if i in skip:
            continue
        if math.isnan(a) or math.isnan(b) or math.isinf(a) or math.isinf(b):
            ok = (math.isnan(a) and math.isnan(b)) or a == b
        elif i in angles:
            ok = angdiff(a, b) <= tol
        else:
            ok = abs(a - b) <= tol
        if not ok:
            out.fail(family, f"{what}: component {i} differs between beyond and the Lean model", inp, observed=[float(v) for v in real], expected=model)
            return False
    return True


def topo_tolerances(cart, sph, r, v, extra=0.0):
    """absolute tolerances for the 6 cartesian + 6 spherical station-frame components (beyond vs compiled model), the indices not
    compared (exactly at the zenith theta and the angular rates are 0/0), and the quantities they were built from"""
    import numpy as np
    rg = float(sph[0])
    hz = max(math.hypot(cart[0], cart[1]), 1e-300)
    sp = float(np.linalg.norm(v))
    # position noise (cancellation r - s, inverse vs transpose); r - cart has the length of the station's own position vector
    dl = 2e-8 + 4e-15 * float(np.linalg.norm(r)) + 4e-15 * max(0.0, float(np.linalg.norm(r)) + float(sph[0]) - 1.4e7) + extra
    dv = 1e-15 + 4e-15 * sp
    cosel = hz / rg
    tol_el = 1e-12 + min(4e-16 / max(cosel, 1e-300), 5e-8) + dl / rg * 2
    tols = [dl] * 3 + [dv] * 3 + [dl, 1e-12 + 2 * dl / hz, tol_el, dv + 2 * dl * sp / rg + 1e-12 * sp,
                                  (1e-12 + 4 * dl / hz) * sp / hz + 1e-18, (1e-12 + 4 * dl / hz) * sp * (1 / hz + 1 / rg) + 1e-18]
    skip = (7, 10, 11) if hz < 1e-6 else ()
    return tols, skip, dl, sp, rg, hz


def correspondence(ctx):
    import numpy as np
    from beyond.constants import Earth
    from beyond.dates import Date, timedelta
    from beyond.frames.stations import TopocentricFrame
    from beyond.orbits import StateVector
    from beyond.utils.matrix import expand
    from beyond.utils.measures import Range, Azimut, Elevation, Doppler
    _setup()
    out = Outcome()
    rng = ctx.rng
    reqs, checks = [], []   # checks[i](reply_line)

    def add(req, fn):
        reqs.append(req)
        checks.append(fn)

    # constants: the regenerated literals equal the live objects
    add("c11const", lambda rep: _cmp(out, "constants", "Earth.r / Earth.f / Earth.e", {}, [Earth.r, Earth.f, Earth.e], rep, [0.0, 1e-18, 1e-16]))
    out.count(key="c11const", nontrivial=False, kind="constants")
    date0 = Date(2022, 2, 3, 4, 5, 6)
    n_st = ctx.n(120, 2000)
    n_tg = ctx.n(14, 40)
    MEAS = [Range, Azimut, Elevation, Doppler]
    last = {}           # parent frame -> (station, its coordinates as given, its record): the previous station created under that parent stays alive
    for k in range(n_st):
        lat_d, lon_d, alt, skind = gen_station(rng, k)
        ckind = "float-tuple" if rng.random() < 0.4 else rng.choice(WIDE_KINDS)
        # every option of create_station: the Earth-fixed frame the coordinates are given in (the model works in that frame), a mask handed over at creation
        parent, mgiven, entry = station_options(rng, k)
        pframe = PARENT_NAME[parent]
        try:
            st = new_station(lat_d, lon_d, alt, kind=ckind, parent=parent, mask_given=mgiven, entry=entry)
        except Exception as e:  # noqa: BLE001
            creation_failure(out, e, {"latlonalt_deg_m": [lat_d, lon_d, alt], "coords_kind": ckind, "parent": parent}, mgiven, entry)
            continue
        lat_d, lon_d, alt_d = st.c11_deg             # exact values of what was passed to create_station
        lat, lon, alt = (float(c) for c in st.latlonalt)   # what the code made of them (radians, metres)
        inp_s = {"latlonalt_deg_m": [lat_d, lon_d, alt_d], "coords_kind": ckind}
        if parent != "default" or mgiven is not None:
            inp_s.update(parent=parent, mask_given=None if mgiven is None else [mgiven[0], list(mgiven[1]), list(mgiven[2])], entry=entry)
        degs = [f2b(lat_d), f2b(lon_d), f2b(alt_d)]
        ptol = 2e-8 + 8e-15 * max(0.0, abs(alt_d) - 1e4)        # double rounding at the length of the position vector (stations far above the ground)
        # create_station itself: position of the centre link and orientation matrix from the coordinates as given
        req = " ".join(["c11create"] + degs)
        created = [float(c) for c in st.center.offset[:3]] + [float(c) for c in np.array(st.orientation._m).flatten()] + [lat, lon, alt]
        add(req, lambda rep, real=created, i=inp_s, ptol=ptol, lon_d=lon_d: _cmp(out, "create", "create_station (centre offset, orientation matrix, stored radians)", i, real, rep,
                                                          [ptol] * 3 + [1e-14] * 9 + [1e-15, 2e-15 * max(1.0, abs(lon_d) / 360), 0.0]))
        out.count(key=req, kind="create", station=skind, coords=ckind, parent=parent, mask_given="no" if mgiven is None else mgiven[0], entry=entry if mgiven else "-")
        date = date0 + timedelta(seconds=rng.uniform(0, 3e7))
        g = TopocentricFrame._geodetic_to_cartesian(lat, lon, alt)
        spos = [float(c) for c in g[:3]]
        req = " ".join(["c11geo", f2b(lat), f2b(lon), f2b(alt)])
        add(req, lambda rep, g=g, i=inp_s, ptol=ptol: _cmp(out, "geo", "_geodetic_to_cartesian", i, list(g[:3]), rep, [ptol] * 3))
        out.count(key=req, kind="geo", station=skind)
        req = " ".join(["c11topom", f2b(lat), f2b(lon)])
        m = np.array(st.orientation._m)
        add(req, lambda rep, m=m, i=inp_s: _cmp(out, "topom", "TopocentricOrientation._m", i, list(m.flatten()), rep, [1e-14] * 9))
        out.count(key=req, kind="topom", station=skind)
        up = [float(c) for c in m[:, 2]]
        # the station origin seen from the parent frame, and a generic station-frame state
        for loc in ([0.0] * 6, [rng.uniform(-1e5, 1e5) for _ in range(3)] + [rng.uniform(-100, 100) for _ in range(3)]):
            real = np.array(StateVector(loc, date, "cartesian", st).copy(frame=pframe))
            req = " ".join(["c11back"] + degs + [f2b(c) for c in loc])
            add(req, lambda rep, real=real, i=dict(inp_s, state=loc), ptol=ptol: _cmp(out, "back", "station frame -> parent frame", i, list(real), rep, [ptol] * 3 + [1e-12] * 3))
            out.count(key=req, kind="back", nontrivial=any(loc))
        for _ in range(n_tg):
            r, v, tkind = gen_target(rng, spos, up)
            x = r + v
            sv = StateVector(x, date, "cartesian", pframe)
            cart = np.array(sv.copy(frame=st, form="cartesian"))
            sph = np.array(sv.copy(frame=st, form="spherical"))
            req = " ".join(["c11topo"] + degs + [f2b(c) for c in x])
            tols, skip, dl, sp, rg, hz = topo_tolerances(cart, sph, r, v)
            inp = dict(inp_s, target_itrf=x)
            add(req, lambda rep, real=list(cart) + list(sph), i=inp, t=tols, sk=skip: _cmp(out, "topo", "copy(frame=station)", i, real, rep, t, angles=(7,), skip=sk))
            out.count(key=req, kind="topo", zenith_singular=bool(skip), target=tkind, station=skind, theta_quadrant=int((float(sph[1]) % TWO_PI) // (math.pi / 2)), above=bool(sph[2] > 0))
            if rng.random() < 0.5:
                ki = rng.randrange(4)
                npath = rng.choice([2, 3, 4])
                path = tuple([st] + ["sat", st, "relay"][: npath - 1])
                val = float(MEAS[ki](path, date, 0.0).from_orbit(sv).value)
                req = " ".join(["c11meas", str(ki), str(npath)] + degs + [f2b(c) for c in x])
                tol = [dl * (npath - 1), tols[7] if not skip else 10.0, tols[8], tols[9]][ki]
                add(req, lambda rep, val=val, i=dict(inp, measure=MEAS[ki].__name__, path_len=npath), t=tol, ki=ki:
                    _cmp(out, "meas", "measure value", i, [val], rep, [t], angles=(0,) if ki == 1 else ()))
                out.count(key=req, kind="meas-" + MEAS[ki].__name__, path_len=npath)
        # a state given in the frame of ANOTHER station under the same parent (the previous one, whatever its options; every other time the
        # station itself or a second station at the same coordinates), changed directly to this station's frame: `stationToStation`
        srcs = []
        if pframe in last:
            srcs.append(last[pframe] + ("other-station",))
        if k % 2 == 0:
            srcs.append((st, degs, inp_s, "same-station"))
        twin = None
        if k % 6 == 1:
            twin = new_station(lat_d, lon_d, alt_d, kind=ckind, parent=parent)
            srcs.append((twin, degs, dict(inp_s), "twin-station"))
        for a_st, a_degs, a_inp, a_kind in srcs:
            for _ in range(3):
                r, v, tkind = gen_target(rng, spos, up)
                pa = [float(c) for c in StateVector(r + v, date, "cartesian", pframe).copy(frame=a_st, form="cartesian")]
                pa_sv = StateVector(pa, date, "cartesian", a_st)
                cart = np.array(pa_sv.copy(frame=st, form="cartesian"))
                sph = np.array(pa_sv.copy(frame=st, form="spherical"))
                req = " ".join(["c11hand"] + a_degs + degs + [f2b(c) for c in pa])
                tols, skip, *_ = topo_tolerances(cart, sph, r, v, extra=8e-15 * (float(np.linalg.norm(pa[:3])) + 6.4e6))
                inp = dict(inp_s, given_in=dict(a_inp), state_in_that_frame=pa)
                add(req, lambda rep, real=list(cart) + list(sph), i=inp, t=tols, sk=skip: _cmp(out, "hand", "state of another station's frame .copy(frame=station)", i, real, rep, t, angles=(7,), skip=sk))
                out.count(key=req, kind="hand-" + a_kind, zenith_singular=bool(skip), target=tkind, station=skind)
        if twin is not None:
            drop_station(twin)
        if pframe in last:
            drop_station(last[pframe][0])
        last[pframe] = (st, degs, dict(inp_s))
    for l_st, _d, _i in last.values():
        drop_station(l_st)
    # expand(m, rate) @ state
    for _ in range(ctx.n(200, 5000)):
        ang = [rng.uniform(-math.pi, math.pi) for _ in range(3)]
        from beyond.utils.matrix import rot1, rot2, rot3
        m = rot3(ang[0]) @ rot1(ang[1]) @ rot2(ang[2]) if rng.random() < 0.8 else np.array([[rng.uniform(-2, 2) for _ in range(3)] for _ in range(3)])
        u = rng.random()
        rate = None if u < 0.25 else ([0.0, 0.0, -7.292115146706979e-5] if u < 0.5 else [rng.uniform(-1e-3, 1e-3) for _ in range(3)])
        stt = [rng.uniform(-1, 1) * 4.2e7 for _ in range(3)] + [rng.uniform(-1, 1) * 8e3 for _ in range(3)]
        real = expand(m, rate) @ np.array(stt)
        req = " ".join(["c11expand"] + [f2b(c) for c in m.flatten()] + [f2b(c) for c in (rate or [0.0] * 3)] + [f2b(c) for c in stt])
        sc = float(np.abs(m).sum()) * 4.2e7
        add(req, lambda rep, real=real, i={"m": m.tolist(), "rate": rate, "state": stt}, sc=sc: _cmp(out, "expand", "expand(m, rate) @ state", i, list(real), rep, [1e-14 * sc] * 3 + [1e-14 * (sc * 1e-3 + 8e3 * 6)] * 3))
        out.count(key=req, kind="expand", rate="none" if rate is None else ("earth" if u < 0.5 else "random"))
    # get_mask
    st = new_station(-20.0, 130.0, 300.0)
    exact = [0, 0]

    def mask_check(rep, got, inp):
        if isinstance(got, str):
            if rep != got:
                out.fail("mask", "get_mask raises where the model returns a value (or conversely)", inp, observed=got, expected=rep)
            return
        if not rep[0].isdigit():
            out.fail("mask", "model rejects a table for which get_mask returns a value", inp, observed=got, expected=rep)
            return
        mv = b2f(rep)
        exact[0] += 1
        exact[1] += (mv == got) or (math.isnan(mv) and math.isnan(got))
        if not core.close(got, mv, rtol=1e-12, atol=1e-13):
            out.fail("mask", "get_mask differs from the Lean model of its scan loop", inp, observed=got, expected=mv)

    for i in range(ctx.n(500, 12000)):
        u = rng.random()
        az, el, mkind = gen_mask(rng) if u < 0.8 else gen_mask_unconventional(rng)
        if i == 0:
            az, el, mkind = [], [], "empty"
        st.mask = np.array([az, el], dtype=float)
        for x, akind in (gen_azimuths(rng, az, 8) if az else [(1.0, "random")]):
            try:
                with np.errstate(all="ignore"):
                    got = float(st.get_mask(x))
            except IndexError:
                got = "index-error"
            req = " ".join(["c11mask", str(len(az))] + [f2b(c) for pr in zip(az, el) for c in pr] + [f2b(x)])
            add(req, lambda rep, got=got, inp={"azimuths": az, "elevations": el, "azim": x}: mask_check(rep, got, inp))
            out.count(key=req, kind="mask-" + akind, table=mkind, npoints=len(az), nontrivial=akind in ("random", "wrap-segment", "hit-shifted"))
    drop_station(st)
    # station names: creations and RE-creations under a small pool of names, each followed by uses of every name — through the object returned by
    # create_station or through the name itself — vs the registry model `regRun` (a name stands for the coordinates of its last creation)
    from beyond.errors import UnknownFrameError

    def reg_check(rep, real, inp):
        reps = rep.split()
        if len(reps) != len(real):
            out.fail("names", "model returned a different number of replies: " + rep[:80], inp, observed=len(real), expected=len(reps))
            return
        for j, (mv, (rv, tols, skip, use)) in enumerate(zip(reps, real)):
            if isinstance(rv, str) or mv == "unknown":
                if rv != mv:
                    out.fail("names-unknown", "a name is known to beyond and not to the registry model (or conversely)", dict(inp, use=use), observed=rv if isinstance(rv, str) else "a frame", expected=mv)
                    return
                continue
            if not _cmp(out, "names", f"use {j} of the history (station '{use[0]}', last created at {use[1]}): copy(frame=station)", dict(inp, use=use), rv,
                        " ".join(mv.split(",")), tols, angles=(7,), skip=skip):
                return

    for i in range(ctx.n(24, 500)):
        scenario, history = gen_name_history(rng, ["other-coordinates", "same-coordinates", "interleaved"][i] if i < 3 else None)
        tag = f"C11r{next(_counter)}"
        date = date0 + timedelta(seconds=rng.uniform(0, 3e7))
        toks, real, objs, live = ["c11reg"], [], [], {}
        if rng.random() < 0.3:
            x = [rng.uniform(-1, 1) * 7e6 for _ in range(3)] + [0.0, 0.0, 0.0]
            try:
                StateVector(x, date, "cartesian", "ITRF").copy(frame=tag + "X")
                real.append(("a frame", None, None, ["X", None]))
            except UnknownFrameError:
                real.append(("unknown", None, None, ["X", None]))
            toks += ["U", "X"] + [f2b(c) for c in x]
        broken_off = False
        for key, lat_d, lon_d, alt in history:
            try:
                stn = new_station(lat_d, lon_d, alt, name=tag + key)
            except Exception as e:  # noqa: BLE001
                out.fail("names-creation-raises", "create_station raises", {"history": history, "scenario": scenario}, observed=repr(e), expected="a station")
                broken_off = True
                break
            objs.append(stn)
            live[key] = (stn, [lat_d, lon_d, alt])
            toks += ["C", key] + [f2b(c) for c in stn.c11_deg]
            for key2, (st2, co2) in live.items():
                g = TopocentricFrame._geodetic_to_cartesian(math.radians(co2[0]), math.radians(co2[1]), co2[2])
                m2 = np.array(st2.orientation._m)
                for how in ("object", "name"):
                    r, v, tkind = gen_target(rng, [float(c) for c in g[:3]], [float(c) for c in m2[:, 2]])
                    sv = StateVector(r + v, date, "cartesian", "ITRF")
                    fr = st2 if how == "object" else tag + key2
                    cart = np.array(sv.copy(frame=fr, form="cartesian"))
                    sph = np.array(sv.copy(frame=fr, form="spherical"))
                    tols, skip, *_ = topo_tolerances(cart, sph, r, v)
                    real.append((list(cart) + list(sph), tols, skip, [key2, co2, how, r + v]))
                    toks += ["U", key2] + [f2b(c) for c in r + v]
                    out.tally(f"names-use={how}:{'recreated' if sum(1 for h in history[:len(objs)] if h[0] == key2) > 1 else 'created-once'}")
        for stn in objs:
            drop_station(stn)
        if broken_off:
            continue
        req = " ".join(toks)
        add(req, lambda rep, real=real, inp={"history": history, "scenario": scenario}: reg_check(rep, real, inp))
        out.count(key=req, kind="names", scenario=scenario, creations=len(history))
    # the life of station.mask: handed over at creation (every kind of object, every entry point), assigned, cleared, written in place, read —
    # the real object against the state machine `stationMaskRun` (constructor path translated from the source)
    agree = [0, 0]

    def run_check(rep, real, inp):
        """real = "raises" | (store after construction, replies, final store)"""
        if real == "raises" or rep == "raises" or "|" not in rep:
            if rep != real:
                out.fail("mask-life-constructor", "the constructor raises where the model stores the mask (or conversely)", inp, observed=real if real == "raises" else "stored " + real[0], expected=rep)
            return
        s0, reps, s1 = (t.strip() for t in rep.split("|"))
        if real[0] != s0:
            out.fail("mask-life-stored", "what the station holds after its creation differs from the model of `mask=` handling (createStationMask)", inp, observed=real[0], expected=s0)
            return
        reps = reps.split()
        if len(reps) != len(real[1]):
            out.fail("mask-life", "model returned a different number of replies", inp, observed=real[1], expected=reps)
            return
        for j, (mv, rv) in enumerate(zip(reps, real[1])):
            agree[0] += 1
            if isinstance(rv, float) and mv[0].isdigit():
                mvf = b2f(mv)
                same = (mvf == rv) or (math.isnan(mvf) and math.isnan(rv)) or (not (math.isinf(mvf) or math.isinf(rv)) and core.close(rv, mvf, rtol=1e-12, atol=1e-13))
            else:
                same = mv == rv
            if not same:
                out.fail("mask-life-reply", f"operation {j} of the history: the station answers differently from the model (maskRun)", inp,
                         observed=rv, expected=b2f(mv) if mv[0].isdigit() else mv)
                return
            agree[1] += 1
        if real[2] != s1:
            out.fail("mask-life-final-store", "station.mask after the history differs from the model", inp, observed=real[2], expected=s1)

    prev = [None, None, None, None]
    for i in range(ctx.n(260, 6000)):
        okind, entry = gen_mask_arg(rng)
        u = rng.random()
        az, el, mkind = gen_mask(rng) if u < 0.8 else gen_mask_unconventional(rng)
        if u > 0.97:
            az, el, mkind = [], [], "empty"
        cls = MASK_OBJ_KINDS[okind]
        _o, (taz, tel) = mask_object(okind, az, el)
        ops = gen_mask_history(rng, taz if cls in ("seq", "arr") else [], tel if cls in ("seq", "arr") else [], rng.choice([0, 1, 2, 3, 5]), strict=False)
        parent = rng.choice(PARENTS)
        equat = rng.random() < 0.12
        try:
            stn = new_station(rng.uniform(-80, 80), rng.uniform(-180, 180), rng.uniform(0, 3000), mask_given=(okind, az, el), entry=entry, parent=parent, equatorial=equat)
        except Exception:  # noqa: BLE001
            real = "raises"
        else:
            s0 = real_store(stn)
            reps = [real_op(rng, stn, op) for op in ops]
            real = (s0, [r for r in reps if r is not None], real_store(stn))
            # the station of the previous history is still alive: it answers as it did (no state shared between stations)
            if prev[0] is not None:
                pst, pop, prep, pinp = prev
                again = real_op(random.Random(0), pst, pop)
                out.count(key=("other", tuple(pinp["given"][0][:2]), pop[1]), kind="mask-life-other-station", nontrivial=isinstance(prep, float))
                if not (again == prep or (isinstance(again, float) and isinstance(prep, float) and math.isnan(again) and math.isnan(prep))):
                    out.fail("mask-life-other-station", "a station answers get_mask differently after ANOTHER station was created and used (state shared between stations)",
                             dict(pinp, then_other_station={"okind": okind, "entry": entry, "given": [list(az), list(el)]}, asked_again=list(pop)), observed=again, expected=prep)
                drop_station(pst)
                prev[0] = None
            lastq = next((o for o in reversed(ops) if o[0] == "Q"), None)
            if lastq is not None:
                prev[:] = [stn, lastq, real_op(random.Random(0), stn, lastq), {"okind": okind, "entry": entry, "parent": parent, "equatorial": equat, "given": [list(az), list(el)], "ops": [list(o) for o in ops]}]
            else:
                drop_station(stn)
        tb = lambda a_, e_: [str(len(a_))] + [f2b(c) for pr in zip(a_, e_) for c in pr]
        toks = ["c11maskrun"] + {"absent": ["absent"], "eseq": ["eseq"], "seq": ["seq"] + tb(taz, tel), "arr": ["arr"] + tb(taz, tel)}[cls]
        for op in ops:
            toks += {"Q": lambda: ["Q", f2b(float(op[1]))], "A": lambda: ["A"] + tb(op[1], op[2]), "N": lambda: ["N"],
                     "P": lambda: ["P", str(op[1]), f2b(op[2]), f2b(op[3])], "L": lambda: []}[op[0]]()
        req = " ".join(toks)
        inp = {"okind": okind, "entry": entry, "parent": parent, "equatorial": equat, "given": [list(az), list(el)], "ops": [list(o) for o in ops]}
        add(req, lambda rep, real=real, inp=inp: run_check(rep, real, inp))
        out.count(key=req, kind="mask-life", okind=okind, entry=entry, table=mkind, n_ops=f"{len(ops) // 10 * 10}+", npoints=len(az),
                  nontrivial=cls in ("seq", "arr") or any(o[0] == "A" for o in ops))
        for o in ops:
            out.tally("mask-life-op=" + o[0] + (":" + o[2] if o[0] == "Q" else ""))
    if prev[0] is not None:
        drop_station(prev[0])
    replies = core.Driver(ID).run(reqs)
    for req, fn, rep in zip(reqs, checks, replies):
        fn(rep)
        if req.split()[0] in ("c11topo", "c11hand", "c11mask", "c11meas", "c11maskrun", "c11reg"):
            out.sample({"request": req[:100] + "…", "model": rep[:80]}, limit=3)
    out.notes.append(f"get_mask: {exact[1]} of {exact[0]} values bit-identical between numpy and the compiled model")
    out.notes.append(f"mask life: {agree[1]} of {agree[0]} replies of real station objects agree with the state machine")
    return out


def _options(inp):
    """the create_station options recorded with a station input"""
    mg = inp.get("mask_given")
    return {"parent": inp.get("parent", "default"), "mask_given": None if not mg else (mg[0], mg[1], mg[2]), "entry": inp.get("entry", "create_station")}


def replay(failure):
    """re-run the recorded failing input of an oracle family against the current tree"""
    from beyond.constants import Earth
    from beyond.dates import Date
    _setup()
    out = Outcome()
    fam, inp = failure["family"], failure["input"]
    a, f = float(Earth.r), float(Earth.f)
    date = Date(2021, 3, 4, 5, 6, 7)
    if fam.startswith("mask-") and isinstance(inp, dict) and "okind" in inp and "given" in inp:
        # a mask handed over at creation, then a history of operations: the recorded history is run again on a fresh station
        check_mask_given(out, random.Random(0), inp["okind"], inp["entry"], inp["given"][0], inp["given"][1], [tuple(o) for o in inp.get("ops", [])],
                         parent=inp.get("parent", "default"), equatorial=bool(inp.get("equatorial", False)))
        return out
    if isinstance(inp, dict) and "history" in inp:
        check_name_history(out, random.Random(0), a, f, date, inp["history"], "replay", n_tg=12)
        return out
    if fam.startswith("station-longitude-turns") and isinstance(inp, dict):
        lat_d, lon2, alt = inp["latlonalt_deg_m"]
        check_longitude_turns(out, random.Random(0), lat_d, inp.get("same_as_longitude", lon2), alt, a, f)
        return out
    if fam.startswith("station-equatorial") and isinstance(inp, dict):
        check_equatorial(out, random.Random(0), *inp["latlonalt_deg_m"], a, f, date, inp.get("parent", "default"))
        return out
    if fam.startswith("mask-interp") and isinstance(inp, dict) and "azimuths" in inp:
        st = new_station(10.0, 20.0, 30.0)
        check_mask(out, st, inp["azimuths"], inp["elevations"], inp["azim"], akind=inp.get("akind", "random"))
        drop_station(st)
        return out
    if fam.startswith("station-coordinates") and isinstance(inp, dict) and "coords_kind" in inp:
        check_coords_kind(out, inp["coords_kind"], *inp["latlonalt_deg_m"], a, f)
        return out
    if isinstance(inp, dict) and "latlonalt_deg_m" in inp and "target_itrf" not in inp and "state" not in inp:
        lat_d, lon_d, alt = inp["latlonalt_deg_m"]
        ckind = inp.get("coords_kind", "float-tuple")
        st = new_station(lat_d, lon_d, alt, kind=ckind, **_options(inp))
        lat_d, lon_d, alt = st.c11_deg
        lat, lon = math.radians(lat_d), math.radians(lon_d)
        ref0 = enu_reference(a, f, lat, lon, alt, [0, 0, 0], [0, 0, 0])
        check_station_state(out, st, {"latlonalt_deg_m": [lat_d, lon_d, alt], "coords_kind": ckind}, a, f, lat, lon, alt, date, ref0,
                            ckind=ckind, fd_frame=inp.get("frame") if inp.get("frame") not in (None, "TOD", "CIRF") else None,
                            pframe=PARENT_NAME[inp.get("parent", "default")])
        drop_station(st)
        out.failures = [x for x in out.failures if x["family"] == fam] or out.failures
        return out
    if isinstance(inp, dict) and "latlonalt_deg_m" in inp and "target_itrf" in inp and "given_in" in inp:
        # a target handed over from the frame of another station: both stations (and those on the way) are created again
        lat_d, lon_d, alt = inp["latlonalt_deg_m"]
        ckind = inp.get("coords_kind", "float-tuple")
        made = []

        def again(rec):
            stn = new_station(*rec["latlonalt_deg_m"], kind=rec.get("coords_kind", "float-tuple"), equatorial=bool(rec.get("equatorial", False)), **_options(rec))
            made.append(stn)
            return stn
        try:
            st = again(inp)
            lat_d, lon_d, alt = st.c11_deg
            inp_s = {k: inp[k] for k in ("latlonalt_deg_m", "coords_kind", "parent", "mask_given", "entry") if k in inp}
            src_rec = {k: v for k, v in inp["given_in"].items() if k != "form"}
            src = st if src_rec.get("same_object") else again(src_rec)
            via = [(again(rec), rec) for rec in inp.get("via", [])]
            t = [float(c) for c in inp["target_itrf"]]
            check_given_in(out, st, inp_s, a, f, math.radians(lat_d), math.radians(lon_d), alt, t[:3], t[3:], date, int(inp.get("path_len", 3)), src, src_rec,
                           inp["given_in"].get("form", "cartesian"), via, pframe=PARENT_NAME[inp.get("parent", "default")], by_name=bool(inp.get("by_name", False)))
        finally:
            for stn in made:
                drop_station(stn)
        out.failures = [x for x in out.failures if x["family"] == fam] or out.failures
        return out
    if isinstance(inp, dict) and "latlonalt_deg_m" in inp and "target_itrf" in inp:
        lat_d, lon_d, alt = inp["latlonalt_deg_m"]
        ckind = inp.get("coords_kind", "float-tuple")
        st = new_station(lat_d, lon_d, alt, kind=ckind, **_options(inp))
        lat_d, lon_d, alt = st.c11_deg
        lat, lon = math.radians(lat_d), math.radians(lon_d)
        inp_s = {"latlonalt_deg_m": [lat_d, lon_d, alt], "coords_kind": ckind}
        if fam.startswith("station-ellipsoid"):
            check_wgs84(out, st, inp_s, a, f, lat, lon, alt, date)
        else:
            t = [float(c) for c in inp["target_itrf"]]
            check_target(out, st, inp_s, a, f, lat, lon, alt, t[:3], t[3:], date, int(inp.get("path_len", 3)), pframe=PARENT_NAME[inp.get("parent", "default")])
        drop_station(st)
        out.failures = [x for x in out.failures if x["family"] == fam] or out.failures
        return out
    return oracle(core.Ctx(ID, "quick", 0), False)
