"""C09 — ephemeris interpolation is exact at nodes and accurate between them."""
import ast
import json
import math
import os
import re

from harness import core, py2lean, instantiate
from harness.core import Outcome, f2b, b2f

ID = "C09"
LEAN_TARGETS = ["BeyondVerif.Props.C09", "BeyondVerif.Props.C09Bound", "BeyondVerif.Props.C09Ephem", "BeyondVerif.Witness.C09"]
THEOREMS = [
    "BeyondVerif.C09.prevIdx_total",
    "BeyondVerif.C09.prevIdx_spec",
    "BeyondVerif.C09.prevIdx_bracket",
    "BeyondVerif.C09.window_spec",
    "BeyondVerif.C09.interp_lagrange_window",
    "BeyondVerif.C09.lagrangeCol_eq_eval_interpolate",
    "BeyondVerif.C09.interp_lagrange_reproduces_poly",
    "BeyondVerif.C09.interp_lagrange_node_exact",
    "BeyondVerif.C09.interp_linear_eq",
    "BeyondVerif.C09.interp_linear_node_exact",
    "BeyondVerif.C09.interp_linear_reproduces_pwl",
    "BeyondVerif.C09.outside_rejected",
    "BeyondVerif.C09.outside_value_error",
    "BeyondVerif.C09.too_short_rejected",
    "BeyondVerif.C09.too_short_value_error",
    "BeyondVerif.C09.result_keeps_frame_form",
    "BeyondVerif.C09.result_keeps_frame_form_after_convert",
    "BeyondVerif.C09.fresh_reachable",
    "BeyondVerif.C09.interpolate_uses_current_coordinates",
    "BeyondVerif.C09.setters_write_through",
    "BeyondVerif.C09.settings_survive_conversion",
    "BeyondVerif.C09.callRefuses_iff",
    "BeyondVerif.C09.lagrangeRefuses_iff",
    "BeyondVerif.C09.linearSlice_eq",
    "BeyondVerif.C09.linearFormula_eq",
    "BeyondVerif.C09.lagrangeFormula_eq",
    "BeyondVerif.C09.lagrangeFormula_refuses",
    "BeyondVerif.C09.prevIdx_at_node",
    "BeyondVerif.C09.prevIdx_last_node",
    "BeyondVerif.C09.interp_linear_last_node",
    "BeyondVerif.C09.rolle_iter",
    "BeyondVerif.C09.lagrange_remainder",
    "BeyondVerif.C09.nodal_prod_bound",
    "BeyondVerif.C09.lagrange_remainder_steps",
    "BeyondVerif.C09.interp_lagrange_error_bound",
    "BeyondVerif.C09.circular_bound_order8",
    "BeyondVerif.C09.smooth_orbit_within_cm_partial",
    "BeyondVerif.C09.ephem_glue_pinned",
    "BeyondVerif.C09.iter_yields_pinned",
    "BeyondVerif.C09.interpolate_result_is_new",
    "BeyondVerif.C09.getitem_is_recorded",
    "BeyondVerif.C09.mutate_new_object_noop",
    "BeyondVerif.C09.history_ignores_modified_replies",
    "BeyondVerif.C09.reply_function_of_current_values",
    "BeyondVerif.C09W.stale_scenario_now_consistent",
    "BeyondVerif.C09W.alias_mutation_not_refreshed",
]
LEVEL_TEXT = ("Lean theorems over R about a model of Interp and of Ephem around it. Translated from the Python AST on every run: the start/stop window arithmetic, "
              "the guard `len(ys) != order`, the Lagrange formula itself (the numpy chain tile/reshape/diag/repeat/~identity/mask/-, / /prod(axis=1)/@, by a dedicated "
              "extractor that refuses every other shape; `lagrangeFormula_eq` proves the translated term equal to the textbook sum_j y_j prod_{m != j} (x - x_m)/(x_j - x_m)), "
              "the slice bounds and formula of _linear, the range test of __call__, DEFAULT_ORDER, and the statements of the small Ephem / DatedInterp methods (pinned). "
              "Hand-written: the _prev_idx loop, Python slicing, the meaning of each numpy operation, the Ephem state machine. "
              "Theorems: for every strictly increasing table, every order >= 2 (even and odd), every length >= order and every abscissa of [first, last] the call returns the "
              "Lagrange interpolant on `order` consecutive rows containing the bracketing interval (both end intervals included); that value is Mathlib's Lagrange.interpolate, "
              "hence exact at nodes and on polynomials of degree < order; the classical remainder bound |p(x) - f(x)| <= max|f^(k)| H^k / (4k) for that window (steps <= H, "
              "uniform or not, ends of the table included) with the instance 'circular orbit up to GEO, order 8, step <= period/100: every coordinate within 1 mm'; linear "
              "interpolation is exact at nodes — the last one included (_prev_idx at a node is the node before) — and on piecewise-linear data; abscissae outside and tables "
              "shorter than the order give an error, never a value; Ephem as a state machine over (points with identities, method, order, interpolator's array): replies of "
              "interpolate/propagate are new objects, ephem[i] is the recorded one, the order and method last set survive every later interpolation and in-place conversion, and for every history of interpolations, propagations, index reads, frame/form changes, "
              "order/method settings and in-place modifications by the caller of objects it received, each reply is the interpolation of the current points with the current "
              "method and order, labelled with the current first point's frame and form and the requested date. Model tied to the real classes by an exact / 1e-10 "
              "differential correspondence (prev_idx, window recovered from one-hot ordinates, whole calls, Ephem operation histories incl. object identity).")
LEVEL_NOTE = ("R -> double gap covered only by the correspondence; the centimetre clause is proved for circular orbits (derivative bound omega^k r), for eccentric Keplerian "
              "motion the general bound awaits a bound of the 8th derivative — oracle there; Lean kernel + propext/Classical.choice/Quot.sound; extractors and harness trusted")
TECHNIQUE = ("Lean 4 proof (induction over the binary search, omega on the window arithmetic regenerated from the Python AST, list algebra turning the translated numpy chain into "
             "the textbook formula, Mathlib Lagrange.interpolate / eq_interpolate, iterated Rolle for the remainder, induction over operation histories) + exact differential "
             "correspondence of the executable model with Interp / Ephem, sequences on one object included")
TRUSTED = [
    "harness/py2lean.py + harness/props/C09.py:window_source / formula_source (class NpTr: the numpy idiom of _lagrange, typed, A-normal form, refuses unknown shapes) / ephem_source: "
    "translate interp.py and ephem.py into Generated/InterpWin{F,R}.lean, Generated/InterpLag{F,R}.lean, Generated/EphemSrc.lean on every run",
    "lean/templates/NpArr.tpl (hand-written meaning of np.tile, reshape, diag, repeat(axis=0), identity(dtype=bool), ~, boolean-mask selection, broadcast - and /, prod(axis), @ on lists), "
    "tied to numpy by the correspondence (whole calls run the translated formula in the driver)",
    "lean/templates/Interp.tpl (hand-written: _prev_idx loop, Python slice semantics, __init__ checks and the method dispatch — extraction refuses when the text of these functions changes — "
    "and the Ephem state machine Eph / EphH: sorted points with identities, method, order, the interpolator's own array, refreshed by the frame/form setters), tied by the correspondence run",
    "numpy double arithmetic vs R: linear values compared bit for bit, Lagrange values to 1e-10 of sum_j |l_j y_j| (BLAS summation order)",
]
ASSUMPTIONS = [
    "theorems are over R; the implementation computes in IEEE doubles (Lagrange at a node is bit-exact in doubles too — checked by the oracle; linear at a node is exact only up to rounding)",
    "abscissae strictly increasing (Interp.__init__ enforces it; Ephem sorts its points and two points with equal dates make every interpolation raise ValueError)",
    "order >= 1 in the correspondence (order 0 or negative is not modelled); the property quantifies over orders 2..12, the theorems over every order >= 2",
    "dates are compared through Date._mjd (a double, 0.6 us resolution at today's MJD): query dates closer than that to a table end are not distinguished from it",
    "history theorems quantify over callers that modify in place only objects the ephemeris created for them (replies of interpolate / propagate / iter) or the whole ephemeris through "
    "Ephem.frame / Ephem.form; `ephem[i]` and `for p in ephem` hand out the recorded points themselves (by design: the setters use it) and converting one of them in place is not seen by an "
    "interpolator that exists already (model: EphH.mutate, witness C09W.alias_mutation_not_refreshed, replayed on the real class by the `W` operations of the correspondence)",
    "remainder bound: the function interpolated is k times differentiable on R with |f^(k)| <= M on the table's range (derivative chain F 0 = f, F (i+1) = (F i)')",
]
NOT_COVERED = [
    "'within centimetres for a smooth orbit': proved for circular orbits only (smooth_orbit_within_cm_partial: order 8, step <= period/100, radius <= 43 000 km: 1 mm per coordinate, over R); "
    "for eccentric Keplerian motion (no explicit bound of the 8th time derivative formalised) and for the rounding in doubles: oracle only "
    "(Keplerian orbits e <= 0.05, step = period/100..200, orders 7..10, uniform, jittered and two-rate (ratio 2, 3): <= 5 cm at every position incl. first/last interval)",
    "rounding on strongly non-uniform tables (step ratios 10..100, gaps): the theorems over R hold for every increasing table, but in doubles a window mixing very different steps has a "
    "Lebesgue constant of 10^3..10^7 that multiplies the rounding of the ordinates and the 0.6 us granularity of Date._mjd (metres on an orbit). The rounding-tolerance clauses "
    "(polynomial reproduction to 1e-7, centimetres on an orbit) are therefore asked of uniform / jittered / two-rate tables only ('mildly non-uniform' in the property); the exact clauses "
    "(nodes, bracketing index, window, piecewise-linear data, refusals, labels, history = fresh object) of every sampling style",
]
OPEN = [
    "the _prev_idx while-loop, Python slicing and Interp.__init__ are hand-modelled (tied by exact correspondence; extraction refuses when their source text changes) — not translated",
    "a bound of the derivatives of eccentric Keplerian motion, to instantiate interp_lagrange_error_bound beyond circular orbits",
]
RULE = ("correspondence: random tables (length 1..40, order none/1..12; sampling uniform / jittered / two-rate (ratio 2, 3) / multirate (2..4 successive ranges, step ratios up to 100) / "
        "with gaps of 3..25 steps / geometric steps; plain, integer and MJD abscissae; 1-D and 2-D ordinates, non-increasing and length-mismatched variants), "
        "abscissae at nodes, inside every kind of interval (first, last, interior, one ulp from a node), one ulp outside, far outside, NaN: Interp._prev_idx exact; "
        "window recovered from the real code by interpolating one-hot ordinates, exact; whole calls (error kind exact, linear bit-exact, Lagrange rtol 1e-10 — the driver runs the translated numpy chain); "
        "Ephem objects (shuffled construction, default method/order, heterogeneous labels, every sampling style) under random operation histories of length 2..9 on ONE object "
        "(scenarios: plain / setters / conversions / `mixed` = settings and in-place conversions interleaved / objects): interpolate / propagate / iter(dates=) / "
        "iter(start, stop, step) / ephem[i] (negative and out-of-range indices) / in-place modification (values, form, frame) of an object received earlier — new or recorded — / order and method setters / "
        "frame and form setters, query dates expressed in UTC, TAI, TT, GPS: reply kind, identity (new object vs recorded point), form, frame, date exact, coordinates 1e-10; "
        "non-trivial = the call returns a value; distinct = distinct request line. "
        "oracle: node exactness, piecewise-linear reproduction, refusal outside / too short, labels on tables of every sampling style; polynomial reproduction (1e-7) on the mild ones "
        "(uniform, jittered, two-rate); stale-cache scenario; random histories of interpolations, `ephem.interp` reads, order / method settings and in-place frame / form conversions on one "
        "ephemeris: getters read back the last setting and every interpolation equals bit for bit that of a new Ephem of the current points with the current method / order (`history-vs-fresh/*`); "
        "query dates in other time scales (TAI/TT/GPS/UTC exact, UT1/TDB to 2 us) with real EOP tables, order/method setters on live ephemerides and interpolators vs fresh ones, "
        "every API that computes a point (interpolate, propagate, iter(dates), iter(step), iter(), ephem()) hands out a new object and modifying it in place changes neither the table nor later answers, "
        "cm accuracy on Keplerian orbits (uniform, jittered +-20 %, two-rate: 5 cm, for two-rate plus the 0.6 us granularity of a double MJD times the Lebesgue constant of the window), "
        "all on the real API")

INTERP_PY = os.path.join(core.REPO, "beyond", "utils", "interp.py")
EPHEM_PY = os.path.join(core.REPO, "beyond", "orbits", "ephem.py")

MU = 3.986004418e14


class _Win(ast.NodeTransformer):
    """`self.order` -> order, `len(self.ys)` -> n : the only non-arithmetic atoms of the window computation"""

    def visit_Attribute(self, n):
        if isinstance(n.value, ast.Name) and n.value.id == "self" and n.attr == "order":
            return ast.copy_location(ast.Name("order", ast.Load()), n)
        return self.generic_visit(n)

    def visit_Call(self, n):
        if isinstance(n.func, ast.Name) and n.func.id == "len" and ast.unparse(n.args[0]) == "self.ys":
            return ast.copy_location(ast.Name("n", ast.Load()), n)
        return self.generic_visit(n)


def window_source():
    """The statements of Interp._lagrange between `prev_idx = …` and the slicing `xs = self.xs[start:stop]`,
    translated to Lean over Int (Python // and % are Int.fdiv and Int.fmod)."""
    tree = ast.parse(open(INTERP_PY).read())
    fn = py2lean.find_function(tree, "Interp._lagrange")
    stmts = []
    seen_prev = False
    slice_txt = None
    for s in fn.body:
        if isinstance(s, ast.Expr) and isinstance(s.value, ast.Constant):
            continue
        txt = ast.unparse(s)
        if not seen_prev:
            if txt != "prev_idx = self._prev_idx(x)":
                raise py2lean.Untranslatable("_lagrange does not start with prev_idx = self._prev_idx(x): " + txt)
            seen_prev = True
            continue
        if isinstance(s, ast.Assign) and ast.unparse(s.targets[0]) == "xs":
            slice_txt = txt
            break
        stmts.append(_Win().visit(s))
    if slice_txt != "xs = self.xs[start:stop]":
        raise py2lean.Untranslatable(f"window is no longer used as xs = self.xs[start:stop]: {slice_txt}")
    body = py2lean.Tr().block(stmts, "(start, stop)", None)
    body = re.sub(r"\bR\b", "Int", body).replace("(fdiv ", "(Int.fdiv ").replace("(fmod ", "(Int.fmod ")
    return "/-- `start, stop` of Interp._lagrange as computed before slicing (translated from the source) -/\ndef windowRaw (prev_idx order n : Int) : Int × Int :=\n" + py2lean.indent(body) + "\n"


def default_order_source():
    tree = ast.parse(open(EPHEM_PY).read())
    cls = py2lean.find_function(tree, "Ephem")
    for s in cls.body:
        if isinstance(s, ast.Assign) and ast.unparse(s.targets[0]) == "DEFAULT_ORDER" and isinstance(s.value, ast.Constant) and isinstance(s.value.value, int):
            return f"/-- `Ephem.DEFAULT_ORDER` -/\ndef ephemDefaultOrder : Int := {s.value.value}\n"
    raise py2lean.Untranslatable("Ephem.DEFAULT_ORDER not found")


def body_of(fn):
    """statements of a function without its docstring"""
    return [s for s in fn.body if not (isinstance(s, ast.Expr) and isinstance(s.value, ast.Constant))]


class NpTr:
    """Dedicated translator for the numpy idiom of `Interp._lagrange` (tile / reshape / diag / repeat / identity / boolean mask /
    broadcast - and / / prod / @): straight-line assignments ending in a `return`, every sub-expression typed
    (S scalar, I integer, V 1-D array, M 2-D array, B 2-D boolean mask) and bound by one `let … ←` of an operation of
    lean/templates/NpArr.tpl (A-normal form in the Option monad, `none` = numpy refuses the shapes).
    Refuses (Untranslatable) every expression, keyword or type combination that is not listed here."""

    def __init__(self, env):
        self.env = dict(env)        # python name -> (lean atom, type)
        self.lines = []
        self.k = 0

    def bind(self, text, typ, name=None):
        if name is None:
            self.k += 1
            name = f"t{self.k}"
        self.lines.append(f"let {name} ← {text}")
        return name, typ

    def int_expr(self, e):
        if isinstance(e, ast.Attribute) and ast.unparse(e) == "self.order":
            return "order"
        if isinstance(e, ast.Constant) and isinstance(e.value, int) and not isinstance(e.value, bool):
            return f"({e.value} : Int)"
        if isinstance(e, ast.BinOp) and isinstance(e.op, (ast.Add, ast.Sub, ast.Mult)):
            op = {ast.Add: "+", ast.Sub: "-", ast.Mult: "*"}[type(e.op)]
            return f"({self.int_expr(e.left)} {op} {self.int_expr(e.right)})"
        raise py2lean.Untranslatable("not an integer expression of the Lagrange formula: " + ast.unparse(e))

    def kw(self, call, allowed):
        got = {k.arg: ast.unparse(k.value) for k in call.keywords}
        if got != allowed:
            raise py2lean.Untranslatable(f"keywords of {ast.unparse(call)}: {got}, known shape has {allowed}")

    def expr(self, e):
        if isinstance(e, ast.Name):
            if e.id not in self.env:
                raise py2lean.Untranslatable("unknown name in the Lagrange formula: " + e.id)
            return self.env[e.id]
        if isinstance(e, ast.Call):
            f = e.func
            d = ast.unparse(f)
            if d == "np.tile" and len(e.args) == 2:
                self.kw(e, {})
                a, t = self.expr(e.args[0])
                if t == "V":
                    return self.bind(f"npTile {a} {self.int_expr(e.args[1])}", "V")
            elif d == "np.diag" and len(e.args) == 1:
                self.kw(e, {})
                a, t = self.expr(e.args[0])
                if t == "M":
                    return self.bind(f"npDiag {a}", "V")
            elif d == "np.repeat" and len(e.args) == 2:
                self.kw(e, {"axis": "0"})
                a, t = self.expr(e.args[0])
                if t == "V":
                    return self.bind(f"npRepeat0 {a} {self.int_expr(e.args[1])}", "V")
            elif d == "np.identity" and len(e.args) == 1:
                self.kw(e, {"dtype": "bool"})
                return self.bind(f"npIdentityBool {self.int_expr(e.args[0])}", "B")
            elif isinstance(f, ast.Attribute) and f.attr == "reshape" and len(e.args) == 2:
                self.kw(e, {})
                a, t = self.expr(f.value)
                if t == "V":
                    return self.bind(f"npReshape2 {a} {self.int_expr(e.args[0])} {self.int_expr(e.args[1])}", "M")
            elif isinstance(f, ast.Attribute) and f.attr == "prod" and len(e.args) == 0:
                got = {k.arg: ast.unparse(k.value) for k in e.keywords}
                a, t = self.expr(f.value)
                if t == "M" and got in ({"axis": "1"}, {"axis": "0"}):
                    return self.bind(f"npProdAxis{got['axis']} {a}", "V")
            raise py2lean.Untranslatable("call not in the known shape of the Lagrange formula: " + ast.unparse(e))
        if isinstance(e, ast.UnaryOp) and isinstance(e.op, ast.Invert):
            a, t = self.expr(e.operand)
            if t == "B":
                return self.bind(f"npNotB {a}", "B")
        if isinstance(e, ast.Subscript):
            a, t = self.expr(e.value)
            m, tm = self.expr(e.slice)
            if (t, tm) == ("M", "B"):
                return self.bind(f"npMask2 {a} {m}", "V")
        if isinstance(e, ast.BinOp):
            a, ta = self.expr(e.left)
            b, tb = self.expr(e.right)
            table = {(ast.Sub, "S", "V"): "npSubSV", (ast.Sub, "V", "S"): "npSubVS", (ast.Sub, "V", "V"): "npSubVV",
                     (ast.Div, "V", "V"): "npDivVV", (ast.Mult, "V", "V"): "npMulVV", (ast.MatMult, "V", "M"): "npVecMat"}
            op = table.get((type(e.op), ta, tb))
            if op is not None:
                return self.bind(f"{op} {a} {b}", "V")
        raise py2lean.Untranslatable("expression not in the known shape of the Lagrange formula: " + ast.unparse(e))

    def run(self, stmts):
        for s in stmts[:-1]:
            if not (isinstance(s, ast.Assign) and len(s.targets) == 1 and isinstance(s.targets[0], ast.Name)):
                raise py2lean.Untranslatable("statement not in the known shape of the Lagrange formula: " + ast.unparse(s))
            a, t = self.expr(s.value)
            name = py2lean.lname(s.targets[0].id)
            self.lines.append(f"let {name} := {a}")
            self.env[s.targets[0].id] = (name, t)
        last = stmts[-1]
        if not (isinstance(last, ast.Return) and last.value is not None):
            raise py2lean.Untranslatable("the Lagrange formula does not end with a return")
        a, t = self.expr(last.value)
        if t != "V":
            raise py2lean.Untranslatable("the Lagrange formula does not return a 1-D array")
        return "\n".join(self.lines + [f"pure {a}"])


def formula_source():
    """`Interp._lagrange` after the slicing: the guard `len(ys) != self.order` and the numpy formula, translated;
    `Interp._linear`: slice bounds and formula; `Interp.__call__`: the range test and the dispatch (pinned)."""
    tree = ast.parse(open(INTERP_PY).read())
    fn = py2lean.find_function(tree, "Interp._lagrange")
    stmts = body_of(fn)
    i = next((k for k, s in enumerate(stmts) if ast.unparse(s) == "xs = self.xs[start:stop]"), None)
    if i is None or ast.unparse(stmts[i + 1]) != "ys = self.ys[start:stop]":
        raise py2lean.Untranslatable("_lagrange: the window is no longer taken as xs = self.xs[start:stop]; ys = self.ys[start:stop]")
    g = stmts[i + 2]
    if not (isinstance(g, ast.If) and not g.orelse and len(g.body) == 1 and isinstance(g.body[0], ast.Raise)
            and ast.unparse(g.body[0].exc.func) == "ValueError"):
        raise py2lean.Untranslatable("_lagrange: no `if <test>: raise ValueError` after the slicing: " + ast.unparse(g)[:80])
    test = py2lean.Tr(consts={"self.order": "order"}).expr(_Len().visit(g.test))
    test = re.sub(r"\bR\b", "Int", test)
    out = ("/-- the test of `if len(ys) != self.order: raise ValueError` in Interp._lagrange (translated from the source) -/\n"
           f"def lagrangeRefuses (nys order : Int) : Bool := decide {test}\n\n")
    tr = NpTr({"xs": ("xs", "V"), "ys": ("ys", "M"), "x": ("x", "S")})
    body = tr.run(stmts[i + 3:])
    out += ("/-- the Lagrange formula of Interp._lagrange on the selected window (translated from the source, statement by statement;\n"
            "every `let … ←` is one numpy operation of Model/NpArr) -/\n"
            "def lagrangeFormula (order : Int) (xs : List R) (ys : List (List R)) (x : R) : Option (List R) := do\n"
            + py2lean.indent(body) + "\n\n")
    # _linear
    fl = body_of(py2lean.find_function(tree, "Interp._linear"))
    txt = [ast.unparse(s) for s in fl]
    if len(fl) != 4 or txt[0] != "prev_idx = self._prev_idx(x)" or not isinstance(fl[3], ast.Return):
        raise py2lean.Untranslatable("_linear: unknown shape: " + " ; ".join(txt)[:200])
    bounds = []
    for s, (a, b), arr in ((fl[1], ("x0", "x1"), "self.xs"), (fl[2], ("y0", "y1"), "self.ys")):
        ok = (isinstance(s, ast.Assign) and ast.unparse(s.targets[0]) == f"({a}, {b})" and isinstance(s.value, ast.Subscript)
              and ast.unparse(s.value.value) == arr and isinstance(s.value.slice, ast.Slice) and s.value.slice.step is None
              and s.value.slice.lower is not None and s.value.slice.upper is not None)
        if not ok:
            raise py2lean.Untranslatable("_linear: unknown shape of " + ast.unparse(s))
        itr = py2lean.Tr()
        bounds.append("(" + re.sub(r"\bR\b", "Int", itr.expr(s.value.slice.lower)) + ", " + re.sub(r"\bR\b", "Int", itr.expr(s.value.slice.upper)) + ")")
    if bounds[0] != bounds[1]:
        raise py2lean.Untranslatable("_linear: abscissae and ordinates are sliced differently")
    out += ("/-- bounds of the two-point slices `self.xs[…:…]`, `self.ys[…:…]` of Interp._linear (translated) -/\n"
            f"def linearSlice (prev_idx : Int) : Int × Int := {bounds[0]}\n\n")
    out += ("/-- the value returned by Interp._linear, per component (translated) -/\n"
            f"def linearFormula (x x0 x1 y0 y1 : R) : R :=\n  {py2lean.Tr().expr(fl[3].value)}\n\n")
    # __call__
    fc = body_of(py2lean.find_function(tree, "Interp.__call__"))
    if len(fc) != 3 or not (isinstance(fc[0], ast.If) and not fc[0].orelse and len(fc[0].body) == 1 and isinstance(fc[0].body[0], ast.Raise)
                            and ast.unparse(fc[0].body[0].exc.func) == "ValueError"):
        raise py2lean.Untranslatable("__call__: does not start with `if <range test>: raise ValueError` followed by the dispatch: "
                                     + " ; ".join(ast.unparse(s)[:60] for s in fc))
    rng_test = py2lean.Tr(consts={"self.xs[0]": "x0", "self.xs[-1]": "xl"}).expr(fc[0].test)
    dispatch = " ; ".join(" ".join(ast.unparse(s).split()) for s in fc[1:])
    if dispatch != CALL_DISPATCH:
        raise py2lean.Untranslatable("__call__: the dispatch on the method is no longer the one the model describes: " + dispatch[:200])
    out += ("/-- the range test of Interp.__call__ (`x0 = self.xs[0]`, `xl = self.xs[-1]`), translated; a `true` raises ValueError -/\n"
            f"def callRefuses (x0 xl x : R) : Bool := decide {rng_test}\n")
    # hand-modelled parts of interp.py: the model is claimed for exactly these texts
    for qn, want in PINNED.items():
        got = " ; ".join(" ".join(ast.unparse(s).split()) for s in body_of(py2lean.find_function(tree, qn)))
        if got != want:
            raise py2lean.Untranslatable(f"{qn} is no longer the text the hand-written model (lean/templates/Interp.tpl) describes: {got[:300]}")
    return out


class _Len(ast.NodeTransformer):
    """`len(ys)` -> nys"""

    def visit_Call(self, n):
        if isinstance(n.func, ast.Name) and n.func.id == "len" and ast.unparse(n.args[0]) == "ys":
            return ast.copy_location(ast.Name("nys", ast.Load()), n)
        return self.generic_visit(n)


CALL_DISPATCH = ("if self.method == self.LINEAR: func = self._linear elif self.method == self.LAGRANGE: func = self._lagrange "
                 "else: raise ValueError('Unknown interpolation method', self.method) ; return func(x)")

# functions whose model is hand-written (loops, constructors): extraction refuses when their text changes
PINNED = {
    "Interp._prev_idx": "prev_idx = 0 ; xs = self.xs ; while True: l = len(xs) if l == 1: break k = l // 2 if x > xs[k]: prev_idx += k xs = xs[k:] else: xs = xs[:k] ; return prev_idx",
    "Interp.__init__": ("method = method.lower() ; if method == self.LAGRANGE and order is None: raise TypeError('An order shall be defined for a Lagrange interpolation') ; "
                        "self.order = order ; if not all((x0 < x1 for x0, x1 in zip(xs, xs[1:]))): raise ValueError('xs is not monotonically increasing') ; "
                        "self.xs = np.asarray(xs) ; self.ys = np.asarray(ys) ; self.method = method"),
    "DatedInterp.__init__": "self.dates = dates ; xs = np.asarray([x._mjd for x in dates]) ; super().__init__(xs, ys, method, order)",
}


def ephem_source():
    """The glue of Ephem around the interpolator, read from the AST into string tables (Generated/EphemSrc.lean) that
    theorems of Props/C09.lean pin with `decide`: what `interpolate` returns, that `propagate` is `interpolate`, which
    instant DatedInterp evaluates at, what the frame/form setters do and in which order, what `iter` yields."""
    tree = ast.parse(open(EPHEM_PY).read())
    itree = ast.parse(open(INTERP_PY).read())

    def flat(qn, t=tree, deco=None):
        cls, name = qn.split(".")
        c = py2lean.find_function(t, cls)
        for s in c.body:
            if isinstance(s, ast.FunctionDef) and s.name == name:
                d = [ast.unparse(x) for x in s.decorator_list]
                if (deco is None and not any(x.endswith(".setter") for x in d)) or (deco is not None and deco in d):
                    return [" ".join(ast.unparse(x).split()) for x in body_of(s)]
        raise py2lean.Untranslatable(f"{qn} ({deco}) not found")

    facts = {
        "interpolateBody": flat("Ephem.interpolate"),
        "propagateBody": flat("Ephem.propagate"),
        "interpProperty": flat("Ephem.interp", deco="property"),
        "frameSetter": flat("Ephem.frame", deco="frame.setter"),
        "formSetter": flat("Ephem.form", deco="form.setter"),
        "refreshInterp": flat("Ephem._refresh_interp"),
        "orderSetter": flat("Ephem.order", deco="order.setter"),
        "methodSetter": flat("Ephem.method", deco="method.setter"),
        "orderGetter": flat("Ephem.order", deco="property"),
        "methodGetter": flat("Ephem.method", deco="property"),
        "frameGetter": flat("Ephem.frame", deco="property"),
        "formGetter": flat("Ephem.form", deco="property"),
        "initBody": flat("Ephem.__init__"),
        "getitemBody": flat("Ephem.__getitem__"),
        "nextBody": flat("Ephem.__next__"),
    }
    # DatedInterp.__call__: the abscissa handed to Interp.__call__
    call = py2lean.find_function(itree, "DatedInterp.__call__")
    sup = [n for n in ast.walk(call) if isinstance(n, ast.Call) and ast.unparse(n.func) == "super().__call__"]
    if len(sup) != 1 or len(sup[0].args) != 1:
        raise py2lean.Untranslatable("DatedInterp.__call__: not exactly one super().__call__(…)")
    facts["datedAbscissa"] = [ast.unparse(sup[0].args[0])]
    # every `yield` of iter / _iter_backward: where the yielded object comes from
    ys = []
    for qn in ("Ephem.iter", "Ephem._iter_backward"):
        fn = py2lean.find_function(tree, qn)

        def walk(stmts, defs):
            defs = dict(defs)
            for s in stmts:
                if isinstance(s, ast.Assign) and len(s.targets) == 1 and isinstance(s.targets[0], ast.Name):
                    defs[s.targets[0].id] = ast.unparse(s.value)
                if isinstance(s, ast.For):
                    d2 = dict(defs)
                    if isinstance(s.target, ast.Name):
                        d2[s.target.id] = "in " + ast.unparse(s.iter)
                    walk(s.body, d2)
                    continue
                if isinstance(s, ast.While):
                    # assignments of the loop body are visible at every yield of the body
                    d2 = dict(defs)
                    for x in s.body:
                        if isinstance(x, ast.Assign) and len(x.targets) == 1 and isinstance(x.targets[0], ast.Name):
                            d2[x.targets[0].id] = ast.unparse(x.value)
                    walk(s.body, d2)
                    continue
                if isinstance(s, ast.If):
                    walk(s.body, defs)
                    walk(s.orelse, defs)
                    continue
                if isinstance(s, ast.Expr) and isinstance(s.value, ast.Yield):
                    v = s.value.value
                    if isinstance(v, ast.Name):
                        ys.append(f"{qn.split('.')[1]}: {v.id} = {defs.get(v.id, '?')}")
                    else:
                        ys.append(f"{qn.split('.')[1]}: {ast.unparse(v)}")
                elif isinstance(s, ast.Expr) and isinstance(s.value, ast.YieldFrom):
                    ys.append(f"{qn.split('.')[1]}: from {ast.unparse(s.value.value.func)}")
                elif any(isinstance(n, (ast.Yield, ast.YieldFrom)) for n in ast.walk(s)):
                    raise py2lean.Untranslatable(f"{qn}: a yield in a statement shape that is not known: {ast.unparse(s)[:80]}")
        walk(body_of(fn), {})
    facts["iterYields"] = ys

    def lit(v):
        return "[" + ", ".join(json.dumps(x, ensure_ascii=False) for x in v) + "]"
    out = ("/- GENERATED by harness/props/C09.py from beyond/orbits/ephem.py and beyond/utils/interp.py — do not edit.\n"
           "The statements (whitespace-normalised) of the small methods of Ephem around the interpolator; pinned by\n"
           "`decide`d theorems in Props/C09.lean, so that a change of any of them is noticed by the build. -/\n"
           "namespace BeyondVerif.EphemSrc\n\n")
    for k, v in facts.items():
        out += f"def {k} : List String := {lit(v)}\n\n"
    out += "end BeyondVerif.EphemSrc\n"
    return out


def extract(ctx):
    """every generated file is rewritten independently of the others (a part of the source the translators refuse must not
    leave the other files stale); the first refusal is raised at the end"""
    ch, errors = [], []

    def part(fn):
        try:
            ch.extend(fn() or [])
        except Exception as e:  # noqa
            errors.append(e)
    part(lambda: py2lean.instantiate(core.LEAN, "InterpWin", window_source() + "\n" + default_order_source(),
                                     "beyond/utils/interp.py (Interp._lagrange window) and beyond/orbits/ephem.py (DEFAULT_ORDER)"))
    part(lambda: py2lean.instantiate(core.LEAN, "InterpLag", formula_source(),
                                     "beyond/utils/interp.py (Interp._lagrange guard and formula, Interp._linear, Interp.__call__ range test)", imports=("Model.NpArr",)))
    part(lambda: ["Generated/EphemSrc.lean"] if core.write_if_changed(os.path.join(core.LEAN, "BeyondVerif", "Generated", "EphemSrc.lean"), ephem_source()) else [])
    ch += instantiate.main()
    if errors:
        ctx.say(f"[{ID}] extract: regenerated {ch}; refused: {[repr(e)[:200] for e in errors]}")
        raise errors[0]
    return ch


# ---------------------------------------------------------------- real code adapters

def base_date():
    from beyond.dates import Date
    return Date(2020, 1, 1)


def q(x, step=1e-3):
    """quantise a time to a multiple of 1 ms so that timedelta (µs) represents it exactly"""
    return round(x / step) * step


def mk_ephem(times, coords, method=None, order=None, form="cartesian", frame="EME2000", shuffle=None):
    """Ephem of StateVectors at base+times[i] seconds with the raw coordinates coords[i]"""
    from beyond.orbits import Ephem
    from beyond.orbits.statevector import StateVector
    from beyond.dates import timedelta
    d0 = base_date()
    forms = form if isinstance(form, list) else [form] * len(times)
    frames = frame if isinstance(frame, list) else [frame] * len(times)
    pts = [StateVector(list(c), d0 + timedelta(seconds=t), fo, fr) for t, c, fo, fr in zip(times, coords, forms, frames)]
    if shuffle is not None:
        shuffle.shuffle(pts)
    return Ephem(pts, method=method, order=order)


STYLES = ["uniform", "uniform", "jitter", "jitter", "two-rate", "multirate", "multirate", "gap", "geometric"]
# `mildly non-uniform` in the sense of the property: the clauses whose tolerance is a rounding allowance (polynomial reproduction, centimetres on an
# orbit) are asked of these only — a window mixing steps in a ratio 10..100 has a Lebesgue constant of 10^3..10^7, which multiplies the rounding of the
# ordinates and the 0.6 us granularity of a double MJD. Exact clauses (nodes, bracketing, piecewise-linear, refusals, labels, history = fresh) are asked of all.
MILD = ("uniform", "jitter", "two-rate")


def gen_steps(rng, n, step, style):
    """n-1 positive steps of a table of n abscissae. The abscissae of Interp only have to be increasing:
    uniform / mildly jittered (±30 %) / multirate (2..4 successive ranges, each with its own constant step, ratios up to 10 —
    the example of the Ephem.iter docstring, a multi-rate OEM) / gap (uniform with one or two missing stretches of 3..25 steps) /
    geometric (every step a fixed ratio of the one before)"""
    m = max(n - 1, 0)
    if style == "uniform":
        return [step] * m
    if style == "jitter":
        return [step * rng.uniform(0.7, 1.3) for _ in range(m)]
    if style == "two-rate":      # two successive ranges, steps in a ratio 2 or 3 (the example of the Ephem.iter docstring: 3)
        cut, ratio = rng.randrange(m + 1), rng.choice([2.0, 3.0])
        big_first = rng.random() < 0.5
        return [step if (i < cut) == big_first else step / ratio for i in range(m)]
    if style == "multirate":
        nseg = rng.randint(2, 4)
        cuts = sorted(rng.randrange(m + 1) for _ in range(nseg - 1))
        rates = [rng.choice([1.0, 2.0, 3.0, 4.0, 6.0, 10.0, 0.5, 0.25, 0.2, 0.1]) for _ in range(nseg)]
        if len(set(rates)) == 1:
            rates[-1] = rates[0] * rng.choice([0.2, 5.0])
        return [step * rates[sum(1 for c in cuts if c <= i)] for i in range(m)]
    if style == "gap":
        holes = {rng.randrange(m): rng.randint(3, 25) for _ in range(rng.randint(1, 2))} if m else {}
        return [step * holes.get(i, 1) for i in range(m)]
    if style == "geometric":
        r = rng.choice([0.8, 0.9, 1.1, 1.25])
        r = r if r ** m < 1e3 and r ** m > 1e-3 else (1.0 + (r - 1.0) * 6.0 / max(m, 6))
        return [step * r ** i for i in range(m)]
    raise ValueError(style)


def gen_times(rng, n, style=None):
    """n strictly increasing times (seconds, multiples of 1 ms) in one of the sampling styles of `gen_steps`;
    returns (times, nominal step, style)"""
    step = rng.choice([10.0, 30.0, 60.0, 180.0, 600.0])
    style = rng.choice(STYLES) if style is None else style
    t = q(rng.uniform(0, 3600.0))
    out = [t]
    for h in gen_steps(rng, n, step, style):
        t = q(t + max(h, 0.5))
        out.append(t)
    return out[:n], step, style


def gen_query(rng, times, where=None):
    """a query time inside the table, with its position class"""
    n = len(times)
    where = where or rng.choice(["first", "last", "interior", "interior", "node", "second", "before-last"])
    if where == "node":
        return times[rng.randrange(n)], "node"
    if where == "first" or n < 3:
        i = 0
    elif where == "last":
        i = n - 2
    elif where == "second":
        i = min(1, n - 2)
    elif where == "before-last":
        i = max(n - 3, 0)
    else:
        i = rng.randrange(n - 1)
    f = rng.choice([0.5, rng.uniform(0.01, 0.99), 1e-4, 1 - 1e-4])
    t = q(times[i] + f * (times[i + 1] - times[i]))
    if t in times:
        return t, "node"
    pos = "first" if i == 0 else "last" if i == n - 2 else "interior"
    return t, pos


def error_kind(fn):
    try:
        return "ok", fn()
    except ValueError as e:
        return "value-error", e
    except IndexError as e:
        return "index-error", e
    except TypeError as e:
        return "type-error", e
    except Exception as e:  # noqa
        return "other-error:" + type(e).__name__, e



# ---------------------------------------------------------------- correspondence (model vs real code)

def real_call(xs, ys, method, order, x):
    """Interp(xs, ys, method, order)(x) -> reply in the driver's format (values as floats)"""
    import numpy as np
    from beyond.utils.interp import Interp
    kind, r = error_kind(lambda: Interp(xs, ys, method, order)(x))
    if kind != "ok":
        return kind, None
    return "ok", [float(v) for v in np.atleast_1d(np.asarray(r, dtype=float))]


def gen_table(rng):
    """abscissae (floats, strictly increasing unless `broken`), rows, order"""
    order = rng.choice([None, 1] + list(range(2, 13)) * 3)
    n = rng.choice([1, 2, rng.randint(1, 12), rng.randint(2, 40), (order or 2), (order or 2) + 1, (order or 2) + rng.randint(0, 28), (order or 2) + rng.randint(0, 28)])
    style = rng.choice(["uniform", "jitter", "mjd", "mjd", "int", "multirate", "multirate", "gap", "geometric"])
    if style == "uniform":
        h = rng.choice([0.5, 1.0, 60.0])
        x0 = rng.uniform(-100, 100)
        xs = [x0 + i * h for i in range(n)]
    elif style == "int":
        xs = [float(i) for i in range(n)]
    elif style == "mjd":
        ts, _, _ = gen_times(rng, n)
        xs = [58849.0 + t / 86400.0 for t in ts]
    else:
        x = rng.uniform(-100, 100)
        xs = [x]
        for h in gen_steps(rng, n, rng.choice([1.0, 1.0, 0.01, 60.0]), style):
            x += h
            xs.append(x)
        xs = xs[:n]
    d = rng.choice([0, 1, 3, 6])     # 0 = 1-D ordinates
    mag = rng.choice([1.0, 1e3, 7e6])
    ys = [[rng.uniform(-1, 1) * mag for _ in range(max(d, 1))] for _ in range(n)]
    return order, xs, ys, d, style


def gen_x(rng, xs):
    n = len(xs)
    where = rng.choice(["node", "mid", "mid", "mid", "mid", "first", "last", "near-node", "near-node", "before", "after", "far", "nan"] if n >= 2 else ["node", "before", "after", "nan"])
    if where == "node":
        return xs[rng.randrange(n)], "node"
    if where == "before":
        return math.nextafter(xs[0], -math.inf), "outside"
    if where == "after":
        return math.nextafter(xs[-1], math.inf), "outside"
    if where == "far":
        return rng.choice([xs[0] - 10.0, xs[-1] + 10.0]), "outside"
    if where == "nan":
        return float("nan"), "outside"
    i = 0 if where == "first" else n - 2 if where == "last" else rng.randrange(n - 1)
    if where == "near-node":
        x = math.nextafter(xs[i + 1], rng.choice([-math.inf, math.inf]))
        x = min(max(x, xs[0]), xs[-1])
    else:
        x = xs[i] + rng.uniform(0.001, 0.999) * (xs[i + 1] - xs[i])
    if x in xs:
        return x, "node"
    return x, ("first" if x < xs[1] else "last" if x > xs[-2] else "interior")


def correspondence(ctx):
    import numpy as np
    from beyond.utils.interp import Interp
    out = Outcome()
    rng = ctx.rng
    reqs, meta = [], []

    def add(req, kind, real, inp, **kw):
        reqs.append(req)
        meta.append((kind, real, inp, kw))

    # 1. _prev_idx, exact
    for _ in range(ctx.n(1500, 30000)):
        order, xs, ys, d, style = gen_table(rng)
        x, pos = gen_x(rng, xs)
        f = Interp(xs, ys, "linear")
        pk, pv = error_kind(lambda: int(f._prev_idx(x)))      # a changed search may raise where the bisection never does
        real = f"ok {pv}" if pk == "ok" else pk
        add(" ".join(["c9prev", str(len(xs)), f2b(x)] + [f2b(v) for v in xs]), "prev", real, {"xs": xs, "x": x})
        out.count(key=reqs[-1], nontrivial=len(xs) >= 2, kind="prev_idx-" + pos, n=min(len(xs), 13))
    # 2. the window, recovered from the real code by interpolating one-hot ordinates at a non-node abscissa
    for _ in range(ctx.n(1500, 30000)):
        order = rng.randint(1, 12)
        n = rng.choice([order, order + 1, order + rng.randint(0, 30), order + rng.randint(0, 30)])
        _, xs, _, _, style = gen_table(rng)
        while len(xs) < n:
            xs.append(xs[-1] + rng.uniform(0.7, 1.3))
        xs = xs[:n]
        if n < 2:
            continue
        x, pos = gen_x(rng, xs)
        if pos in ("node", "outside"):
            continue
        f = Interp(xs, np.eye(n), "lagrange", order)
        wk, w = error_kind(lambda: f(x))
        if wk != "ok":
            supp, real = [0], wk
        else:
            w = np.asarray(w)
            supp = [i for i in range(n) if w[i] != 0.0] or [0]
            pk, pv = error_kind(lambda: int(f._prev_idx(x)))
            real = f"ok {pv if pk == 'ok' else pk} {supp[0]} {supp[-1] + 1}" if supp == list(range(supp[0], supp[-1] + 1)) else f"support {supp}"
        add(" ".join(["c9window", str(order), str(n), f2b(x)] + [f2b(v) for v in xs]), "window", real, {"xs": xs, "x": x, "order": order})
        out.count(key=reqs[-1], kind="window-" + pos, order=order, edge="start" if supp[0] == 0 else "stop" if supp[-1] == n - 1 else "none")
    # 3. whole calls
    for _ in range(ctx.n(2500, 50000)):
        order, xs, ys, d, style = gen_table(rng)
        method = rng.choice(["lagrange", "lagrange", "linear"])
        nx = n = len(xs)
        variant = "plain"
        r = rng.random()
        if r < 0.03 and n >= 2:
            i = rng.randrange(n - 1)
            xs[i + 1] = xs[i] if rng.random() < 0.5 else xs[i] - 1.0
            variant = "not-increasing"
        elif r < 0.06 and n >= 3:
            if rng.random() < 0.5:
                ys = ys[:rng.randint(1, n - 1)]
            else:
                xs = xs[:rng.randint(1, n - 1)]
            nx, n = len(xs), len(ys)
            variant = "length-mismatch"
        x, pos = gen_x(rng, xs)
        yarr = np.array(ys)[:, 0] if d == 0 else np.array(ys)
        kind, val = real_call(xs, yarr, method, order, x)
        scale = None
        if kind == "ok" and method == "lagrange":
            wk, w = real_call(xs[:n], np.eye(n), method, order, x) if nx >= n else ("x", None)
            if wk == "ok":
                scale = [float(sum(abs(w[j]) * abs(ys[j][c]) for j in range(n))) for c in range(max(d, 1))]
        dd = max(d, 1)
        add(" ".join(["c9call", "l" if method == "linear" else "g", "none" if order is None else str(order), str(nx), str(n), str(dd), f2b(x)]
                     + [f2b(v) for v in xs] + [f2b(v) for row in ys for v in row]), "call", (kind, val),
            {"xs": xs, "ys": ys, "x": x, "method": method, "order": order}, scale=scale, method=method)
        out.count(key=reqs[-1], nontrivial=kind == "ok", kind=f"call-{method}-{pos}", result=kind, variant=variant, order=order, style=style)
    # 4. Ephem objects: construction order, default method / order, frame + form of the result, conversion after a first interpolation
    for _ in range(ctx.n(400, 6000)):
        eph_case(out, rng, add)
    replies = core.Driver(ID).run(reqs)
    for req, (kind, real, inp, kw), rep in zip(reqs, meta, replies):
        compare(out, kind, real, rep, inp, kw)
        out.sample({"request": req[:100] + "…", "impl": str(real)[:160], "model": rep[:160]}, limit=3)
    return out


def compare(out, kind, real, rep, inp, kw):
    if kind in ("prev", "window"):
        if real != rep:
            out.fail("interp-" + kind, f"{kind}: real code and Lean model differ", inp, observed=real, expected=rep)
        return
    if kind == "call":
        rk, rv = real
        toks = rep.split()
        if toks[0] != rk:
            out.fail("interp-call-kind", "result kind differs between Interp and the Lean model", inp, observed=rk, expected=toks[0])
            return
        if rk != "ok":
            return
        mv = [b2f(t) for t in toks[1:]]
        if len(mv) != len(rv):
            out.fail("interp-call-shape", "result length differs", inp, observed=rv, expected=mv)
            return
        for c, (a, b) in enumerate(zip(rv, mv)):
            if kw["method"] == "linear":
                ok = a == b or (math.isnan(a) and math.isnan(b))       # elementwise IEEE operations: bit-for-bit
            else:
                sc = kw["scale"][c] if kw["scale"] else max(abs(a), abs(b))
                ok = core.close(a, b, rtol=1e-10, atol=1e-300, scale=sc)
            if not ok:
                out.fail("interp-call-value/" + kw["method"], f"component {c} differs between Interp and the Lean model", inp, observed=rv, expected=mv)
                return
        return
    if kind == "eph":
        parts = rep.split(" | ") if rep else []
        if len(parts) != len(real):
            out.fail("ephem-seq", "number of replies differs", inp, observed=real, expected=rep)
            return
        for (rk, rlabel, rv), m in zip(real, parts):
            toks = m.split()
            if toks[0] != rk:
                out.fail("ephem-kind", "result kind differs between Ephem.interpolate and the Lean model", inp, observed=rk, expected=toks[0])
                return
            if rk != "ok":
                continue
            if toks[1] != rlabel[0]:
                out.fail("ephem-identity", "the reply is a recorded point of the ephemeris (rec) / a new object (new): real code and Lean model differ", inp, observed=rlabel[0], expected=toks[1])
                return
            if [toks[2], toks[3]] != rlabel[1:3] or b2f(toks[4]) != rlabel[3]:
                out.fail("ephem-label", "form / frame / date of the reply differ", inp, observed=rlabel, expected=toks[1:5])
                return
            mv = [b2f(t) for t in toks[5:]]
            sc = kw["scale"]
            if len(mv) != len(rv) or not all(core.close(a, b, rtol=1e-10, atol=1e-300, scale=sc[c] if kw["lagrange"] else max(abs(a), abs(b))) for c, (a, b) in enumerate(zip(rv, mv))):
                out.fail("ephem-value", "coordinates differ between Ephem.interpolate and the Lean model", inp, observed=rv, expected=mv)
                return


def eph_case(out, rng, add):
    """one random history on one Ephem object, replayed on the Lean state machine `EphH`:
    I interpolate / P propagate / T iter(dates=…) / S iter(start, stop, step) (= propagate at every date) / G ephem[i] /
    W in-place modification by the caller of an object it received / O, M order and method setters / C frame or form setter"""
    import numpy as np
    from beyond.dates import timedelta
    from beyond.orbits import Ephem
    d0 = base_date()
    order = rng.choice([None, None, 2, 3, 5, 8, 8, 11, 12])
    eff = 8 if order is None else order
    n = rng.choice([eff, eff + 1, eff + rng.randint(0, 12), max(1, eff - rng.randint(1, 3))])
    method = rng.choice([None, None, "lagrange", "linear"])
    times, step, style = gen_times(rng, n)
    hetero = rng.random() < 0.15
    # `mixed`: order / method settings AND in-place frame / form conversions interleaved with interpolations on one object
    scenario = rng.choice(["plain", "setters", "convert-form", "convert-frame", "mixed", "mixed", "mixed", "objects", "objects", "objects", "objects"]) if not hetero else "plain"
    keplerian = scenario.startswith("convert") or scenario == "mixed" or (scenario == "objects" and rng.random() < 0.5)
    if not keplerian:
        coords = [[rng.uniform(-1, 1) * (7e6 if c < 3 else 7e3) for c in range(6)] for _ in range(n)]
        forms = [rng.choice(["cartesian", "keplerian"]) for _ in range(n)] if hetero else [rng.choice(["cartesian", "keplerian", "spherical"])] * n
        frames = [rng.choice(["EME2000", "ITRF"]) for _ in range(n)] if hetero else [rng.choice(["EME2000", "MOD", "ITRF"])] * n
        eph = mk_ephem(times, coords, method, order, forms, frames, shuffle=rng)
        given = list(eph._orbits)
        rng.shuffle(given)     # the model receives the points in an arbitrary order as well and sorts them itself
    else:
        kep, period, sma, ecc = kepler_ephem(rng)
        pts = [kep.propagate(d0 + timedelta(seconds=t)).copy(form="cartesian") for t in times]
        eph = Ephem(pts, method=method, order=order)
        given = list(eph._orbits)

    def pt_tokens(o):
        return [f2b(o.date._mjd), str(o.form), str(o.frame)] + [f2b(v) for v in np.asarray(o, dtype=float)]

    toks = ["c9eph", {None: "none", "lagrange": "g", "linear": "l"}[method], "none" if order is None else str(order), str(n), "6"]
    for o in given:
        toks += pt_tokens(o)
    real, objs, kinds, trace = [], [], [], []
    amax = [np.abs(np.array([np.asarray(o, dtype=float) for o in eph._orbits])).max(axis=0)]

    def reply(kind, r):
        """record the reply of the real object in the driver's format; `new` = none of the recorded points"""
        kinds.append(kind)
        if kind == "ok":
            isrec = any(r is o for o in eph._orbits)
            real.append(("ok", ["rec" if isrec else "new", str(r.form), str(r.frame), r.date._mjd], [float(v) for v in np.asarray(r, dtype=float)]))
            objs.append(r)
        else:
            real.append((kind, None, None))
            objs.append(None)

    def query():
        if n >= 2 and rng.random() < 0.85:
            return gen_query(rng, times)
        return rng.choice([(q(times[0] - 1.0), "outside"), (q(times[-1] + 0.5), "outside"), (times[0], "node"), (times[-1], "node")])

    cur = {"order": eff, "lam": 1e3}

    def op_interp(t, via):
        dq = d0 + timedelta(seconds=t)
        if n >= 2 and times[0] <= t <= times[-1] and 1 <= cur["order"] <= n:
            # summation-order allowance: the Lebesgue constant of the window (huge when it mixes very different steps)
            i = min(max(j for j in range(n) if times[j] <= t), n - 2)
            cur["lam"] = max(cur["lam"], 10 * lebesgue_max(times, max(cur["order"], 2), i, t) if n >= max(cur["order"], 2) else 0)
        sc = rng.choice(["UTC", "UTC", "TAI", "TT", "GPS"])      # the same instant expressed in another time scale
        if sc != "UTC":
            dq = dq.change_scale(sc)
        out.tally("ephem-query-scale=" + sc)
        if via == "T":          # iter(dates=…) is propagate at every date
            kind, r = error_kind(lambda: list(eph.iter(dates=[dq])))
            r = r[0] if kind == "ok" else r
        else:
            kind, r = error_kind(lambda: (eph.interpolate if via == "I" else eph.propagate)(dq))
        toks.extend(["I" if via == "I" else "P", f2b(dq._mjd)])
        trace.append(via)
        reply(kind, r)

    any_lagrange = method in (None, "lagrange")
    first = query()
    nops = rng.randint(4, 9) if scenario == "mixed" else rng.randint(2, 6)
    for k in range(nops):
        r = rng.random()
        sub = rng.choice(["setters", "setters", "convert-form", "convert-frame"]) if scenario == "mixed" else scenario
        if scenario == "plain" or r < 0.45 or (k == nops - 1):
            t, pos = first if (k == nops - 1 and scenario != "plain") else query()
            op_interp(t, rng.choice(["I", "I", "I", "P", "T"]))
        elif sub == "setters":
            if rng.random() < 0.7:
                k2 = rng.choice([2, 3, 4, 7, 8, 9, 12, rng.randint(1, 12)])
                eph.order = k2
                cur["order"] = k2
                toks.extend(["O", str(k2)])
                trace.append("O")
            else:
                m2 = rng.choice(["lagrange", "linear"])
                eph.method = m2
                toks.extend(["M", "g" if m2 == "lagrange" else "l"])
                any_lagrange = any_lagrange or m2 == "lagrange"
                trace.append("M")
        elif sub.startswith("convert"):
            if sub == "convert-form":
                eph.form = rng.choice(["keplerian", "spherical", "cartesian"])
            else:
                eph.frame = rng.choice(["ITRF", "MOD", "TEME", "EME2000"])
            toks.append("C")
            for o in eph._orbits:
                toks += pt_tokens(o)
            trace.append("C")
            amax.append(np.abs(np.array([np.asarray(o, dtype=float) for o in eph._orbits])).max(axis=0))
        else:   # objects: index reads, a stepped iteration, in-place modifications of received objects
            r2 = rng.random()
            held = [j for j, o in enumerate(objs) if o is not None]
            if r2 < 0.2:
                i = rng.choice([0, -1, n - 1, rng.randrange(-n - 1, n + 1)])
                kind, r = error_kind(lambda: eph[i])
                toks.extend(["G", str(i)])
                trace.append("G")
                reply(kind, r)
            elif r2 < 0.3 and n >= 2:
                i = rng.randrange(n - 1)
                st = q((times[i + 1] - times[i]) * rng.choice([0.5, 0.25, 1.0]))
                kind, r = error_kind(lambda: list(eph.iter(start=d0 + timedelta(seconds=times[i]), stop=d0 + timedelta(seconds=times[i + 1]), step=timedelta(seconds=st))))
                trace.append("S")
                if kind == "ok":
                    for o in r:
                        toks.extend(["P", f2b(o.date._mjd)])
                        reply("ok", o)
                else:       # refused as a whole: the first date already is (the model says the same about it)
                    toks.extend(["P", f2b((d0 + timedelta(seconds=times[i]))._mjd)])
                    reply(kind, r)
            elif held:
                j = rng.choice(held)
                o = objs[j]
                how = rng.choice(["values", "values", "form", "frame"]) if keplerian else "values"
                isrec = any(o is x for x in eph._orbits)
                try:
                    if how == "values":
                        o[:] = np.asarray(o, dtype=float) * 1.5 + 1.0
                    elif how == "form":
                        o.form = "keplerian" if str(o.form) != "keplerian" else "cartesian"
                    else:
                        o.frame = "ITRF" if str(o.frame) != "ITRF" else "EME2000"
                except Exception:  # noqa  a conversion that the library refuses changes nothing
                    continue
                toks.extend(["W", str(j)] + pt_tokens(o))
                trace.append("W-rec-" + how if isrec else "W-new-" + how)
                amax.append(np.abs(np.array([np.asarray(x, dtype=float) for x in eph._orbits])).max(axis=0))
            else:
                op_interp(*query()[:1], "I")
    scale = [float(max(a[c] for a in amax)) * cur["lam"] for c in range(6)]   # |l_j| sum: ~1e3 up to order 12 on mild tables, computed for the others
    add(" ".join(toks), "eph", real, {"times": times, "order": order, "method": method, "scenario": scenario, "history": trace}, scale=scale,
        lagrange=any_lagrange)
    for t in trace:
        out.tally("ephem-op=" + t)
    out.count(key=" ".join(toks[:40]) + " ".join(trace) + str(len(toks)), nontrivial="ok" in kinds, kind="ephem-" + scenario, method=method, order=order, hetero=hetero,
              results="+".join(sorted(set(kinds))), history_len=len(trace))

# ---------------------------------------------------------------- oracle on the real API

def guarded(out, family, inp, fn):
    """call the real code; an exception inside the domain of the property is a failing input, not a harness error"""
    kind, r = error_kind(fn)
    if kind != "ok":
        out.fail(family, "a call inside the domain of the property raises " + kind, inp, observed=kind + ": " + str(r)[:200], expected="a value")
        return None
    return r


def par(order):
    return "even" if order % 2 == 0 else "odd"


def oracle(ctx, widened):
    import numpy as np
    from beyond.utils.interp import Interp
    from beyond.dates import timedelta
    out = Outcome()
    rng = ctx.rng
    big = widened or ctx.thorough
    d0 = base_date()
    from harness import env
    env.use_real_eop()     # so that UTC, TAI, TT, GPS, UT1 really differ (tables cover 1973-2017)

    # ---- 1. raw Interp: node exactness, polynomial / piecewise-linear reproduction, refusal outside, too short
    for _ in range(3000 if big else 300):
        order = rng.randint(2, 12)
        n = rng.choice([order, order + 1, order + rng.randint(0, 28)])
        times, step, style = gen_times(rng, n)
        xs = np.array([58849.0 + t / 86400.0 for t in times])
        if not all(a < b for a, b in zip(xs, xs[1:])):
            continue
        tau = lambda x: (x - xs[0]) / (xs[-1] - xs[0])  # noqa: E731 affine in the abscissa
        deg = rng.randint(0, order - 1)
        d = rng.choice([1, 3, 6])
        coef = [[rng.uniform(-1, 1) * rng.choice([1.0, 1e3, 7e6]) for _ in range(deg + 1)] for _ in range(d)]
        P = lambda x: np.array([sum(c * tau(x) ** k for k, c in enumerate(cs)) for cs in coef])  # noqa: E731
        scale = np.array([sum(abs(c) for c in cs) for cs in coef]) + 1e-300
        ys = np.array([P(x) for x in xs])
        f = Interp(xs, ys, "lagrange", order)
        # a. every node is returned exactly (bitwise up to the sign of zero)
        for j in range(n):
            pos = "first" if j == 0 else "last" if j == n - 1 else "interior"
            r = guarded(out, f"node-refused/lagrange/{pos}", {"xs": list(map(float, xs)), "order": order, "node": j}, lambda: f(xs[j]))
            out.count(key=("node", order, n, j, times[0]), kind="node-lagrange", order=order)
            if r is None:
                break
            if not np.array_equal(np.asarray(r), ys[j]):
                pos = "first" if j == 0 else "last" if j == n - 1 else "interior"
                out.fail(f"node-not-exact/lagrange/{pos}/order-{par(order)}", "Lagrange interpolation at a tabulated abscissa does not return the tabulated value",
                         {"xs": list(map(float, xs)), "order": order, "node": j, "ys": ys.tolist()}, observed=np.asarray(r).tolist(), expected=ys[j].tolist())
                break
        # b. polynomials of degree < order are reproduced, in every interval incl. the first and the last
        for _ in range(6 if style in MILD else 0):
            t, pos = gen_query(rng, times)
            x = 58849.0 + t / 86400.0
            if not (xs[0] <= x <= xs[-1]):
                continue
            r = guarded(out, f"inside-refused/lagrange/{pos}", {"xs": list(map(float, xs)), "order": order, "x": float(x)}, lambda: f(x))
            e = P(x)
            out.count(key=("poly", order, n, x), kind="poly-" + pos, order=order, sampling=style, deg=deg)
            if r is None:
                continue
            r = np.asarray(r)
            if not np.all(np.isfinite(r)):
                out.fail(f"non-finite/lagrange/{pos}", "non-finite interpolated value inside the table", {"xs": list(map(float, xs)), "order": order, "x": x}, observed=r.tolist())
            elif not np.all(np.abs(r - e) <= 1e-7 * scale):
                out.fail(f"poly-reproduction/{pos}/order-{par(order)}", f"Lagrange interpolation of order {order} does not reproduce a polynomial of degree {deg}",
                         {"xs": list(map(float, xs)), "order": order, "x": float(x), "coef": coef}, observed=r.tolist(), expected=e.tolist())
        # c. just outside -> ValueError, never a value
        for side, x in (("before", np.nextafter(xs[0], -np.inf)), ("after", np.nextafter(xs[-1], np.inf)), ("before", xs[0] - 1.0), ("after", xs[-1] + 1e-3), ("nan", float("nan"))):
            for method in ("lagrange", "linear"):
                kind, val = error_kind(lambda: Interp(xs, ys, method, order)(x))
                out.count(key=("outside", side, method, float(xs[0]), n), kind="outside-" + side)
                if kind != "value-error":
                    out.fail(f"outside-not-refused/{side}/{method}", "an abscissa outside [first, last] is not refused with ValueError",
                             {"xs": list(map(float, xs)), "order": order, "x": float(x), "method": method}, observed=kind, expected="value-error")
        # d. table shorter than the order -> ValueError at every query
        if n >= 2:
            m = rng.randint(1, min(order - 1, n))
            t, pos = gen_query(rng, times[:m]) if m >= 2 else (times[0], "node")
            x = 58849.0 + t / 86400.0
            if xs[0] <= x <= xs[m - 1]:
                kind, val = error_kind(lambda: Interp(xs[:m], ys[:m], "lagrange", order)(x))
                out.count(key=("short", m, order, x), kind="too-short")
                if kind != "value-error":
                    out.fail(f"too-short-not-refused/{pos}", f"a table of {m} points is interpolated at order {order}",
                             {"xs": list(map(float, xs[:m])), "order": order, "x": float(x)}, observed=kind if kind != "ok" else np.asarray(val).tolist(), expected="value-error")
        # e. linear: piecewise-linear data (breakpoints at the nodes) are reproduced; nodes are returned (to rounding)
        yl = np.array([[rng.uniform(-1, 1) * 7e6 for _ in range(d)] for _ in range(n)])
        g = Interp(xs, yl, "linear")
        for _ in range(4):
            t, pos = gen_query(rng, times)
            x = 58849.0 + t / 86400.0
            if not (xs[0] <= x <= xs[-1]):
                continue
            i = max(0, int(np.searchsorted(xs, x, side="left")) - 1)
            lam = (x - xs[i]) / (xs[i + 1] - xs[i])
            e = yl[i] * (1 - lam) + yl[i + 1] * lam
            r = guarded(out, f"inside-refused/linear/{pos}", {"xs": list(map(float, xs)), "x": float(x)}, lambda: g(x))
            out.count(key=("pwl", n, x), kind="pwl-" + pos)
            if r is None:
                continue
            r = np.asarray(r)
            if not np.all(np.abs(r - e) <= 1e-12 * (np.abs(yl[i]) + np.abs(yl[i + 1]) + 1e-300)):
                out.fail(f"pwl-reproduction/{pos}", "linear interpolation does not reproduce piecewise-linear data",
                         {"xs": list(map(float, xs)), "x": float(x), "ys": yl.tolist()}, observed=r.tolist(), expected=e.tolist())
        j = rng.randrange(n)
        r = guarded(out, "node-refused/linear/" + ("first" if j == 0 else "last" if j == n - 1 else "interior"), {"xs": list(map(float, xs)), "node": j}, lambda: g(xs[j]))
        out.count(key=("node-linear", n, j, float(xs[0])), kind="node-linear")
        nb = np.abs(yl[j]) + np.abs(yl[max(j - 1, 0)])
        if r is not None and not np.all(np.abs(r - yl[j]) <= 4 * 2.3e-16 * nb):
            out.fail("node-not-exact/linear", "linear interpolation at a tabulated abscissa is not the tabulated value (beyond rounding)",
                     {"xs": list(map(float, xs)), "node": j, "ys": yl.tolist()}, observed=r.tolist(), expected=yl[j].tolist())

    # ---- 2. Ephem.interpolate: the same clauses through dates, plus frame/form
    for _ in range(400 if big else 60):
        order = rng.randint(2, 12)
        n = rng.choice([order, order + 1, order + rng.randint(0, 28)])
        times, step, style = gen_times(rng, n)
        deg = rng.randint(0, order - 1)
        coef = [[rng.uniform(-1, 1) * (7e6 if c < 3 else 7e3) for _ in range(deg + 1)] for c in range(6)]
        scale = np.array([sum(abs(c) for c in cs) for cs in coef])
        form = rng.choice(["cartesian", "keplerian", "spherical"])
        frame = rng.choice(["EME2000", "MOD", "TOD", "ITRF", "TEME"])
        method = rng.choice(["lagrange", "lagrange", "linear"])
        dates = [d0 + timedelta(seconds=t) for t in times]
        m0, m1 = dates[0]._mjd, dates[-1]._mjd
        P = lambda mjd: np.array([sum(c * ((mjd - m0) / (m1 - m0)) ** k for k, c in enumerate(cs)) for cs in coef])  # noqa: E731
        coords = [P(d._mjd) for d in dates]
        eph = mk_ephem(times, coords, method, order, form, frame, shuffle=rng)
        info = {"times": times, "order": order, "method": method, "form": form, "frame": frame, "coef": coef}
        # nodes
        for j in (0, n - 1, rng.randrange(n), rng.randrange(n)):
            kind, r = error_kind(lambda: eph.interpolate(dates[j]))
            out.count(key=("eph-node", method, order, n, j, times[0]), kind="ephem-node-" + method)
            pos = "first" if j == 0 else "last" if j == n - 1 else "interior"
            if kind != "ok":
                out.fail(f"ephem-node-refused/{method}/{pos}", "interpolating an ephemeris at one of its own dates raises", dict(info, node=j), observed=kind + ": " + str(r), expected="the tabulated point")
                continue
            ok = np.array_equal(np.asarray(r), coords[j]) if method == "lagrange" else np.all(np.abs(np.asarray(r) - coords[j]) <= 1e-15 * (np.abs(coords[j]) + np.abs(coords[max(j - 1, 0)])))
            if not ok:
                out.fail(f"node-not-exact/ephem-{method}/{pos}/order-{par(order)}", "interpolating an ephemeris at one of its own dates does not return that point",
                         dict(info, node=j), observed=np.asarray(r).tolist(), expected=coords[j].tolist())
            if (str(r.frame), str(r.form), r.date) != (frame, form, dates[j]):
                out.fail("frame-form-not-kept/node", "interpolated point does not carry the ephemeris' frame, form and the requested date", dict(info, node=j),
                         observed=[str(r.frame), str(r.form), str(r.date)], expected=[frame, form, str(dates[j])])
        # between nodes
        for _ in range(4):
            t, pos = gen_query(rng, times)
            dq = d0 + timedelta(seconds=t)
            kind, r = error_kind(lambda: eph.interpolate(dq))
            out.count(key=("eph-q", method, order, n, t), kind=f"ephem-{method}-{pos}", frame=frame, form=form)
            if kind != "ok":
                out.fail(f"ephem-inside-refused/{method}/{pos}", "a date inside the ephemeris is refused", dict(info, t=t), observed=kind + ": " + str(r), expected="a point")
                continue
            if (str(r.frame), str(r.form), r.date) != (frame, form, dq):
                out.fail("frame-form-not-kept/" + pos, "interpolated point does not carry the ephemeris' frame, form and the requested date", dict(info, t=t),
                         observed=[str(r.frame), str(r.form), str(r.date)], expected=[frame, form, str(dq)])
            if method == "lagrange" and style in MILD:
                e = P(dq._mjd)
                if not np.all(np.abs(np.asarray(r) - e) <= 1e-7 * scale):
                    out.fail(f"poly-reproduction/ephem/{pos}/order-{par(order)}", f"Ephem.interpolate (order {order}) does not reproduce a polynomial trajectory of degree {deg}",
                             dict(info, t=t), observed=np.asarray(r).tolist(), expected=e.tolist())
        # outside
        for side, dq in (("before", dates[0] - timedelta(seconds=1e-3)), ("after", dates[-1] + timedelta(seconds=1e-3)),
                         ("before", dates[0] - timedelta(seconds=step)), ("after", dates[-1] + timedelta(days=3))):
            kind, r = error_kind(lambda: eph.interpolate(dq))
            out.count(key=("eph-out", side, method, times[0], n), kind="ephem-outside-" + side)
            if kind != "value-error":
                out.fail(f"outside-not-refused/ephem/{side}/{method}", "a date outside the ephemeris is not refused with ValueError", dict(info, date=str(dq)),
                         observed=kind if kind != "ok" else np.asarray(r).tolist(), expected="value-error")
        # too short for the order (Lagrange)
        if n >= 2:
            m = rng.randint(2, max(2, min(order - 1, n)))
            if m < order:
                short = mk_ephem(times[:m], coords[:m], "lagrange", order, form, frame)
                t, pos = gen_query(rng, times[:m])
                kind, r = error_kind(lambda: short.interpolate(d0 + timedelta(seconds=t)))
                out.count(key=("eph-short", m, order, t), kind="ephem-too-short")
                if kind != "value-error":
                    out.fail(f"too-short-not-refused/ephem/{pos}", f"an ephemeris of {m} points is interpolated at order {order}", dict(info, m=m, t=t),
                             observed=kind if kind != "ok" else np.asarray(r).tolist(), expected="value-error")

    # ---- 3. the frame / form of the ephemeris is that of the result also after it has been changed
    for _ in range(60 if big else 8):
        stale_case(out, rng)

    # ---- 3b. the query date may be expressed in any time scale: same instant, same state
    for _ in range(60 if big else 8):
        scale_case(out, rng)

    # ---- 3b'. a table dated in UTC (or any scale) that runs over a leap second: nodes exact, between nodes true to the physical elapsed time
    import random as _random
    lrng = _random.Random(f"C09-leap-{ctx.seed}")      # its own stream: the cases of the other sections stay what they were
    for _ in range(80 if big else 12):
        leap_case(out, lrng)

    # ---- 3c. order / method set on a live ephemeris (or interpolator) are honoured in every interval, visited before or not
    for _ in range(300 if big else 40):
        setter_case(out, rng)

    # ---- 3c'. any history of settings, in-place conversions and interpolations on ONE ephemeris answers like a fresh one
    for _ in range(250 if big else 40):
        history_case(out, rng)

    # ---- 3d. what the ephemeris hands out is a new object: modifying it in place never reaches the table
    for _ in range(400 if big else 50):
        alias_case(out, rng)

    # ---- 4. a smooth orbit sampled well below its period: centimetres, at the ends as in the middle
    for _ in range(150 if big else 20):
        orbit_case(out, rng)
    out.sample({"checks": "node exactness (bitwise for Lagrange), polynomial reproduction deg<order, piecewise-linear reproduction, refusal outside / too short, "
                          "frame+form+date of the result, result after a frame/form change of the ephemeris, cm accuracy on Keplerian orbits"})
    return out


def kepler_ephem(rng, n=30):
    from beyond.orbits import Orbit, Ephem
    from beyond.dates import timedelta
    sma = rng.choice([6.8e6, 7.0e6, 7.5e6, 2.656e7, 4.2164e7]) * rng.uniform(0.99, 1.01)
    ecc = rng.choice([1e-4, 1e-3, 0.01, 0.05])
    kep = Orbit([sma, ecc, rng.uniform(0.05, 3.0), rng.uniform(0, 6.28), rng.uniform(0, 6.28), rng.uniform(0, 6.28)], base_date(), "keplerian", "EME2000", "Kepler")
    period = 2 * math.pi * math.sqrt(sma ** 3 / MU)
    return kep, period, sma, ecc


def lebesgue_max(times, order, i, t):
    """max over the windows [a, a+order) containing rows i and i+1 of sum_j |l_j(t)|"""
    best = 1.0
    for a in range(max(0, i + 2 - order), min(i, len(times) - order) + 1):
        w = times[a:a + order]
        lam = 0.0
        for j, xj in enumerate(w):
            p = 1.0
            for m, xm in enumerate(w):
                if m != j:
                    p *= (t - xm) / (xj - xm)
            lam += abs(p)
        best = max(best, lam)
    return best


def orbit_case(out, rng):
    import numpy as np
    from beyond.orbits import Ephem
    from beyond.dates import timedelta
    kep, period, sma, ecc = kepler_ephem(rng)
    frac = rng.choice([100, 150, 200])
    step = q(period / frac, 1.0)
    order = rng.choice([7, 8, 8, 9, 10])
    n = rng.randint(order, 40)
    # uniform, jittered (±20 %) or two successive ranges whose steps are in a ratio 2 or 3 (the example of the Ephem.iter docstring), the
    # LARGEST step being period/frac. (Wilder ratios are outside the clause: a date is a double MJD, 0.6 us, i.e. millimetres of
    # along-track noise, which a window mixing steps of very different sizes amplifies by its Lebesgue constant — 10^3 for a ratio 40.)
    style = rng.choice(MILD)
    hs = gen_steps(rng, n, 1.0, style) if style != "jitter" else [rng.uniform(0.8, 1.2) for _ in range(n - 1)]
    hmax = max(hs)
    times = [0.0]
    for h in hs:
        times.append(q(times[-1] + step * h / hmax))
    d0 = base_date()
    pts = [kep.propagate(d0 + timedelta(seconds=t)).copy(form="cartesian") for t in times]
    eph = Ephem(pts, order=order)
    for where in ("first", "last", "interior", "second", "before-last"):
        t, pos = gen_query(rng, times, where)
        dq = d0 + timedelta(seconds=t)
        r = guarded(out, f"inside-refused/orbit/{pos}", {"kep": list(map(float, kep)), "times": times, "t": t, "order": order}, lambda: eph.interpolate(dq))
        if r is None:
            continue
        true = kep.propagate(dq).copy(form="cartesian")
        err = float(np.linalg.norm(np.asarray(r)[:3] - np.asarray(true)[:3]))
        out.count(key=("orbit", sma, t, order), kind="orbit-" + pos, order=order, sampling=style)
        tol = 0.05
        if style == "two-rate":
            # dates are double MJDs (0.6 us): every tabulated point is up to |v| * 0.3 us off its abscissa, the interpolant carries that times
            # the Lebesgue constant of its window — here the largest one over the windows of `order` consecutive rows containing the bracket
            i = max(j for j in range(len(times) - 1) if times[j] <= t)
            tol += lebesgue_max(times, order, i, t) * math.sqrt(MU * (1 + ecc) / (sma * (1 - ecc))) * 0.6e-6
        if not (err <= tol):
            out.fail(f"orbit-accuracy/{pos}/order-{par(order)}", f"interpolated position is {err:.3f} m from the true one (step = period/{frac}, order {order})",
                     {"sma": sma, "ecc": ecc, "kep": list(map(float, kep)), "times": times, "t": t, "order": order, "sampling": style}, observed=err, expected=f"<= {tol:.3f} m")


def leap_case(out, rng):
    """an ephemeris whose dates run over the leap second of 2015-06-30 (real EOP tables: TAI-UTC 35 s -> 36 s), dated in UTC or in a
    uniform scale: nodes are returned exactly, and between nodes - in the interval that contains the leap second and in its neighbours -
    the interpolated position is the true Keplerian one at that physical instant"""
    import numpy as np
    from beyond.dates import Date, timedelta
    from beyond.orbits import Ephem
    kep, period, sma, ecc = kepler_ephem(rng)
    own = rng.choice(["UTC", "UTC", "UTC", "TAI", "GPS"])
    step = q(period / 100, 1.0)
    order = rng.choice([6, 8, 8, 11])
    n = rng.randint(order + 4, 30)
    times = [q(i * step + (0 if i == 0 else rng.uniform(-0.2, 0.2) * step)) for i in range(n)]
    k = rng.randrange(order // 2, n - 1 - order // 2)            # the interval [times[k], times[k+1]] holds the leap second
    leap = Date(2015, 7, 1, 0, 0, 0, scale="UTC")                 # the instant right after 23:59:60
    d0 = leap - timedelta(seconds=q(times[k] + rng.uniform(0.05, 0.95) * (times[k + 1] - times[k])))
    kep0 = kep.copy()
    kep0.date = d0
    pts = []
    for t in times:
        o = kep0.propagate(d0 + timedelta(seconds=t)).copy(form="cartesian")
        o.date = o.date.change_scale(own)
        pts.append(o)
    eph = Ephem(pts, method="lagrange", order=order)
    tol = 2e-6 * sma
    for i in sorted({k - 1, k, k + 1, rng.randrange(order // 2, n - 1 - order // 2)}):
        for f in (0.5, rng.uniform(0.05, 0.95), 0.0):
            t = q(times[i] + f * (times[i + 1] - times[i]))
            dq = (d0 + timedelta(seconds=t)).change_scale(rng.choice([own, "TAI", "UTC"]))
            truth = np.asarray(kep0.propagate(d0 + timedelta(seconds=t)).copy(form="cartesian"), dtype=float)
            pos = "node" if f == 0.0 else ("leap-interval" if i == k else "neighbour" if abs(i - k) == 1 else "far")
            out.count(key=("leap", own, str(d0), t, dq.scale.name), kind=f"leap-{pos}", table=own)
            kind, r = error_kind(lambda: eph.interpolate(dq))
            inp = {"kep": list(map(float, kep)), "epoch": str(d0), "table_scale": own, "times": times, "t": t, "query_scale": dq.scale.name, "order": order, "leap_interval": k}
            if kind != "ok":
                out.fail(f"leap-second-table/{pos}/refused", "a date inside a table that runs over a leap second is refused", inp, observed=kind, expected="ok")
                continue
            err = float(np.linalg.norm(np.asarray(r, dtype=float)[:3] - truth[:3]))
            if not err <= (1e-3 if f == 0.0 else tol):
                out.fail(f"leap-second-table/{pos}", f"table over a leap second: interpolated position is {err:.3f} m from the true one", inp, observed=err,
                         expected=f"<= {(1e-3 if f == 0.0 else tol):.3f} m")


def scale_case(out, rng):
    """a table in one time scale queried with the same instants expressed in the other scales"""
    import numpy as np
    from beyond.dates import Date, timedelta
    from beyond.orbits import Ephem
    kep, period, sma, ecc = kepler_ephem(rng)
    d0 = Date(2015, rng.randint(1, 12), rng.randint(1, 28), rng.randint(0, 23), rng.randint(0, 59))   # inside the EOP tables; June 30 (leap second) excluded by day <= 28
    own = rng.choice(["UTC", "UTC", "UTC", "TAI", "TT", "GPS"])
    step = q(period / 100, 1.0)
    order = rng.choice([2, 5, 8, 8, 11])
    method = rng.choice(["lagrange", "lagrange", "linear"])
    n = rng.randint(max(order, 2), 24)
    times = [q(i * step + (0 if i == 0 else rng.uniform(-0.2, 0.2) * step)) for i in range(n)]
    kep0 = kep.copy()
    kep0.date = d0
    pts = []
    for t in times:
        o = kep0.propagate(d0 + timedelta(seconds=t)).copy(form="cartesian")
        o.date = o.date.change_scale(own)
        pts.append(o)
    eph = Ephem(pts, method=method, order=order)
    speed = 1.2 * math.sqrt(MU / (sma * (1 - ecc))) * 1.1
    queries = [(times[j], "node", j) for j in {0, n - 1, rng.randrange(n), rng.randrange(n)}]
    queries += [gen_query(rng, times, "interior") + (None,) for _ in range(3)]
    queries += [(q(times[0] - 10.0), "outside", None), (q(times[-1] + 10.0), "outside", None), (q(times[0] - 40.0), "outside", None), (q(times[-1] + 70.0), "outside", None)]
    for t, pos, j in queries:
        dq = (d0 + timedelta(seconds=t)).change_scale(own)
        k0, ref = error_kind(lambda: eph.interpolate(dq))
        for sc in ("UTC", "TAI", "TT", "GPS", "UT1", "TDB"):
            if sc == own:
                continue
            exact = sc in ("UTC", "TAI", "TT", "GPS")
            if not exact and (pos == "outside" or j in (0, n - 1) or min(t - times[0], times[-1] - t) < 1e-3):
                continue      # a clock reading rounded to the microsecond may fall on the other side of a table end
            dq2 = dq.change_scale(sc)
            inp = {"kep": list(map(float, kep)), "epoch": str(d0), "table_scale": own, "times": times, "t": t, "query_scale": sc, "method": method, "order": order}
            out.count(key=("scale", own, sc, str(d0), t), kind=f"scale-{sc}-{pos}", table=own)
            k1, r = error_kind(lambda: eph.interpolate(dq2))
            if k1 != k0:
                out.fail(f"scale-dependence/{sc}/{pos}", f"the same instant expressed in {sc} is {'refused' if k1 != 'ok' else 'accepted'} while in the table's scale ({own}) it is not",
                         inp, observed=k1, expected=k0)
                continue
            if k0 != "ok":
                continue
            a, b = np.asarray(r, dtype=float), np.asarray(ref, dtype=float)
            if exact and dq2._mjd == dq._mjd:
                ok = np.array_equal(a, b)
            else:
                tol = np.array([speed * 2e-6] * 3 + [speed * 2e-6 * 2e-3] * 3)     # 2 µs of motion
                ok = bool(np.all(np.abs(a - b) <= tol))
            if not ok:
                out.fail(f"scale-dependence/{sc}/{pos}", f"interpolating at the same instant expressed in {sc} instead of {own} gives another state",
                         inp, observed=a.tolist(), expected=b.tolist())
            elif not (r.date == dq if exact else abs((r.date - dq).total_seconds()) <= 2e-6):
                out.fail(f"scale-dependence/{sc}/date", "the interpolated point is not dated at the requested instant", inp, observed=str(r.date), expected=str(dq))


def alias_case(out, rng):
    """get a point from the ephemeris through every API that computes one (interpolate, propagate, iter(dates=…), iter(step=…),
    iter() without step, ephem()), at a node or between nodes; it must be none of the recorded objects, and converting / overwriting
    it in place must leave the table and every later answer unchanged"""
    import numpy as np
    from beyond.orbits import Ephem
    from beyond.dates import timedelta
    d0 = base_date()
    kep, period, sma, ecc = kepler_ephem(rng)
    method = rng.choice(["lagrange", "lagrange", "linear"])
    order = rng.choice([2, 3, 8, 8, 9])
    n = rng.randint(max(order, 3), 20)
    step = q(period / 100, 1.0)
    times = [q(i * step) for i in range(n)]
    pts = [kep.propagate(d0 + timedelta(seconds=t)).copy(form="cartesian") for t in times]
    eph = Ephem(pts, method=method, order=order)
    warm = rng.random() < 0.5
    if warm:
        error_kind(lambda: eph.interpolate(d0 + timedelta(seconds=gen_query(rng, times, "interior")[0])))
    api = rng.choice(["interpolate", "interpolate", "propagate", "iter-dates", "iter-step", "iter-plain", "ephem"])
    where = rng.choice(["node", "node", "first-node", "last-node", "interior", "first", "last"])
    j = 0 if where == "first-node" else n - 1 if where == "last-node" else rng.randrange(n)
    t, pos = (times[j], "node") if where.endswith("node") else gen_query(rng, times, where)
    if api in ("iter-plain", "ephem"):
        t, pos = times[j], "node"
    dq = d0 + timedelta(seconds=t)
    inp = {"kep": list(map(float, kep)), "times": times, "t": t, "method": method, "order": order, "api": api, "interpolated_before": warm}
    get = {"interpolate": lambda: eph.interpolate(dq), "propagate": lambda: eph.propagate(dq),
           "iter-dates": lambda: list(eph.iter(dates=[dq]))[0],
           "iter-step": lambda: list(eph.iter(start=dq, stop=dq, step=timedelta(seconds=step)))[0],
           "iter-plain": lambda: [o for o in eph.iter() if o.date == dq][0],
           "ephem": lambda: [o for o in eph.ephem() if o.date == dq][0]}[api]
    r = guarded(out, f"inside-refused/{api}/{pos}", inp, get)
    if r is None:
        return
    out.count(key=("alias", api, method, order, sma, t, warm), kind=f"new-object-{api}-{pos}", method=method)
    if any(r is o for o in eph._orbits):
        out.fail(f"result-is-recorded-point/{api}/{pos}", f"Ephem.{api} hands out the recorded point itself, not a new object", inp,
                 observed="the very element of the table", expected="a new object")
        return
    snap = [(np.array(o, dtype=float), str(o.form), str(o.frame), o.date) for o in eph._orbits]
    before = guarded(out, f"inside-refused/{api}/{pos}", inp, lambda: eph.interpolate(dq))
    t2, pos2 = gen_query(rng, times, "interior")
    before2 = guarded(out, f"inside-refused/interpolate/{pos2}", inp, lambda: eph.interpolate(d0 + timedelta(seconds=t2)))
    if before is None or before2 is None:
        return
    how = rng.choice(["form", "frame", "values"])
    if how == "form":
        r.form = "keplerian"
    elif how == "frame":
        r.frame = "ITRF"
    else:
        r[:] = np.asarray(r, dtype=float) * 2.0 + 1.0
    same_table = all(np.array_equal(np.asarray(o, dtype=float), a) and str(o.form) == fo and str(o.frame) == fr and o.date == da
                     for o, (a, fo, fr, da) in zip(eph._orbits, snap))
    after = guarded(out, f"inside-refused/{api}/{pos}", inp, lambda: eph.interpolate(dq))
    after2 = guarded(out, f"inside-refused/interpolate/{pos2}", inp, lambda: eph.interpolate(d0 + timedelta(seconds=t2)))
    if after is None or after2 is None:
        return
    same_answer = all(np.array_equal(np.asarray(a, dtype=float), np.asarray(b, dtype=float)) and str(a.form) == str(b.form) and str(a.frame) == str(b.frame)
                      for a, b in ((before, after), (before2, after2)))
    if not (same_table and same_answer):
        out.fail(f"result-aliases-table/{api}/{how}", f"changing in place ({how}) the point received from Ephem.{api} changes the ephemeris", dict(inp, t2=t2),
                 observed={"table_unchanged": same_table, "answers_unchanged": same_answer}, expected="table and answers unchanged")


def history_case(out, rng):
    """`reply_function_of_current_values` on the real class: a random history of interpolations, reads of `ephem.interp`,
    `ephem.order = …`, `ephem.method = …`, `ephem.frame = …`, `ephem.form = …` (in any order, before and after the interpolator
    exists) on ONE Ephem; after every step `ephem.method` / `ephem.order` read back what was set last, and every interpolation
    equals, bit for bit and label for label, that of a brand new Ephem built from copies of the current points with the current
    method and order. Tables in every sampling style."""
    import numpy as np
    from beyond.orbits import Ephem
    from beyond.dates import timedelta
    d0 = base_date()
    kep, period, sma, ecc = kepler_ephem(rng)
    m0 = rng.choice([None, None, "lagrange", "linear"])
    k0 = rng.choice([None, None, 2, 4, 8, 11])
    n = rng.choice([13, rng.randint(9, 30), rng.randint(3, 9)])
    hs = gen_steps(rng, n, 1.0, rng.choice(STYLES))
    step = q(period / 100, 1.0)
    times = [0.0]
    for h in hs:
        times.append(q(times[-1] + max(step * h / max(hs), 0.25)))
    pts = [kep.propagate(d0 + timedelta(seconds=t)).copy(form="cartesian") for t in times]
    eph = Ephem(pts, method=m0, order=k0)
    method, order = m0 or "lagrange", 8 if k0 is None else k0
    live = getter_reported = False
    hist, since = [], set()        # since: kinds of operations performed while the interpolator existed
    inp = {"kep": list(map(float, kep)), "times": times, "method0": m0, "order0": k0}
    nops = rng.randint(4, 10)
    for k in range(nops):
        op = rng.choice(["interp", "interp", "order", "method", "frame", "form", "touch"]) if k < nops - 1 else "interp"
        if op == "touch":
            kind, _ = error_kind(lambda: eph.interp)
            hist.append("ephem.interp")
            live = True
        elif op == "order":
            order = rng.choice([k2 for k2 in (2, 3, 4, 5, 7, 8, 9, 12) if k2 != order])
            eph.order = order
            hist.append(f"ephem.order = {order}")
            since.add("order-set") if live else None
        elif op == "method":
            method = "linear" if method == "lagrange" else "lagrange"
            eph.method = method
            hist.append(f"ephem.method = {method!r}")
            since.add("method-set") if live else None
        elif op in ("frame", "form"):
            cur = str(getattr(eph, op))
            new = rng.choice([v for v in (("EME2000", "ITRF", "MOD", "TEME") if op == "frame" else ("cartesian", "keplerian", "spherical")) if v != cur])
            kind, e = error_kind(lambda: setattr(eph, op, new))
            hist.append(f"ephem.{op} = {new!r}")
            if kind != "ok":
                out.fail(f"conversion-refused/{op}", f"`ephem.{op} = {new!r}` raises", dict(inp, history=list(hist)), observed=kind + ": " + str(e)[:200], expected="converted in place")
                return
            since.add(op + "-conversion") if live else None
        else:
            t, pos = gen_query(rng, times)
            dq = d0 + timedelta(seconds=t)
            hist.append(f"interpolate(t={t})")
            fresh = Ephem([o.copy() for o in eph._orbits], method=method, order=order)
            ka, a = error_kind(lambda: eph.interpolate(dq))
            kb, b = error_kind(lambda: fresh.interpolate(dq))
            live = True
            out.count(key=("history", sma, tuple(hist)), kind="history-" + ("+".join(sorted(since)) or "no-change-while-live"), nontrivial=ka == "ok", pos=pos)
            fam = "+".join(sorted(since)) or "no-change-while-live"
            if ka != kb or (ka == "ok" and not (np.array_equal(np.asarray(a, dtype=float), np.asarray(b, dtype=float))
                                                 and (str(a.form), str(a.frame), a.date) == (str(b.form), str(b.frame), b.date))):
                out.fail(f"history-vs-fresh/value/{fam}",
                         f"after the history the ephemeris does not interpolate like a new Ephem of its current points with method={method!r}, order={order}",
                         dict(inp, history=list(hist), t=t),
                         observed=ka if ka != "ok" else [str(a.form), str(a.frame)] + np.asarray(a, dtype=float).tolist(),
                         expected=kb if kb != "ok" else [str(b.form), str(b.frame)] + np.asarray(b, dtype=float).tolist())
                return
        got = (str(eph.method).lower(), eph.order)
        if got != (method, order) and not getter_reported:
            getter_reported = True
            fam = "+".join(sorted(since)) or "no-change-while-live"
            out.fail(f"history-vs-fresh/getter/{fam}", "`ephem.method` / `ephem.order` do not read back what was set last (or given at construction)",
                     dict(inp, history=list(hist)), observed=list(got), expected=[method, order])


def setter_case(out, rng):
    """interpolate with (method1, order k1); set ephem.order = k2 and/or ephem.method; interpolate in the same interval(s):
    must equal a fresh Ephem built with the final method / order on the same points; the same on a bare Interp"""
    import numpy as np
    from beyond.orbits import Ephem
    from beyond.utils.interp import Interp
    from beyond.dates import timedelta
    d0 = base_date()
    k1 = rng.choice([2, 2, 3, 4, 8, 8, 12])
    k2 = rng.choice([k for k in (2, 3, 4, 5, 7, 8, 9, 12) if k != k1])
    m1 = rng.choice(["lagrange", "lagrange", "lagrange", "linear"])
    m2 = rng.choice(["lagrange", "lagrange", "linear"]) if rng.random() < 0.4 else m1
    n = rng.choice([max(k1, k2), max(k1, k2) + rng.randint(0, 20), max(2, min(k1, k2) + rng.randint(0, 3))])
    times, step, style = gen_times(rng, n)
    coef = [[rng.uniform(-1, 1) * (7e6 if c < 3 else 7e3) for _ in range(8)] for c in range(6)]
    span = times[-1] - times[0]
    coords = [[sum(a * ((t - times[0]) / span) ** k for k, a in enumerate(cs)) for cs in coef] for t in times]
    warm = rng.random() < 0.75
    visited = [gen_query(rng, times, w) for w in rng.sample(["first", "last", "interior", "interior", "second", "node"], 3)]
    again = []
    for t, pos in visited:
        i = max(0, max(j for j in range(n) if times[j] <= t) if t < times[-1] else n - 2)
        i = min(i, n - 2)
        t2 = q(times[i] + rng.uniform(0.05, 0.95) * (times[i + 1] - times[i]))
        again += [(t, pos), (t2, pos)]
    again.append(gen_query(rng, times, "interior"))
    inp = {"times": times, "coef": coef, "method1": m1, "order1": k1, "method2": m2, "order2": k2, "interpolated_before": warm,
           "visited": [v[0] for v in visited]}
    # --- Ephem
    eph = mk_ephem(times, coords, m1, k1)
    if warm:
        for t, pos in visited:
            error_kind(lambda: eph.interpolate(d0 + timedelta(seconds=t)))
    eph.order = k2
    if m2 != m1:
        eph.method = m2
    fresh = mk_ephem(times, coords, m2, k2)
    what = ("order" if True else "") + ("+method" if m2 != m1 else "")
    for t, pos in again:
        dq = d0 + timedelta(seconds=t)
        ka, a = error_kind(lambda: eph.interpolate(dq))
        kb, b = error_kind(lambda: fresh.interpolate(dq))
        out.count(key=("setter", k1, k2, m1, m2, warm, times[0], t), kind=f"setter-ephem-{'warm' if warm else 'cold'}", change=what)
        if ka != kb or (ka == "ok" and not np.array_equal(np.asarray(a, dtype=float), np.asarray(b, dtype=float))):
            out.fail(f"setter-not-honoured/ephem-{what}/{'visited-interval' if warm else 'before-first-interpolation'}",
                     f"after `ephem.order = {k2}`" + (f", `ephem.method = {m2!r}`" if m2 != m1 else "") + f" (was {m1}/{k1}) the ephemeris does not interpolate like one built with {m2}/{k2}",
                     dict(inp, t=t), observed=ka if ka != "ok" else np.asarray(a, dtype=float).tolist(), expected=kb if kb != "ok" else np.asarray(b, dtype=float).tolist())
            break
    # --- bare Interp, `order` attribute
    xs = np.array([58849.0 + t / 86400.0 for t in times])
    ys = np.array(coords)
    if all(a < b for a, b in zip(xs, xs[1:])):
        f = Interp(xs, ys, "lagrange", k1)
        if warm:
            for t, pos in visited:
                error_kind(lambda: f(58849.0 + t / 86400.0))
        f.order = k2
        g = Interp(xs, ys, "lagrange", k2)
        for t, pos in again:
            x = 58849.0 + t / 86400.0
            ka, a = error_kind(lambda: f(x))
            kb, b = error_kind(lambda: g(x))
            out.count(key=("setter-interp", k1, k2, warm, float(xs[0]), x), kind=f"setter-interp-{'warm' if warm else 'cold'}")
            if ka != kb or (ka == "ok" and not np.array_equal(np.asarray(a), np.asarray(b))):
                out.fail(f"setter-not-honoured/interp-order/{'visited-interval' if warm else 'before-first-call'}",
                         f"after `interp.order = {k2}` (was {k1}) the interpolator does not behave like Interp(..., order={k2})",
                         {"xs": list(map(float, xs)), "ys": ys.tolist(), "order1": k1, "order2": k2, "visited": [58849.0 + v[0] / 86400.0 for v in visited], "x": float(x)},
                         observed=ka if ka != "ok" else np.asarray(a).tolist(), expected=kb if kb != "ok" else np.asarray(b).tolist())
                break


def stale_case(out, rng):
    """interpolate, change the frame or the form of the ephemeris, interpolate again: the second result must be
    the one a freshly built ephemeris (same points, new frame/form) gives"""
    import numpy as np
    from beyond.orbits import Ephem
    from beyond.dates import timedelta
    kep, period, sma, ecc = kepler_ephem(rng)
    step = q(period / 100, 1.0)
    n = rng.randint(9, 20)
    d0 = base_date()
    times = [i * step for i in range(n)]
    pts = [kep.propagate(d0 + timedelta(seconds=t)).copy(form="cartesian") for t in times]
    t, pos = gen_query(rng, times)
    dq = d0 + timedelta(seconds=t)
    what = rng.choice(["form", "frame"])
    new = rng.choice(["keplerian", "spherical"]) if what == "form" else rng.choice(["ITRF", "MOD", "TEME"])
    for warm in (False, True):
        eph = Ephem([p.copy() for p in pts])
        inp0 = {"kep": list(map(float, kep)), "times": times, "t": t, "new": new, "interpolated_before": warm}
        if warm and guarded(out, f"inside-refused/stale-scenario/{pos}", inp0, lambda: eph.interpolate(dq)) is None:
            continue
        if what == "form":
            eph.form = new
        else:
            eph.frame = new
        r = guarded(out, f"inside-refused/after-{what}-set/{pos}", inp0, lambda: eph.interpolate(dq))
        fresh = guarded(out, f"inside-refused/fresh/{pos}", inp0, lambda: Ephem([p.copy() for p in eph]).interpolate(dq))
        if r is None or fresh is None:
            continue
        out.count(key=("stale", what, new, warm, sma, t), kind=f"after-{what}-change-{'warm' if warm else 'cold'}")
        label_ok = str(getattr(r, what)) == new
        a, b = np.asarray(r, dtype=float), np.asarray(fresh, dtype=float)
        if not label_ok:
            out.fail(f"frame-form-not-kept/after-{what}-set", f"after setting the ephemeris' {what} the interpolated point carries another {what}",
                     {"kep": list(map(float, kep)), "times": times, "t": t, "new": new, "interpolated_before": warm}, observed=str(getattr(r, what)), expected=new)
        elif not np.allclose(a, b, rtol=1e-9, atol=1e-6):
            fam = f"stale-interpolator-after-{what}-set" if warm else f"wrong-after-{what}-set/cold"
            out.fail(fam, f"after `ephem.{what} = {new!r}` an ephemeris that had been interpolated before returns the OLD coordinates labelled with the new {what}",
                     {"kep": list(map(float, kep)), "times": times, "t": t, "new": new, "interpolated_before": warm}, observed=a.tolist(), expected=b.tolist())


def replay(f):
    """re-run the oracle sweep (same seed as the quick tier) and keep the failures of the recorded family only"""
    ctx = core.Ctx(ID, "quick", int(os.environ.get("VERIF_SEED", "0") or 0))
    out = oracle(ctx, True)
    out.failures = [x for x in out.failures if x["family"] == f["family"]]
    return out
