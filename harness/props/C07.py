"""C07 — SGP4 propagation equals the reference SGP4 theory."""
import contextlib
import datetime as _dt
import math
import os

import ast

from harness import core, py2lean, py2lean_ext, instantiate
from harness.core import Outcome, f2b, b2f

ID = "C07"
LEAN_TARGETS = ["BeyondVerif.Props.C07", "BeyondVerif.Props.C07Native"]
THEOREMS = [
    "BeyondVerif.C07.wrapper_eq_reference",
    "BeyondVerif.C07.wrapper_timedelta",
    "BeyondVerif.C07.wrapper_instant_eq_reference",
    "BeyondVerif.C07.elapsed_route_eq_iff",
    "BeyondVerif.C07.elapsed_route_error",
    "BeyondVerif.C07.fields_valid",
    "BeyondVerif.C07.fields_denote_instant",
    "BeyondVerif.C07.fields_jday",
    "BeyondVerif.C07.time_resolution",
    "BeyondVerif.C07.history_reply_eq_fresh",
    "BeyondVerif.C07.history_reply_eq_fresh_new",
    "BeyondVerif.C07.bind_key_covers_regen",
    "BeyondVerif.C07.native_reply_eq_fresh",
    "BeyondVerif.C07.native_reply_eq_fresh_new",
    "BeyondVerif.C07.native_fresh_reply",
    "BeyondVerif.C07.native_init_per_instance",
    "BeyondVerif.C07.beta_frame_orthonormal",
    "BeyondVerif.C07.beta_kepler_residual",
    "BeyondVerif.C07.beta_kepler_residual_abs",
    "BeyondVerif.C07.beta_gravity_constants",
    "BeyondVerif.C07.beta_a0_reference",
    "BeyondVerif.C07.beta_a0_kepler_law",
    "BeyondVerif.C07.beta_consts_reference",
    "BeyondVerif.C07.beta_unkozai_reference",
    "BeyondVerif.C07.beta_s4_reference",
    "BeyondVerif.C07.beta_drag_coef_reference",
    "BeyondVerif.C07.beta_ecc_coef_reference",
    "BeyondVerif.C07.beta_d_reference",
    "BeyondVerif.C07.beta_dot_reference",
    "BeyondVerif.C07.beta_nodecf_reference",
    "BeyondVerif.C07.beta_init_reference",
    "BeyondVerif.C07.beta_secular_reference",
    "BeyondVerif.C07.beta_deltaM_guard",
    "BeyondVerif.C07.beta_elements_reference",
    "BeyondVerif.C07.beta_long_reference",
    "BeyondVerif.C07.beta_kepler_fuel",
    "BeyondVerif.C07.kepler_unit",
    "BeyondVerif.C07.beta_short_reference",
    "BeyondVerif.C07.beta_frame_reference",
    "BeyondVerif.Sgp4Wrap.ord2ymd_spec",
    "BeyondVerif.Sgp4Wrap.jday_ymd2ord",
]
LEVEL_TEXT = ("Lean theorems: (1) default propagator with the sgp4 package as a parameter: for every library, TLE text and date the wrapper returns 1000 x the "
              "library's result on the original lines and the UTC calendar tuple of the instant (given C12's parse/write identity as hypothesis); the tuple "
              "(CPython's ord2ymd, modelled branch for branch) is a valid civil date that denotes the instant exactly for every date from year 1, and the "
              "library's own Julian-day formula reads it back correctly for 1901-2099; with the date as an instant (TAI clock, TAI-UTC of its own day) the tuple is the UTC reading of that instant "
              "whatever the epoch (wrapper_instant_eq_reference), and 'epoch's UTC datetime + elapsed time' is that reading iff TAI-UTC is the same at epoch and date (elapsed_route_eq_iff: "
              "across an inserted second it is off by exactly the inserted seconds); exact correspondence of the arguments really handed to the library, under three Earth-orientation "
              "environments (leap-second table, constant, none); "
              "the binding logic (orbit setter, _state, _bound_to) as a state machine over a MUTABLE orbit: after any history of in-place edits and propagations the reply is "
              "that of a fresh propagator on the values the orbit holds now (history_reply_eq_fresh), the statements of Sgp4 being read from the AST (any other shape or member "
              "is refused) and 'every input Tle.from_orbit reads is a label or is covered by the key _state compares' decided on sets regenerated from sgp4.py and tle.py. "
              "(2o) the native propagator as OBJECTS: a state machine whose state is per instance; after any interleaving of bindings, re-bindings, copies and propagations of any number of "
              "instances the reply of an instance is that of a fresh instance bound to the same orbit (native_reply_eq_fresh), given that the Init() object is created by the setter — "
              "read from the AST on every run (native_init_per_instance; with a class-level Init the model is the shared-storage machine and the theorem does not apply). "
              "(2) native Sgp4Beta translated from its Python AST on every run, cut into 12 pieces: orthonormal frame, Kepler loop exit => Newton correction "
              "< 1e-12 for every fuel, WGS-72 constants, a0 = (k_e/n0'')^(2/3). (3) native model = reference theory over R, piece by piece, against a "
              "hand-written transcription of python-sgp4's _initl/sgp4init/sgp4 near-Earth path (templates/Sgp4Ref.tpl) that is itself compared with the "
              "package field by field on every run: un-Kozai, s/q0 switches at 156/98 km, C1 C3 C4 C5 D2-D4, secular rates, the whole initialisation "
              "composed (beta_init_reference), secular+drag update with the guard 'delta_M applied iff e0 > 1e-4' pinned for all inputs, mean elements "
              "at t (1e-6 floor, node, a, longitude up to whole turns), long-period terms with the 180-degree guard, short-period terms (unit-vector "
              "identity of atan2's arguments proved), frame x1000. Correspondences 1e-9 relative; 'native = reference within 1 cm' end to end is the oracle.")
LEVEL_NOTE = ("proof (partial): the two Kepler iterations are not equated (the reference clips corrections to 0.95 and applies the last one; both stop below 1e-12 - "
              "the residual bound is a theorem), the compositions of propagate are plumbing tied by the correspondences, the reference's deep-space code and error exits "
              "stay inside the library parameter; TLE text regeneration is C12's (hypothesis here); both past findings are fixed in /repo and pinned in corpus/C07_pinned.json; "
              "R -> double gap covered by tolerance-bounded correspondences; Lean kernel + propext/Classical.choice/Quot.sound; py2lean translator and harness trusted")
TECHNIQUE = ("Lean 4 proof: omega/decide on a branch-for-branch model of CPython's calendar split; ring / field_simp / linear_combination / induction on fuel / norm_num on formulas "
             "translated from the Python AST, equated with a hand-written transcription of the reference implementation; exact and tolerance differential correspondences "
             "(model vs Sgp4Beta, spec vs python-sgp4, wrapper arguments); directed generator hitting every guard of both implementations from both sides and every exact "
             "field boundary, with the branch distribution observed on the real code by a line tracer; oracle against python-sgp4 called directly")
TRUSTED = [
    "harness/py2lean.py + harness/py2lean_ext.py: translate Sgp4Beta.orbit (setter) and Sgp4Beta.propagate (attribute renaming, componentwise numpy 3-vectors, the for/break loop as fuel recursion, "
    "cut into pieces) and the gravity class named by Sgp4Beta.MODEL into Generated/Sgp4Beta{F,R}.lean on every run; statements not translated are an explicit list of exact source lines "
    "(date handling, object construction) and any other statement makes the extraction fail",
    "lean/templates/Sgp4Ref.tpl (hand-written transcription of sgp4/propagation.py: _initl, sgp4init, sgp4 for method 'n'), tied to the installed package by the correspondence run "
    "(24 satellite-record fields incl. isimp and the deep-space switch, mean elements am em om Om mm after a call, state; rtol 1e-9)",
    "harness/props/C07.py gen_wrap_bind: compares the statement lists of Sgp4.orbit (getter, setter) and Sgp4.propagate with the modelled ones (exact, via ast.unparse), refuses further members, "
    "reads the key of Sgp4._state and the read-set of Tle.from_orbit into Generated/Sgp4WrapBind.lean",
    "lean/BeyondVerif/Model/Sgp4Wrap.lean (hand-written: CPython ord2ymd, strftime fields, wrapper control flow, binding state machine), tied by the exact correspondence run (arguments intercepted between beyond and the sgp4 package, stub and real library)",
    "the third-party package sgp4 2.27 (twoline2rv, Satellite.propagate, sgp4.propagation.sgp4) as the reference implementation of Vallado's SGP4/SDP4, WGS-72",
    "CPython: datetime arithmetic, strftime, float(decimal text) correctly rounded (checked equal to Lean's Float.ofScientific on every sampled value); sys.settrace line events (branch distribution in the evidence only)",
    "numpy / libm double arithmetic vs R: tolerance 1e-9 relative",
]
ASSUMPTIONS = [
    "wrapper_eq_reference takes 'regenerating the TLE text of the parsed orbit reproduces the original lines' (C12 parse_write_id) as a hypothesis; the correspondence counts how often it held (lines=identical/differ) and the oracle compares states in any case",
    "a date enters the wrapper model as the integer microsecond count of date.change_scale('UTC').datetime; that two labels of one instant give counts within 1 us is C04/C03's (oracle here: label independence within |v| x 50 us)",
    "Earth-orientation data in the harness process, three environments: `leap` (default; TAI-UTC = the leap-second table 1972-2017 written in the harness and compared with the repository's "
    "tests/data/pole/tai-utc.dat, UT1-UTC = -0.1234567 s), `const` (TAI-UTC = 37 s everywhere), `zero` (the repository's default without a database); epochs are drawn next to inserted seconds "
    "(eve, day after, +-20 d) and requests on the other side of them; within 2 minutes of an inserted second requests are made with UTC dates only (clock readings of other scales are ambiguous "
    "there: the library's documented limitation, property C03 — e.g. the UT1 label of exactly 00:00:00 UTC of such a day carries the old TAI-UTC)",
    "the native model's time since epoch is the elapsed time between the instants (`date - self.tle.date`, commit c0975d9); the reference is evaluated at that same time since epoch "
    "(harness: calendar difference + inserted seconds from its own table). The reference LIBRARY's calendar route ignores inserted seconds, so across one the default propagator and the native one "
    "are one second of motion apart by construction; the property's 'same state as the reference' for the native model is read at equal time since epoch",
    "theorems about the native model are over R; the implementation computes in IEEE doubles",
    "fields_jday is exact integer arithmetic; the library evaluates its formula in doubles (resolution 40 us at JD 2.45e6: the property's |v| x 50 us)",
    "hypotheses of the native = reference theorems: e0^2 < 1, eta^2 < 1 (eta = a0 e0/(a0 - s); true whenever the perigee is above s = 78 km .. 20 km), a0 != 0, a > 0, mu != 0, 1 - e cos E != 0, "
    "axN^2 + ayN^2 < 1 — all true in the property's domain (perigee >= 220 km); the reference's error exits (mean e >= 1 or < -0.001, nm <= 0, pl < 0, decayed) are not modelled",
]
NOT_COVERED = [
    "'the native SGP4 returns the same state as the reference within 1 cm' END TO END is the S-oracle (native vs sgp4.propagation.sgp4 at the same minutes since epoch, tolerance 1 cm + |v| x 1 us): "
    "the theorems equate every piece over R except the Kepler iteration, and the R -> double gap of each side is only bounded by the 1e-9 correspondences; 1 cm is 1.4e-9 of the radius",
    "the two Kepler iterations are not equated: the reference clips each correction to 0.95 and applies the last one, the native loop does neither; theorem: leaving the native loop through `break` means a Newton correction below 1e-12; "
    "the generators reach loop exhaustion (10 passes) only outside the property's domain (tallied)",
    "the SGP4/SDP4 theory itself (inside the library parameter `lib`), including deep-space resonance and lunar-solar terms and the reference's simplified drag model below 220 km (the native model has no such switch; outside the clause)",
    "objects whose drag polynomial changes the semi-major axis by more than 2 % (oracle) / 20 % (correspondences) within the interval are excluded from the native comparisons (tallied)",
    "Sgp4Beta used through Orbit.propagate (orbit.propagator = Sgp4Beta()): not usable at all in the current source (its `orbit` getter reads `_orbit`, which its setter never sets: AttributeError) — "
    "the native clause is observed at Sgp4Beta.propagate, as the property says",
    "the compositions sgp4Prop / refSgp4 (which output of one piece is handed to the next) are generated / hand-written plumbing: tied by the correspondences, composed in a theorem only for the initialisation (beta_init_reference)",
    "history_reply_eq_fresh takes 'the compared key determines the library's answer for the regenerated text' as hypothesis: its syntactic side is bind_key_covers_regen (read-sets from the AST), "
    "that label fields do not move the state and that Tle.from_orbit / StateVector attribute writes behave as read is the history oracle's (sources x edited inputs x propagations, expected = python-sgp4 on "
    "lines the harness writes from the current values); unpickled orbits: open finding C07-unpickled-orbit-frame-identity",
    "double rounding of the seconds field beyond 'within 2^-48 s' (time_resolution takes the half-microsecond bound as hypothesis)",
]
OPEN = [
    "Hinnant days_from_civil as a third independent reading of the tuple was planned and not done (ymd2ord and the library's jday are proved)",
    "a composed theorem 'sgp4Prop = 1000 x refSgp4 whenever both Kepler loops return the same eccentric longitude' was not written (all pieces are proved)",
]
RULE = ("all streams run under the leap-second Earth-orientation environment (oracle: leap / const / zero drawn 3:1:1 per case, pinned corpus under all three; replays carry `eop`). "
        "correspondence: (a) 700/20000 edge datetimes 1957-2056 x 5 labels through the real Sgp4 with a stub library (epoch 2017-04-10: every date before 2017 is across inserted seconds; "
        "model asked as `sgp4utc <TAI clock> <TAI-UTC of the day from the harness's table>`), (b) 300/8000 generated catalogue-like TLEs (all inclinations, e<=0.9, "
        "0.5-16.5 rev/day, |B*|<=1e-2, epochs 1973-2017, +-30 d, date or timedelta argument) through the real Sgp4 with the installed sgp4 package: arguments handed to twoline2rv / "
        "satrec.propagate intercepted and compared exactly with the model tuple, result compared bit for bit with 1000 x library(model tuple); (c) 3/24 rounds of the directed generator "
        "(one TLE per FEATURE: every guard of sgp4beta.py and of the reference's sgp4init from both sides at field resolution, every exact field boundary) + 500/12000 catalogue-like TLEs x 2 dates: "
        "Sgp4Beta init values and state vs the compiled Lean translation, rtol 1e-9; both sides of every guard of the current source must have been taken (guards read from the AST, taken side "
        "observed by a line tracer on the real code) or the correspondence fails; (d) the same streams: reference spec vs python-sgp4 (record fields, mean elements, state), rtol 1e-9. "
        "(e) 240/1920 histories (12 ways of obtaining the orbit x 15 edited inputs singly, then combinations; before/after a first propagation; edit back) on real Orbit/Sgp4 objects with "
        "twoline2rv intercepted, against the Lean state machine: the setter runs exactly when the model says and the lines handed over are those the harness writes from the values of the version the model names. "
        "(f) 60/1200 histories of 2-3 Sgp4Beta instances and 2-3 orbits alive at once (bind, re-bind, shallow copy, propagate, interleaved) against Sgp4Inst.runSeq: per propagation the "
        "model names the orbit whose elements and the orbit whose cached constants are used, the real reply must be bit for bit that combination. "
        "non-trivial = offset != 0; distinct = distinct request. oracle: the native instance histories (reply = fresh instance bit for bit, = reference within 1 cm), epoch years over the whole "
        "two-digit field (57-68, 69-99, 00-56) with orbit.date == epoch parsed independently (pivot 57) and requests relative to the orbit (timedelta, orb.date + dt, iter) compared with the "
        "reference at the harness's own epoch + offset, the same histories end to end (state vs python-sgp4 on harness-written lines of the current values, |v| x 50 us), pinned corpus, 4/24 rounds of the directed generator, 220/2500 catalogue-like TLEs: default propagator vs sgp4 called directly on the "
        "original lines and independently computed UTC fields (|v| x 50 us), timedelta argument, label independence (UTC/TAI/TT/GPS/UT1), 3-line TLEs, native vs reference theory 1 cm in the full "
        "near-Earth domain; branch distribution of the native code, the wrapper and the reference record in the evidence (keys branch*)")

MU_KM = 398600.8          # WGS-72, km^3/s^2 (generator only: perigee heights of the generated TLEs)
RE_KM = 6378.135
T0 = _dt.datetime(1, 1, 1)
US = _dt.timedelta(microseconds=1)


# ---------------------------------------------------------------- extraction: sgp4beta.py -> Generated/Sgp4Beta{F,R}.lean

BETA_PY = os.path.join(core.REPO, "beyond", "propagators", "sgp4beta.py")
INIT_FIELDS = ["A30", "k2", "a0", "n0", "s", "q0", "θ", "ξ", "β_0", "η", "C1", "C3", "C4", "C5", "D2", "D3", "D4", "Mdot", "ωdot", "Ωdot"]
ELEMS = ["i0", "Ω0", "e0", "ω0", "M0", "n0", "bstar"]
# statements of the source that are not arithmetic and are modelled elsewhere (exact text; anything else must translate)
SKIP_INIT = ["if orbit.form != TLE:\n    raise TypeError('Not TLE')", "self.gravity = self.MODEL", "self.tle = orbit", "self._init = Init()",
             "i0, Ω0, e0, ω0, M0, n0 = self.tle", "bstar = self.tle.bstar"]
SKIP_PROP = ["i0, Ω0, e0, ω0, M0, n0 = self.tle", "bstar = self.tle.bstar", "_i = self._init",
             "data = self.tle._data.copy()", "data['date'] = date", "data['form'] = 'cartesian'", "data['propagator'] = self.__class__()",
             "return self.tle.__class__(vector, **data)"]


def _body(fn, skip, extra_skip=lambda st: False):
    out, seen = [], set()
    for st in fn.body:
        if isinstance(st, ast.Expr) and isinstance(st.value, ast.Constant):
            continue
        txt = ast.unparse(st)
        if txt in skip:
            seen.add(txt)
            continue
        if extra_skip(st):
            seen.add("<extra>")
            continue
        out.append(st)
    missing = [t for t in skip if t not in seen]
    if missing:
        raise py2lean.Untranslatable(f"expected statements not found in the source: {missing}")
    return out


def beta_source():
    tree = ast.parse(open(BETA_PY).read())
    cls = py2lean.find_function(tree, "Sgp4Beta")
    model = next(ast.unparse(st.value) for st in cls.body if isinstance(st, ast.Assign) and st.targets[0].id == "MODEL")
    setter = next(n for n in cls.body if isinstance(n, ast.FunctionDef) and n.name == "orbit" and any("setter" in ast.unparse(d) for d in n.decorator_list))
    prop = next(n for n in cls.body if isinstance(n, ast.FunctionDef) and n.name == "propagate")
    return tree, model, setter, prop


def gen_beta():
    tree, model, setter, prop = beta_source()
    parts = []
    # 1. gravity constants of the class named by Sgp4Beta.MODEL, as written in the source (k_e stays an expression)
    gcls = py2lean.find_function(tree, model)
    tr0 = py2lean.Tr()
    gnames = []
    for st in gcls.body:
        if isinstance(st, ast.Assign):
            n = st.targets[0].id
            val = py2lean_ext.Rename({}).visit(st.value)
            for g in gnames:     # class-scope references to earlier constants
                val = _subst(val, g, "g_" + g)
            parts.append(f"def g_{n} : R := {tr0.expr(val)}")
            gnames.append(n)
    if sorted(gnames) != sorted(["μ_e", "r_e", "k_e", "j2", "j3", "j4"]):
        raise py2lean.Untranslatable(f"gravity model {model} has attributes {gnames}")
    parts.append(f"/-- name of the gravity model selected by `Sgp4Beta.MODEL` -/\ndef gravityModelName : String := \"{model}\"\n")
    ren = py2lean_ext.Rename({"self._init": "i_", "_i": "i_", "self.gravity": "g_"})
    # 2. the orbit setter -> sgp4Init
    #    cut into: un-Kozai'd mean motion and semi-major axis | the s / q0 adjustment for low perigees | C1, C3 | C4, C5 | D2-D4 | secular rates
    tr = py2lean_ext.XTr()
    tr.global_names = {"g_" + g for g in gnames}
    skip_init = list(SKIP_INIT)
    if "shared" in gen_beta_inst().split("def initStorage")[1].split("\n")[0]:
        skip_init.remove("self._init = Init()")      # created in the class body: the object side (Sgp4Inst, storage = shared) models that
    body = [ren.visit(st) for st in _body(setter, skip_init)]
    fields = ["i_" + f for f in INIT_FIELDS]
    text, init_info = py2lean_ext.chunks(tr, body, ["rp", "i_θ", "i_C4", "i_D2", "i_Mdot"], ["sgp4InitKozai", "sgp4InitS", "sgp4InitDrag", "sgp4InitEcc", "sgp4InitD", "sgp4InitDot"], [], "sgp4Init", ELEMS,
                                         doc=f"`Sgp4Beta.orbit` setter: the cached `_init` values in the order {', '.join(INIT_FIELDS)}",
                                         keep=fields, compose_result="[" + ", ".join(fields) + "]")
    parts.append(text)
    # 3. propagate -> pieces
    tr = py2lean_ext.XTr()

    def is_date_block(st):
        return isinstance(st, ast.If) and "isinstance(date, Date)" in ast.unparse(st.test)
    stmts = _body(prop, SKIP_PROP, is_date_block)
    loop = next(st for st in stmts if isinstance(st, ast.For))
    tr.loop_names[id(loop)] = "keplerLoop"
    stmts = [ren.visit(st) for st in stmts]
    tr.loop_names = {id(st): "keplerLoop" for st in stmts if isinstance(st, ast.For)}
    tr.global_names = {"g_" + g for g in gnames}
    inputs = ELEMS + ["tdiff"] + ["i_" + f for f in INIT_FIELDS]
    text, info = py2lean_ext.chunks(tr, stmts, ["Mp", "β", "Epω", "ecosE", "vM"], ["sgp4Secular", "sgp4Elements", "sgp4Long", "sgp4Kepler", "sgp4Short", "sgp4Frame"], ["vector"], "sgp4Prop", inputs,
                                    doc="`Sgp4Beta.propagate` after the date handling: elements, minutes since epoch, cached init values ↦ [x, y, z, vx, vy, vz] in m, m/s")
    parts.append(text)
    parts.append("/-- setter followed by propagate -/\ndef sgp4Beta (" + " ".join(ELEMS) + " tdiff : R) : List R :=\n  match sgp4Init " + " ".join(ELEMS) + " with\n  | ["
                 + ", ".join("i_" + f for f in INIT_FIELDS) + "] => sgp4Prop " + " ".join(inputs) + "\n  | _ => []\n")
    return "\n".join(parts), tr.loop_info, init_info + info


def _subst(node, name, new):
    class S(ast.NodeTransformer):
        def visit_Name(self, n):
            return ast.copy_location(ast.Name(id=new, ctx=n.ctx), n) if n.id == name else n
    return S().visit(node)


# ---------------------------------------------------------------- extraction: sgp4.py binding logic -> Generated/Sgp4WrapBind.lean

WRAP_PY = os.path.join(core.REPO, "beyond", "propagators", "sgp4.py")
TLE_PY = os.path.join(core.REPO, "beyond", "io", "tle.py")
# the statements the wrapper model (Model/Sgp4Wrap.lean: Wrapper.run, Machine.bind, Machine.step) stands for, as source text; the extractor
# REFUSES any other shape (an added shortcut, another member of the class) instead of silently keeping the old model
EXPECT_SETTER = """
tle = Tle.from_orbit(orbit)
lines = tle.text.splitlines()
if len(lines) == 3:
    _, line1, line2 = lines
else:
    line1, line2 = lines
self.tle = twoline2rv(line1, line2, wgs72)
self._orbit = orbit
self._bound_to = self._state(orbit)
"""
EXPECT_GETTER = "return self._orbit if hasattr(self, '_orbit') else None"
EXPECT_PROPAGATE = """
if self._state(self._orbit) != self._bound_to:
    self.orbit = self._orbit
if type(date) is timedelta:
    date = self.orbit.date + date
utc = date.change_scale('UTC')
_date = [float(x) for x in f'{utc:%Y %m %d %H %M %S.%f}'.split()]
p, v = self.tle.propagate(*_date)
result = [x * 1000 for x in p + v]
res_dict = self.orbit._data.copy()
res_dict['date'] = date
res_dict['form'] = 'cartesian'
res_dict.pop('propagator')
return StateVector(result, **res_dict)
"""


def _norm(src):
    return [ast.unparse(st) for st in ast.parse(src.strip()).body]


def _stmts(fn):
    return [ast.unparse(st) for st in fn.body if not (isinstance(st, ast.Expr) and isinstance(st.value, ast.Constant))]


def gen_wrap_bind():
    tree = ast.parse(open(WRAP_PY).read())
    cls = py2lean.find_function(tree, "Sgp4")
    members = []
    fns = {}
    for n in cls.body:
        if isinstance(n, ast.Expr) and isinstance(n.value, ast.Constant):
            continue
        if not isinstance(n, ast.FunctionDef):
            raise py2lean.Untranslatable(f"class Sgp4 has a member that is not a method: {ast.unparse(n)[:60]}")
        name = n.name + (".setter" if any("setter" in ast.unparse(d) for d in n.decorator_list) else "")
        members.append(name)
        fns[name] = n
    known = ["orbit", "orbit.setter", "_state", "propagate"]
    if sorted(members) != sorted(known):
        raise py2lean.Untranslatable(f"class Sgp4 has members {members}; the wrapper model knows {known} (every other method is a path to the satellite record that is not modelled)")
    for name, expect in (("orbit", EXPECT_GETTER), ("orbit.setter", EXPECT_SETTER), ("propagate", EXPECT_PROPAGATE)):
        if _stmts(fns[name]) != _norm(expect):
            diff = [a for a in _stmts(fns[name]) if a not in _norm(expect)]
            raise py2lean.Untranslatable(f"Sgp4.{name} is not the modelled statement list; not modelled: {diff[:3]}")
    # who else writes the record / the key
    for name, fn in fns.items():
        for node in ast.walk(fn):
            if isinstance(node, ast.Attribute) and isinstance(node.ctx, ast.Store) and node.attr in ("tle", "_bound_to", "_orbit") and name != "orbit.setter":
                raise py2lean.Untranslatable(f"Sgp4.{name} assigns self.{node.attr}: only the setter may")
    # _state: the key
    st = fns["_state"]
    body = [x for x in st.body if not (isinstance(x, ast.Expr) and isinstance(x.value, ast.Constant))]
    local = {}
    for x in body[:-1]:
        if not (isinstance(x, ast.Assign) and len(x.targets) == 1 and isinstance(x.targets[0], ast.Name)):
            raise py2lean.Untranslatable(f"Sgp4._state: {ast.unparse(x)[:60]}")
        local[x.targets[0].id] = x.value
    ret = body[-1]
    if not (isinstance(ret, ast.Return) and isinstance(ret.value, ast.Tuple)):
        raise py2lean.Untranslatable("Sgp4._state does not return a tuple")
    key = []
    for e in ret.value.elts:
        e = local.get(e.id, e) if isinstance(e, ast.Name) else e
        txt = ast.unparse(e)
        if txt == "orbit.tobytes()":
            key.append("tobytes")
        elif isinstance(e, ast.Attribute) and isinstance(e.value, ast.Name) and e.value.id == "orbit":
            key.append(e.attr)
        elif (isinstance(e, ast.Call) and ast.unparse(e.func) == "tuple" and isinstance(e.args[0], ast.GeneratorExp)
              and ast.unparse(e.args[0].elt) == "orbit._data.get(k)" and isinstance(e.args[0].generators[0].iter, (ast.Tuple, ast.List))):
            key += [c.value for c in e.args[0].generators[0].iter.elts]
        else:
            raise py2lean.Untranslatable(f"Sgp4._state compares {txt[:60]}: not modelled")
    # what Tle.from_orbit reads of the orbit
    fo = py2lean.find_function(ast.parse(open(TLE_PY).read()), "Tle.from_orbit")
    reads = []
    for node in ast.walk(fo):
        r = None
        if isinstance(node, ast.Attribute) and isinstance(node.value, ast.Name) and node.value.id == "orbit" and isinstance(node.ctx, ast.Load):
            r = node.attr
        elif isinstance(node, ast.Assign) and isinstance(node.value, ast.Name) and node.value.id == "orbit":
            r = "coords"           # `i, Ω, e, ω, M, n = orbit`
        if r and r not in reads:
            reads.append(r)
    q = lambda xs: "[" + ", ".join('"' + x + '"' for x in xs) + "]"
    return ("/- GENERATED by harness/props/C07.py (gen_wrap_bind) from beyond/propagators/sgp4.py and beyond/io/tle.py — do not edit.\n"
            "The statement lists of Sgp4.orbit (getter, setter) and Sgp4.propagate were compared with the ones the wrapper model stands for\n"
            "(the extraction fails on any other shape); what is left to prove is about the two sets below. -/\n"
            "namespace BeyondVerif.Sgp4Wrap\n\n"
            f"/-- members of class Sgp4 -/\ndef sgp4Members : List String := {q(members)}\n\n"
            f"/-- what `Sgp4._state(orbit)` compares (`orbit.<name>`, `orbit._data.get(<name>)`) -/\ndef stateKeyReads : List String := {q(key)}\n\n"
            f"/-- what `Tle.from_orbit(orbit)` reads of the orbit (`coords` = the six values of `orbit.copy(form='TLE', frame='TEME')`) -/\n"
            f"def fromOrbitReads : List String := {q(reads)}\n\n"
            "end BeyondVerif.Sgp4Wrap\n")


def gen_beta_inst():
    """where the objects of Sgp4Beta keep what `propagate` reads: class body vs instance (setter) — Generated/Sgp4BetaInst.lean"""
    tree, _model, setter, prop = beta_source()
    cls = py2lean.find_function(tree, "Sgp4Beta")
    class_attrs, class_objects = [], []
    for st in cls.body:
        if isinstance(st, (ast.Assign, ast.AnnAssign)):
            targets = st.targets if isinstance(st, ast.Assign) else [st.target]
            for t in targets:
                if isinstance(t, ast.Name):
                    class_attrs.append(t.id)
                    if st.value is not None and any(isinstance(n, ast.Call) and ast.unparse(n.func) == "Init" for n in ast.walk(st.value)):
                        class_objects.append(t.id)
    def self_writes(fn):
        out = []
        for n in ast.walk(fn):
            if isinstance(n, ast.Attribute) and isinstance(n.ctx, ast.Store) and isinstance(n.value, ast.Name) and n.value.id == "self" and n.attr not in out:
                out.append(n.attr)
        return out
    def self_reads(fn):
        out = []
        for n in ast.walk(fn):
            if isinstance(n, ast.Attribute) and isinstance(n.ctx, ast.Load) and isinstance(n.value, ast.Name) and n.value.id == "self" and n.attr not in out:
                out.append(n.attr)
        return out
    in_setter = any(isinstance(st, ast.Assign) and ast.unparse(st) == "self._init = Init()" for st in setter.body)
    others = [f.name for f in cls.body if isinstance(f, ast.FunctionDef) and f is not setter
              and any(isinstance(n, ast.Call) and ast.unparse(n.func) == "Init" for n in ast.walk(f))]
    if others:
        raise py2lean.Untranslatable(f"Init() is created in {others}: not modelled")
    if in_setter and not class_objects:
        storage = "perInstance"
    elif class_objects and not in_setter:
        storage = "shared"
    else:
        raise py2lean.Untranslatable(f"Init() created in the class body as {class_objects} and in the setter: {in_setter}: not modelled")
    q = lambda xs: "[" + ", ".join('"' + x + '"' for x in xs) + "]"
    return ("/- GENERATED by harness/props/C07.py (gen_beta_inst) from beyond/propagators/sgp4beta.py — do not edit. -/\n"
            "import BeyondVerif.Model.Sgp4Inst\nnamespace BeyondVerif.Sgp4BetaInst\n\n"
            "/-- where the `Init()` object holding the constants of the setter is created: by the setter (`self._init = Init()`) or in the class body -/\n"
            f"def initStorage : BeyondVerif.Sgp4Inst.Storage := BeyondVerif.Sgp4Inst.Storage.{storage}\n\n"
            f"/-- names assigned in the body of class Sgp4Beta -/\ndef classAttrs : List String := {q(class_attrs)}\n\n"
            f"/-- `self.<name> = …` in the setter -/\ndef setterSelfWrites : List String := {q(self_writes(setter))}\n\n"
            f"/-- `self.<name>` read by propagate -/\ndef propagateSelfReads : List String := {q(self_reads(prop))}\n\n"
            "end BeyondVerif.Sgp4BetaInst\n")


def extract(ctx):
    # the object side first: it does not depend on the formulas being translatable
    ch0 = []
    if core.write_if_changed(os.path.join(core.LEAN, "BeyondVerif", "Generated", "Sgp4BetaInst.lean"), gen_beta_inst()):
        ch0.append("Generated/Sgp4BetaInst.lean")
    body, loop, info = gen_beta()
    ch0 = ch0  # noqa
    ch = ch0 + py2lean.instantiate(core.LEAN, "Sgp4Beta", body, "beyond/propagators/sgp4beta.py")
    if core.write_if_changed(os.path.join(core.LEAN, "BeyondVerif", "Generated", "Sgp4WrapBind.lean"), gen_wrap_bind()):
        ch.append("Generated/Sgp4WrapBind.lean")
    ch += instantiate.main()
    return ch


# ---------------------------------------------------------------- generated catalogue-like TLEs

def checksum(line):
    return sum(int(c) if c.isdigit() else (1 if c == "-" else 0) for c in line[:68]) % 10


def exp_field(mant, exp):
    """'decimal point assumed' field, 8 columns: sign, 5 digits, signed one-digit exponent"""
    if mant == 0:
        return " 00000-0"
    return ("-" if mant < 0 else " ") + f"{abs(mant):05d}" + (f"-{-exp}" if exp <= 0 else f"+{exp}")


def gen_tle(rng):
    """Text of a syntactically valid TLE drawn from the property's domain (written by this generator, not by beyond).
    returns (line1, line2, info)"""
    regime = rng.choice(["leo", "leo", "leo", "meo", "gto", "geo", "molniya", "any", "any", "deep-ecc"])
    if regime == "leo":
        n = rng.uniform(11.3, 16.5)
    elif regime == "meo":
        n = rng.uniform(1.8, 6.4)
    elif regime == "gto":
        n = rng.uniform(2.0, 2.6)
    elif regime == "geo":
        n = rng.uniform(0.95, 1.05)
    elif regime == "molniya":
        n = rng.uniform(1.95, 2.06)
    elif regime == "deep-ecc":
        n = rng.uniform(0.5, 6.0)
    else:
        n = rng.uniform(0.5, 16.5)
    n = round(n, 8)
    a = (MU_KM / (n * 2 * math.pi / 86400) ** 2) ** (1 / 3)
    alt_min = rng.choice([50.0, 90.0, 120.0, 170.0, 225.0, 225.0, 225.0, 300.0, 400.0])
    emax = min(0.9, 1 - (RE_KM + alt_min) / a)
    if emax <= 0:
        alt_min = 100.0
        emax = max(1 - (RE_KM + alt_min) / a, 2e-7)
    if regime in ("gto", "molniya", "deep-ecc"):
        e = rng.uniform(0.5 * emax, emax)
    else:
        r = rng.random()
        e = rng.uniform(0, 1e-4) if r < 0.12 else rng.uniform(0, min(emax, 0.01)) if r < 0.6 else rng.uniform(0, emax)
    e7 = max(0, min(int(round(e * 1e7)), int(emax * 1e7), 9000000))
    r = rng.random()
    if regime == "molniya":
        inc = rng.uniform(62.0, 65.0)
    elif r < 0.08:
        inc = rng.choice([0.0, 0.0001, 90.0, 179.9999, 180.0, 63.4349, 116.5651])
    elif r < 0.3:
        inc = rng.uniform(90, 180)
    else:
        inc = rng.uniform(0, 120)
    inc = round(inc, 4)
    raan, argp, ma = (round(rng.uniform(0, 359.9999), 4) for _ in range(3))
    year = gen_year(rng)
    ndays = 366 if year % 4 == 0 else 365
    day = round(rng.uniform(1, ndays + 0.999), 8)
    if rng.random() < 0.05:
        day = float(rng.randint(1, ndays))
    if rng.random() < 0.12:
        year, day = near_leap_epoch(rng)          # +-30 d requests then lie on either side of an inserted second
    mag = rng.choice([0, 1e-6, 1e-5, 1e-4, 1e-4, 1e-3, 1e-2])
    bstar = rng.uniform(-0.1, 1.0) * mag
    if abs(bstar) >= 1e-2:
        bstar = 0.0099999
    if bstar == 0:
        bm, be = 0, 0
    else:
        be = math.floor(math.log10(abs(bstar))) + 1
        bm = int(round(bstar / 10.0 ** be * 1e5))
        if abs(bm) >= 100000:
            bm //= 10
            be += 1
        while be < -9:          # one exponent column: smaller values are written with a non-normalised mantissa
            bm = int(bm / 10)
            be += 1
        if bm == 0:
            be = 0
    ndot = round(rng.uniform(-1e-5, 2e-4) * (n / 16) ** 2, 8)
    nddm = rng.choice([0, 0, 0, rng.choice([-1, 1]) * rng.randint(10000, 99999)])
    if nddm and rng.random() < 0.03:
        nddm //= 10          # not normalised ('decimal point assumed' with a leading zero): legal, rare in catalogues
    ndde = rng.randint(-9, -5) if nddm else 0
    norad = rng.randint(1, 99999)
    cospar = f"{rng.randint(57, 99) if rng.random() < 0.5 else rng.randint(0, 17):02d}{rng.randint(1, 999):03d}{rng.choice(['A', 'B', 'AB', 'ZZZ'])}"
    elnb = rng.randint(0, 9999)
    revs = rng.randint(0, 99999)
    ndots = f"{ndot: 0.8f}".replace("0.", ".")
    l1 = f"1 {norad:05d}U {cospar:<8} {year % 100:02d}{day:012.8f} {ndots:>10} {exp_field(nddm, ndde)} {exp_field(bm, be)} 0 {elnb:>4}"
    l2 = f"2 {norad:05d} {inc:8.4f} {raan:8.4f} {e7:07d} {argp:8.4f} {ma:8.4f} {n:11.8f}{revs:>5}"
    l1 += str(checksum(l1))
    l2 += str(checksum(l2))
    assert len(l1) == 69 and len(l2) == 69, (l1, l2)
    epoch = _dt.datetime(year, 1, 1) + _dt.timedelta(days=day - 1)
    info = {"regime": regime, "n": n, "e": e7 / 1e7, "inc": inc, "a_km": a, "perigee_km": a * (1 - e7 / 1e7) - RE_KM, "bstar": bm * 10.0 ** (be - 5),
            "year": year, "epoch": epoch}
    return l1, l2, info


def gen_offset_us(rng):
    """offset of the requested date from the epoch, integer microseconds, within +-30 days, before and after epoch"""
    r = rng.random()
    if r < 0.05:
        return 0
    if r < 0.15:
        return rng.choice([-1, 1]) * rng.randint(1, 5_000_000)
    if r < 0.3:
        return rng.choice([-1, 1]) * rng.randint(0, 30 * 1440) * 60_000_000        # whole minutes
    if r < 0.4:
        return rng.choice([-1, 1]) * rng.randint(0, 30) * 86_400_000_000           # whole days
    return rng.randint(-30 * 86_400_000_000, 30 * 86_400_000_000)


# ---------------------------------------------------------------- directed generator: branch points and exact field boundaries
#
# Both SGP4 implementations are full of guards (`e0 > 1e-4`, perigee < 156 / 98 / 220 km, the 225-minute deep-space test,
# `e < 1e-6`, `1 + cos i > 1.5e-12`, the Kepler loop exit) and of quantities that vanish *exactly* at a field boundary
# (sin i0 at 0.0000 deg, e0 at 0000000, B* at 00000-0 ...).  A uniformly drawn TLE never sits on such a value, so each of them
# is produced deliberately here: one "feature" per TLE on a base object of a chosen regime, thresholds from BOTH sides at the
# resolution of the TLE field (the two adjacent field values between which the reference's own classification flips).

def gen_year(rng):
    """epoch year: mostly the property's 1973-2017, one in six anywhere in the two-digit year field's range — 57-68 and 69-99 are 19xx,
    00-56 are 20xx (the TLE pivot; POSIX %y pivots at 69)"""
    r = rng.random()
    if r < 0.84:
        return rng.randint(1973, 2017)
    return rng.choice([rng.randint(1957, 1968), rng.randint(1969, 1972), rng.randint(2018, 2056), 1957, 1968, 1969, 2056])


def fmt_tle(p):
    """TLE text of the exact field values in `p` (written here, not by beyond)"""
    ndots = f"{p['ndot']: 0.8f}".replace("0.", ".")
    l1 = (f"1 {p['norad']:05d}U {p['cospar']:<8} {p['year'] % 100:02d}{p['day']:012.8f} {ndots:>10} {exp_field(p['nddm'], p['ndde'])} "
          f"{exp_field(p['bm'], p['be'])} 0 {p['elnb']:>4}")
    l2 = (f"2 {p['norad']:05d} {p['inc']:8.4f} {p['raan']:8.4f} {p['e7']:07d} {p['argp']:8.4f} {p['ma']:8.4f} {p['n_revday'] if 'n_revday' in p else p['n8'] / 1e8:11.8f}{p['revs']:>5}")
    l1 += str(checksum(l1))
    l2 += str(checksum(l2))
    assert len(l1) == 69 and len(l2) == 69, (l1, l2)
    return l1, l2


def _a_km(n):
    return (MU_KM / (n * 2 * math.pi / 86400) ** 2) ** (1 / 3)


def base_fields(rng, regime):
    """generic (non-boundary) field values of an object of the given regime: every angle away from 0/90/180/270/360, e well
    above 1e-4, a drag term large enough for the drag corrections to be metres after a few days"""
    bstar = rng.choice([-1, 1, 1, 1]) * rng.uniform(1.0, 9.9) * rng.choice([1e-5, 1e-4, 1e-4, 1e-3])
    if regime == "near-drag":          # low, nearly circular, full model: the drag terms (C1, C3, C4, C5, D2-D4, delta_M, delta_ω) are metres within days
        hp = rng.uniform(235.0, 420.0)
        ha = hp + rng.uniform(3.0, 150.0)
        a = RE_KM + (hp + ha) / 2
        e = (ha - hp) / (2 * a)
        n = math.sqrt(MU_KM / a ** 3) * 86400 / (2 * math.pi)
        bstar = rng.choice([-1, 1, 1, 1, 1, 1]) * rng.uniform(0.5, 6.0) * 1e-4
    elif regime == "near-full":        # period < 225 min, perigee >= 220 km: the domain of the native-vs-reference clause
        n = rng.uniform(6.6, 15.6)
        emax = 1 - (RE_KM + rng.choice([235.0, 260.0, 400.0])) / _a_km(n)
        e = rng.uniform(0.002, max(0.003, min(emax, 0.6))) if rng.random() < 0.6 else rng.uniform(0.0005, max(0.0006, min(emax, 0.02)))
    elif regime == "near-low":         # perigee below 220 km: the reference drops to its simplified drag model
        n = rng.uniform(9.0, 16.45)
        e = max(2e-4, 1 - (RE_KM + rng.uniform(60.0, 215.0)) / _a_km(n))
    else:                              # deep space
        n = rng.choice([rng.uniform(0.5, 6.2), rng.uniform(0.95, 1.05), rng.uniform(1.95, 2.06)])
        e = rng.uniform(0.0005, min(0.9, 1 - (RE_KM + 300.0) / _a_km(n)))
    be = math.floor(math.log10(abs(bstar))) + 1
    year = gen_year(rng)
    return {"norad": rng.randint(1, 99999), "cospar": f"{rng.randint(57, 99):02d}{rng.randint(1, 999):03d}{rng.choice(['A', 'B', 'AB'])}",
            "year": year, "day": round(rng.uniform(2.0, 364.0), 8), "ndot": round(rng.uniform(-1e-5, 2e-4), 8),
            "nddm": rng.choice([0, 0, rng.randint(10000, 99999)]), "ndde": 0, "bm": int(round(bstar / 10.0 ** be * 1e5)), "be": be,
            "elnb": rng.randint(0, 9999), "inc": round(rng.uniform(5.0, 85.0) if rng.random() < 0.7 else rng.uniform(95.0, 175.0), 4),
            "raan": round(rng.uniform(10, 350), 4), "e7": max(1, min(int(e * 1e7), 9000000)), "argp": round(rng.uniform(10, 350), 4),
            "ma": round(rng.uniform(10, 350), 4), "n8": int(round(n * 1e8)), "revs": rng.randint(0, 99999)}


def _fix(p):
    if p["nddm"]:
        p["ndde"] = p["ndde"] or -6
    else:
        p["ndde"] = 0
    if abs(p["bm"]) >= 100000:
        p["bm"] = 99999 if p["bm"] > 0 else -99999
    if p["bm"] == 0:
        p["be"] = 0
    return p


def straddle(p, field, lo, hi, pred):
    """the two adjacent values v, v+1 of the integer field `field` in [lo, hi] between which the reference's own
    classification `pred(satrec)` flips (bisection; pred must differ at lo and hi), or None"""
    def at(v):
        q = dict(p)
        q[field] = v
        return bool(pred(reference(*fmt_tle(q))))
    a, b = at(lo), at(hi)
    if a == b:
        return None
    while hi - lo > 1:
        mid = (lo + hi) // 2
        if at(mid) == a:
            lo = mid
        else:
            hi = mid
    return lo, hi


def _perigee_km(sat):
    return sat.altp * RE_KM


def _thr_perigee(h, by):
    """perigee height exactly on either side of `h` km (the reference's own `perige`), varying the eccentricity or the mean motion field"""
    def f(p, rng, side):
        if by == "e":
            p["n8"] = int(round(rng.uniform(7.0, 15.4) * 1e8))
            pair = straddle(p, "e7", 1, 8999999, lambda s: _perigee_km(s) < h)
            if pair:
                p["e7"] = pair[side]
        else:
            p["e7"] = int(rng.uniform({220.0: 0.0002, 156.0: 0.004, 98.0: 0.013}[h], 0.03) * 1e7)
            pair = straddle(p, "n8", 1400000000, 1650000000, lambda s: _perigee_km(s) < h)
            if pair:
                p["n8"] = pair[side]
        return bool(pair)
    return f


def _thr_period(p, rng, side):
    """un-Kozai'd period exactly on either side of 225 min (the reference's deep-space switch)"""
    p["e7"] = int(rng.uniform(0.001, 0.47 if rng.random() < 0.8 else 0.55) * 1e7)
    pair = straddle(p, "n8", 600000000, 680000000, lambda s: s.method == "d")
    if pair:
        p["n8"] = pair[1 - side]      # deep space is the LOW mean-motion side
    return bool(pair)


def _set(**kv):
    def f(p, rng, side):
        p.update(kv)
        return True
    return f


def _leap_day366(p, rng, side):
    p["year"] = rng.choice([1976, 1980, 1996, 2000, 2004, 2016])
    p["day"] = [366.0, 366.99999999][side]
    return True


def _year_end(p, rng, side):
    p["year"] = rng.choice([1973, 1975, 1999, 2001, 2017])
    p["day"] = [365.99999999, 365.0][side]
    return True


def _leap_epoch(p, rng, delta_days):
    if delta_days is None:
        p["year"], p["day"] = near_leap_epoch(rng)
    else:
        e = rng.choice(LEAP_INSTANTS) + _dt.timedelta(days=delta_days)
        p["year"], p["day"] = e.year, round(1 + (e - _dt.datetime(e.year, 1, 1)) / _dt.timedelta(days=1), 8)
    return True


# (name, setter(p, rng, side) -> bool, base regimes cycled over).  `side` in {0, 1}: below / above a threshold, or two variants.
FEATURES = [
    ("inc=0.0000", _set(inc=0.0), None), ("inc=0.0001", _set(inc=0.0001), None), ("inc=180.0000", _set(inc=180.0), None),
    ("inc=179.9999", _set(inc=179.9999), None), ("inc=90.0000", _set(inc=90.0), None),
    ("inc=63.4349(1-5cos2=0)", _set(inc=63.4349), None), ("inc=116.5651", _set(inc=116.5651), None),
    ("inc=54.7356(3cos2-1=0)", _set(inc=54.7356), None), ("inc=125.2644", _set(inc=125.2644), None),
    ("inc<0.2rad(11.4592)", lambda p, rng, side: p.update(inc=[11.4591, 11.4592][side]) or True, None),
    ("e=0000000", _set(e7=0), ["near-drag", "near-full", "near-low", "deep"]), ("e=0000001", _set(e7=1), ["near-drag", "near-full", "deep"]),
    ("e=0000009(<1e-6)", _set(e7=9), ["near-drag", "near-full"]), ("e=0000010(=1e-6)", _set(e7=10), ["near-drag", "near-full"]), ("e=0000011", _set(e7=11), ["near-drag", "near-full"]), ("e=0000050", _set(e7=50), ["near-drag", "near-full"]),
    ("e=0000999", _set(e7=999), ["near-drag", "near-full", "near-low", "deep"]), ("e=0001000(=1e-4)", _set(e7=1000), ["near-drag", "near-full", "near-low", "deep"]),
    ("e=0001001", _set(e7=1001), ["near-drag", "near-full", "near-low", "deep"]),
    ("bstar=00000-0", _set(bm=0, be=0), None), ("bstar=10000-9(1e-10)", _set(bm=10000, be=-9), None), ("bstar=00001-9(1e-14)", _set(bm=1, be=-9), None),
    ("bstar=99999-2(max)", _set(bm=99999, be=-2), ["near-full", "near-drag", "deep"]), ("bstar=-99999-3", _set(bm=-99999, be=-3), None),
    ("ndot=0", _set(ndot=0.0), None), ("ndot=-.00012345", _set(ndot=-0.00012345), None), ("ndot=.99999999", _set(ndot=0.99999999), None),
    ("nddot=00000-0", _set(nddm=0, ndde=0), None), ("nddot=99999-1", _set(nddm=99999, ndde=-1), None), ("nddot=-10000-9", _set(nddm=-10000, ndde=-9), None),
    ("raan=0.0000", _set(raan=0.0), None), ("raan=359.9999", _set(raan=359.9999), None), ("raan=180.0000", _set(raan=180.0), None),
    ("argp=0.0000", _set(argp=0.0), None), ("argp=359.9999", _set(argp=359.9999), None), ("argp=180.0000", _set(argp=180.0), None),
    ("argp=90.0000", _set(argp=90.0), None), ("argp=270.0000", _set(argp=270.0), None), ("argp=45.0000(cos2w=0)", _set(argp=45.0), None),
    ("ma=0.0000", _set(ma=0.0), None), ("ma=359.9999", _set(ma=359.9999), None), ("ma=180.0000", _set(ma=180.0), None),
    ("ma=90.0000", _set(ma=90.0), None),
    ("all-angles=0", _set(raan=0.0, argp=0.0, ma=0.0), None), ("all-angles=359.9999", _set(raan=359.9999, argp=359.9999, ma=359.9999), None),
    ("epoch-day=001.00000000", _set(day=1.0), None), ("epoch-day=001.00000001", _set(day=1.00000001), None),
    ("epoch-leap-day-366", _leap_day366, None), ("epoch-year-end-365", _year_end, None),
    ("epoch-year=2000", _set(year=2000), None), ("epoch-year=1999", _set(year=1999), None), ("epoch-year=1973", _set(year=1973), None),
    ("epoch-year=2017", _set(year=2017), None),
    # the epoch next to an inserted second (TAI-UTC steps there in an Earth-orientation database that knows the leap seconds): requests on the other side of it
    ("epoch-eve-of-leap-second", lambda p, rng, side: _leap_epoch(p, rng, [-0.5, -0.00000001][side]), None),
    ("epoch-day-after-leap-second", lambda p, rng, side: _leap_epoch(p, rng, [0.0, 0.5][side]), None),
    ("epoch-within-20d-of-leap-second", lambda p, rng, side: _leap_epoch(p, rng, None), None),
    # the two-digit year field: 57 is the first year of the 19xx range, 68 | 69 the POSIX pivot, 56 the last year of the 20xx range
    ("epoch-year=1957(yy=57)", _set(year=1957, day=277.8), None), ("epoch-year=1958(yy=58)", _set(year=1958), None), ("epoch-year=1968(yy=68)", _set(year=1968), None),
    ("epoch-year=1969(yy=69)", _set(year=1969), None), ("epoch-year=2056(yy=56)", _set(year=2056), None), ("epoch-year=1964(yy=64)", _set(year=1964), None), ("epoch-feb29", lambda p, rng, side: p.update(year=[1996, 2016][side], day=[60.0, 60.5][side]) or True, None),
    ("mean-motion=16.5", _set(n8=1650000000, e7=300), ["near-low"]), ("mean-motion=0.5", _set(n8=50000000), ["deep"]),
    ("perigee=220km(by e)", _thr_perigee(220.0, "e"), ["near-full"]), ("perigee=220km(by n)", _thr_perigee(220.0, "n"), ["near-full"]),
    ("perigee=156km(by e)", _thr_perigee(156.0, "e"), ["near-low"]), ("perigee=156km(by n)", _thr_perigee(156.0, "n"), ["near-low"]),
    ("perigee=98km(by e)", _thr_perigee(98.0, "e"), ["near-low"]), ("perigee=98km(by n)", _thr_perigee(98.0, "n"), ["near-low"]),
    ("period=225min", _thr_period, ["near-full"]),
    # a branch INSIDE the reference's deep-space code that depends on its mode of operation: Lyddane's modification for inclinations
    # below 0.2 rad, where a node that has regressed through 0 is (afspc mode) or is not (improved mode, the library default) wrapped
    ("deep-lyddane-node-through-0", lambda p, rng, side: p.update(inc=round(rng.uniform(0.5, 11.0), 4), raan=[0.0, round(rng.uniform(0.0, 3.0), 4)][side]) or True, ["deep"]),
    ("e=max-for-perigee-220(kepler-loop)", lambda p, rng, side: p.update(n8=int(rng.uniform(6.5, 7.5) * 1e8), ma=[2.0, 358.0][side],
                                                                           e7=int((1 - (RE_KM + 225.0) / _a_km(7.5)) * 1e7)) or True, ["near-full"]),
    # far outside the domain on purpose: the drag polynomial leaves its range of validity, the native model computes NaN and its Kepler loop
    # runs out of passes (the only way the generators found to leave that loop without `break`)
    ("decayed(kepler-loop-exhausted)", _set(n8=1640000000, e7=50000, bm=99999, be=-2), ["near-low"]),
    ("norad=00001,elnb=0,revs=0", _set(norad=1, elnb=0, revs=0), None), ("norad=99999,elnb=9999,revs=99999", _set(norad=99999, elnb=9999, revs=99999), None),
]
DEFAULT_REGIMES = ["near-drag", "near-full", "near-low", "deep"]


def gen_directed(rng, k):
    """k-th directed TLE: feature k mod len(FEATURES) on a base object whose regime and threshold side cycle with k // len(FEATURES);
    every third round a second, randomly chosen feature is applied on top (pairs of boundaries).
    returns (line1, line2, info) like gen_tle; info['feature'] names what was set"""
    name, setter, regimes = FEATURES[k % len(FEATURES)]
    rnd = k // len(FEATURES)
    regimes = regimes or DEFAULT_REGIMES
    regime = regimes[rnd % len(regimes)]
    p = base_fields(rng, regime)
    names = []
    if rnd % 3 == 2:
        n2, s2, _r = FEATURES[rng.randrange(len(FEATURES))]
        if n2.split("=")[0].split("(")[0] != name.split("=")[0].split("(")[0] and s2(p, rng, rng.randrange(2)):
            names.append(n2)
    ok = setter(p, rng, rnd % 2)
    names.insert(0, name + ("" if ok else "(threshold-not-reachable)"))
    l1, l2 = fmt_tle(_fix(p))
    info = info_of_lines(l1, l2)
    info.update(regime="directed-" + regime, feature="+".join(names), side=rnd % 2, bstar=p["bm"] * 10.0 ** (p["be"] - 5), fields=p)
    return l1, l2, info


def gen_directed_offsets(rng, info=None):
    """dates for a directed TLE: one well before and one well after epoch (drag and secular terms have grown), sometimes a boundary of the +-30 d window"""
    day = 86_400_000_000
    a = -rng.randint(1 * day, 30 * day) if rng.random() < 0.85 else rng.choice([-30 * day, -1, 0])
    if info is not None and info.get("feature", "").startswith("decayed"):
        a = -rng.randint(12 * day, 30 * day)
    b = rng.randint(1 * day, 30 * day) if rng.random() < 0.85 else rng.choice([30 * day, 1, 0])
    if info is not None and "leap-second" in info.get("feature", "") and "epoch" in info:
        return leap_crossing_offsets(rng, info["epoch"])
    return [a, b]


class BranchProbe:
    """Which side of every guard of the native model a call took — observed on the REAL code, nothing modified: the `if`,
    conditional expressions and `for … break` loops of `Sgp4Beta.orbit` (setter) and `Sgp4Beta.propagate` are read from the
    AST of the repository's sgp4beta.py; a line tracer installed around the call records the executed lines (an `if` was
    taken iff the first line of its body ran) and the local variables at return (conditional expressions are re-evaluated on
    them, the loop counter tells how the loop was left)."""

    def __init__(self, which="native"):
        if which == "native":
            tree, _model, setter, prop = beta_source()
            self.file = os.path.realpath(BETA_PY)
        else:       # the default propagator: beyond/propagators/sgp4.py, class Sgp4
            self.file = os.path.realpath(os.path.join(core.REPO, "beyond", "propagators", "sgp4.py"))
            cls = py2lean.find_function(ast.parse(open(self.file).read()), "Sgp4")
            setter = next(n for n in cls.body if isinstance(n, ast.FunctionDef) and n.name == "orbit" and any("setter" in ast.unparse(d) for d in n.decorator_list))
            prop = next(n for n in cls.body if isinstance(n, ast.FunctionDef) and n.name == "propagate")
        self.sites = []          # (function, kind, text, test line, first body line, code / loop variable)
        for fn, fname in ((setter, "setter"), (prop, "propagate")):
            for node in ast.walk(fn):
                if isinstance(node, ast.If):
                    brk = len(node.body) == 1 and isinstance(node.body[0], ast.Break)
                    self.sites.append((fname, "loop-break" if brk else "if", ast.unparse(node.test), node.test.lineno, node.body[0].lineno, None))
                elif isinstance(node, ast.IfExp):
                    self.sites.append((fname, "ifexp", ast.unparse(node.test), node.test.lineno, None, compile(ast.Expression(node.test), "<guard>", "eval")))
                elif isinstance(node, ast.For) and isinstance(node.target, ast.Name):
                    self.sites.append((fname, "for", "for " + ast.unparse(node.target) + " in " + ast.unparse(node.iter), node.lineno, None, node.target.id))
        self.codes = {"orbit": "setter", "propagate": "propagate"}
        self.lines = {}
        self.locals = {}

    def _tracer(self, frame, event, arg):
        if event != "call" or os.path.realpath(frame.f_code.co_filename) != self.file or frame.f_code.co_name not in self.codes:
            return None
        fname = self.codes[frame.f_code.co_name]
        if fname == "setter" and frame.f_code.co_argcount != 2:
            return None          # the getter
        seen = self.lines.setdefault(fname, set())

        def local(frame, event, arg):
            if event == "line":
                seen.add(frame.f_lineno)
            elif event == "return":
                self.locals[fname] = (dict(frame.f_locals), frame.f_globals)
            return local
        return local

    @contextlib.contextmanager
    def watch(self):
        import sys
        self.lines, self.locals = {}, {}
        old = sys.gettrace()
        sys.settrace(self._tracer)
        try:
            yield self
        finally:
            sys.settrace(old)

    def outcomes(self):
        """{guard label: 'T' | 'F'} for the guards reached during the watched calls"""
        res = {}
        for fname, kind, text, tline, bline, code in self.sites:
            if fname not in self.lines or tline not in self.lines[fname]:
                continue
            if kind == "for":
                loc, _g = self.locals.get(fname, ({}, {}))
                if isinstance(loc.get(code), int):
                    res[f"{fname}: {text}: passes"] = loc[code] + 1
                continue
            if kind == "ifexp":
                loc, glob = self.locals.get(fname, ({}, {}))
                try:
                    v = bool(eval(code, glob, loc))
                except Exception:
                    continue
            else:
                v = bline in self.lines[fname]
            res[f"{fname}: {text}"] = "T" if v else "F"
        return res

    def labels(self):
        """the two-sided guards: every `if`, conditional expression and loop exit"""
        return [f"{fname}: {text}" for fname, k, text, *_ in self.sites if k != "for"]


_probes = {}


def probe(which):
    if which not in _probes:
        _probes[which] = BranchProbe(which)
    return _probes[which]


def tally_branches(out, prefix, outcomes, extra=None):
    for k, v in outcomes.items():
        out.tally(f"{prefix}[{k}]={v}")
    for k, v in (extra or {}).items():
        out.tally(f"{prefix}[{k}]={v}")


def reference_branches(sat):
    """the reference's own branch decisions for a satellite record (its initialisation), read from the record"""
    perige = sat.altp * RE_KM
    b = {"ref: method": sat.method, "ref: isimp": sat.isimp, "ref: ecco > 1.0e-4": sat.ecco > 1.0e-4,
         "ref: perige": "<98" if perige < 98 else "<156" if perige < 156 else "<220" if perige < 220 else ">=220",
         "ref: fabs(cosio+1.0) > 1.5e-12": abs(math.cos(sat.inclo) + 1.0) > 1.5e-12}
    if sat.method == "d":
        b["ref: irez"] = sat.irez
        b["ref: lyddane(inclo < 0.2)"] = sat.inclo < 0.2
    return b


# TAI-UTC in whole seconds from 00:00:00 UTC of the day it takes effect (IERS Bulletin C; written here, not read through the library —
# `leap_table_vs_file` compares it with the repository's tests/data/pole/tai-utc.dat).  Before 1972 (rubber seconds): constant 10 s.
LEAP_TABLE = [(1972, 1, 1, 10), (1972, 7, 1, 11), (1973, 1, 1, 12), (1974, 1, 1, 13), (1975, 1, 1, 14), (1976, 1, 1, 15), (1977, 1, 1, 16), (1978, 1, 1, 17),
              (1979, 1, 1, 18), (1980, 1, 1, 19), (1981, 7, 1, 20), (1982, 7, 1, 21), (1983, 7, 1, 22), (1985, 7, 1, 23), (1988, 1, 1, 24), (1990, 1, 1, 25),
              (1991, 1, 1, 26), (1992, 7, 1, 27), (1993, 7, 1, 28), (1994, 7, 1, 29), (1996, 1, 1, 30), (1997, 7, 1, 31), (1999, 1, 1, 32), (2006, 1, 1, 33),
              (2009, 1, 1, 34), (2012, 7, 1, 35), (2015, 7, 1, 36), (2017, 1, 1, 37)]
MJD0 = _dt.date(1858, 11, 17)
LEAP_MJD = [((_dt.date(y, m, d) - MJD0).days, v) for y, m, d, v in LEAP_TABLE]
LEAP_INSTANTS = [_dt.datetime(y, m, d) for y, m, d, _v in LEAP_TABLE[1:]]        # 00:00:00 UTC right after each inserted second
EOP_MODES = ["leap", "const", "zero"]
_eop_mode = ["zero"]


def tai_utc_s(mjd_day, mode=None):
    """TAI-UTC (whole seconds) on the UTC day `mjd_day` in the harness's Earth-orientation environment `mode`"""
    mode = mode or _eop_mode[0]
    if mode == "const":
        return 37
    if mode == "zero":
        return 0
    v = 10
    for day, val in LEAP_MJD:
        if mjd_day >= day:
            v = val
    return v


def tai_utc_of(dt, mode=None):
    """TAI-UTC (s) at the naive UTC datetime `dt`"""
    return tai_utc_s((dt.date() - MJD0).days, mode)


def elapsed_us(a, b, mode=None):
    """elapsed time (microseconds of TAI) from the naive UTC datetime a to the naive UTC datetime b: calendar difference + inserted seconds"""
    return (b - a) // US + (tai_utc_of(b, mode) - tai_utc_of(a, mode)) * 1_000_000


def leap_table_vs_file():
    """the harness's table against the repository's tests/data/pole/tai-utc.dat (entries from 1972 on), 'identical' | description"""
    months = {"JAN": 1, "JUL": 7}
    try:
        rows = []
        for line in open(os.path.join(core.REPO, "tests", "data", "pole", "tai-utc.dat"), encoding="ascii"):
            f = line.split()
            if f and int(f[0]) >= 1972:
                rows.append((int(f[0]), months[f[1]], int(f[2]), int(float(f[6]))))
        return "identical" if rows == LEAP_TABLE else f"differs:{[r for r in rows if r not in LEAP_TABLE][:2]}"
    except Exception as e:     # noqa
        return "unreadable:" + type(e).__name__


@contextlib.contextmanager
def eop(mode="leap", ut1_utc=-0.1234567):
    """Earth-orientation environment of the harness process, one of EOP_MODES:
    `leap`  — TAI-UTC follows the leap-second table (a date before and a date after an inserted second carry different TAI-UTC),
    `const` — one record for every date, TAI-UTC = 37 s,
    `zero`  — the repository's default without a database (TAI-UTC = UT1-UTC = 0).
    In `leap` and `const` UT1-UTC = -0.1234567 s so that the UTC/TAI/TT/GPS/UT1 labels of one instant all carry different clock fields."""
    from unittest.mock import patch
    from beyond.dates.eop import Eop

    def rec(mjd, dbname=None):
        return Eop(x=0.0, y=0.0, dx=0.0, dy=0.0, deps=0.0, dpsi=0.0, lod=0.0, ut1_utc=0.0 if mode == "zero" else ut1_utc, tai_utc=float(tai_utc_s(int(math.floor(mjd)), mode)))
    prev = _eop_mode[0]
    _eop_mode[0] = mode
    try:
        with patch("beyond.dates.date.EopDb.get", side_effect=rec):
            yield
    finally:
        _eop_mode[0] = prev


def near_leap_epoch(rng, spread_days=20.0):
    """(year, day-of-year field) of an epoch next to an inserted second of 1972-2017: on its eve (down to the last field step before midnight),
    on the day after (from 00:00:00 exactly), or within `spread_days` on either side"""
    L = rng.choice(LEAP_INSTANTS)
    r = rng.random()
    if r < 0.2:
        delta = -rng.choice([0.00000001, 0.00001, 0.001, 0.25, 0.5, 0.99999999])      # days before midnight
    elif r < 0.35:
        delta = rng.choice([0.0, 0.00000001, 0.001, 0.5])
    elif r < 0.75:
        delta = -rng.uniform(0.0, spread_days)
    else:
        delta = rng.uniform(0.0, spread_days)
    e = L + _dt.timedelta(days=delta)
    day = round(1 + (e - _dt.datetime(e.year, 1, 1)) / _dt.timedelta(days=1), 8)
    return e.year, day


def leap_crossing_offsets(rng, epoch):
    """two offsets (microseconds) from `epoch` (naive UTC datetime) around the inserted second nearest to it: one date just / well AFTER it, one
    just / well BEFORE it — whichever side the epoch is on, one of the two requests is on the other side"""
    L = min(LEAP_INSTANTS, key=lambda x: abs(x - epoch))
    base = (L - epoch) // US
    day = 86_400_000_000
    after = base + rng.choice([0, 1, 1_000_000, 1_800_000_000, rng.randint(0, 10 * day)])
    before = base - rng.choice([1, 1_000_000, 120_000_000, rng.randint(1, 10 * day)])
    lim = 30 * day
    return [max(-lim, min(lim, before)), max(-lim, min(lim, after))]


def fields_of(dt):
    return (dt.year, dt.month, dt.day, dt.hour, dt.minute, dt.second + dt.microsecond / 1e6)


def reference(l1, l2):
    from sgp4.earth_gravity import wgs72
    from sgp4.io import twoline2rv
    return twoline2rv(l1, l2, wgs72)


def ref_state(sat, dt):
    """the reference implementation (python-sgp4's transcription of Vallado's code, WGS-72) called directly on the UTC
    calendar fields of the naive UTC datetime `dt`; metres, metres/second; None when the reference reports an error"""
    p, v = sat.propagate(*fields_of(dt))
    if p is False or sat.error != 0 or any(map(math.isnan, p)):
        sat.error = 0
        return None
    return [x * 1000.0 for x in tuple(p) + tuple(v)]


def ref_state_tsince(sat, minutes):
    from sgp4.propagation import sgp4 as core_sgp4
    p, v = core_sgp4(sat, minutes)
    if p is False or sat.error != 0 or any(map(math.isnan, p)):
        sat.error = 0
        return None
    return [x * 1000.0 for x in tuple(p) + tuple(v)]


def norm(v):
    return math.sqrt(sum(x * x for x in v))


def dist(a, b):
    return norm([x - y for x, y in zip(a[:3], b[:3])]), norm([x - y for x, y in zip(a[3:], b[3:])])


def family_of(info, off_us, what):
    cls = "deep" if info["n"] < 6.4 else "near"
    per = "low-perigee" if info["perigee_km"] < 220 else "std"
    ecc = "e<1e-4" if info["e"] < 1e-4 else "e>=1e-4"
    retro = "retro" if info["inc"] > 90 else "pro"
    sgn = "before" if off_us < 0 else "after"
    return f"{what}:{cls}:{per}:{ecc}:{retro}:{sgn}"


LABELS = ["UTC", "TAI", "TT", "GPS", "UT1"]

A0_OLD = "        self._init.a0 = self._init.a0 / (1 - delta_0)\n"
A0_NEW = "        self._init.a0 = (k_e / self._init.n0) ** (2 / 3)\n"
_patched = {}


def native_with_a0_fix():
    """Sgp4Beta class compiled in this process from the repository's current sgp4beta.py with the one-line repair of
    proposed_fixes/C07-native-a0.diff applied (nothing is written anywhere).  Used only to *classify* a failing input:
    a native-vs-reference failure that disappears under this repair belongs to the known finding C07-native-a0-series,
    any other failure gets a different family.  Returns None if the line to repair is not in the source any more."""
    if "cls" not in _patched:
        import importlib.util
        import sys
        src = open(os.path.join(core.REPO, "beyond", "propagators", "sgp4beta.py")).read()
        if A0_OLD not in src:
            _patched["cls"] = None
        else:
            spec = importlib.util.spec_from_loader("beyond.propagators._c07_sgp4beta_a0fix", loader=None)
            m = importlib.util.module_from_spec(spec)
            m.__package__ = "beyond.propagators"
            exec(compile(src.replace(A0_OLD, A0_NEW), "<sgp4beta.py + C07-native-a0.diff>", "exec"), m.__dict__)
            _patched["cls"] = m.Sgp4Beta
    return _patched["cls"]


def exp_value(field):
    """value of an 8-column 'decimal point assumed' field"""
    f = field.strip()
    sign = -1.0 if f[0] == "-" else 1.0
    f = f.lstrip("+-")
    return sign * float("0." + f[:5]) * 10.0 ** int(f[5:])


def regen_family(l1, l2, err):
    """family of a failure of the wrapper's TLE regeneration (Tle.from_orbit), from the input text itself"""
    if tiny_fields(l1):
        return "wrapper-regen:two-digit-exponent"
    return "wrapper-regen:" + type(err).__name__


def tiny_fields(l1):
    """the exponent fields of line 1 whose value is non-zero and below 1e-10 (a normalised mantissa would need a two-digit exponent)"""
    return [name for name, col in (("ndotdot", l1[44:52]), ("bstar", l1[53:61])) if 0 < abs(exp_value(col)) < 1e-10]


# ---------------------------------------------------------------- oracle on the real API

def tol_pos(speed):
    """the property's tolerance for the default propagator: |v| x 50 microseconds"""
    return speed * 50e-6 + 1e-6


def check_tle(out, rng, l1, l2, info, offsets, env=None):
    """all clauses of the property on one TLE and a few dates; `offsets` = list of (offset_us, label, other_label); `env` = Earth-orientation
    environment (EOP_MODES) the whole case runs in (None: the ambient one)"""
    with eop(env or _eop_mode[0]):
        _check_tle(out, rng, l1, l2, info, offsets)


def _check_tle(out, rng, l1, l2, info, offsets):
    from beyond.io.tle import Tle
    from beyond.dates import Date, timedelta
    from beyond.propagators.sgp4beta import Sgp4Beta
    inp0 = {"line1": l1, "line2": l2, "eop": _eop_mode[0]}
    name = info.get("name")
    if name:
        inp0["name"] = name
    try:
        tle = Tle((name + "\n" if name else "") + l1 + "\n" + l2)
        orb = tle.orbit()
    except Exception as e:
        out.count(key=(l1, l2), kind="tle-rejected")
        out.fail("tle-rejected:" + type(e).__name__, "a syntactically valid TLE is rejected by Tle()", inp0, observed=repr(e))
        return
    sat = reference(l1, l2)
    deep = sat.method == "d"
    full = (not deep) and sat.isimp == 0
    # the orbit's date is the epoch of the text, parsed here independently (two-digit year: 57-99 -> 19xx, 00-56 -> 20xx; day of year from 1)
    yy = int(l1[18:20])
    yyc = "57-68" if 57 <= yy <= 68 else "69-99" if yy >= 69 else "00-56"
    out.tally("epoch-year-field=" + yyc)
    d_epoch = abs((orb.date.change_scale("UTC").datetime - info["epoch"]) // US)
    if d_epoch > 1:
        out.fail(f"tle-epoch:year-field-{yyc}", "the date of an orbit read from a TLE is not the epoch of the text (year field: 57-99 -> 19xx, 00-56 -> 20xx)", inp0,
                 observed=str(orb.date), expected=info["epoch"].isoformat())
    model = "sdp4" if deep else ("sgp4-full" if full else "sgp4-simple")
    tally_branches(out, "branch", reference_branches(sat))
    if info.get("feature"):
        out.tally("directed-feature=" + info["feature"].split("+")[0] + f"/side{info.get('side', 0)}/" + model)
    # the wrapper regenerates the TLE text from the orbit (Tle.from_orbit): that must succeed for the propagator to exist at all
    try:
        regen = Tle.from_orbit(orb).text.splitlines()[-2:]
    except Exception as e:
        out.count(key=(l1, l2), kind="wrapper-regen", result="raises")
        out.fail(regen_family(l1, l2, e), "default SGP4 propagator cannot be initialised: regenerating the TLE text of a valid TLE raises (the reference accepts the original lines)",
                 inp0, observed=repr(e), expected="the reference accepts these lines")
        return
    out.tally("regen=" + ("identical" if regen == [l1, l2] else "differs"))
    eus = (orb.date.change_scale("UTC").datetime - T0) // US
    for off, label, olabel in offsets:
        target = info["epoch"] + off * US          # naive UTC datetime, integer microseconds
        date = Date(target, scale="UTC")
        # within two minutes of an inserted second a clock reading in another scale is ambiguous (the library's documented limitation, property C03's
        # subject: e.g. the UT1 label of exactly 00:00:00 UTC of the day carries the old TAI-UTC): there the request is made with UTC dates only
        window = _eop_mode[0] == "leap" and any(abs((target - L).total_seconds()) <= 120 for L in LEAP_INSTANTS)
        if window:
            label = olabel = "UTC"
            out.tally("leap-second-window=request-made-with-UTC-dates-only")
        if label != "UTC":
            date = date.change_scale(label)
        inp = dict(inp0, utc=target.isoformat(), label=label, offset_us=off)
        exp = ref_state(sat, target)
        crossed = tai_utc_of(target) - tai_utc_of(info["epoch"])       # inserted seconds between the epoch and the request (0 unless the environment knows them)
        out.count(key=(l1, l2, off, label, _eop_mode[0]), nontrivial=off != 0, kind="wrapper", model=model, label=label, sign="before" if off < 0 else "after",
                  ref="error" if exp is None else "ok", eop=_eop_mode[0], leap_seconds_between_epoch_and_date="0" if crossed == 0 else "+" if crossed > 0 else "-")
        if exp is None:
            continue
        # 1. the default propagator equals the reference on the original lines at that instant
        try:
            with probe("wrapper").watch() as pw:
                got = [float(x) for x in orb.propagate(date)]
            tally_branches(out, "branch-wrapper", pw.outcomes())
        except Exception as e:
            if tiny_fields(l1) and regen != [l1, l2]:
                out.fail(regen_family(l1, l2, e), "default SGP4 propagator cannot be initialised: the TLE text it regenerates for a valid TLE is rejected by the sgp4 library (the reference accepts the original lines)",
                         inp, observed=repr(e), expected=exp, regenerated=regen)
            else:
                out.fail(family_of(info, off, "wrapper-raises-" + type(e).__name__), "default SGP4 propagator raises where the reference returns a state", inp, observed=repr(e), expected=exp)
            return      # a propagator whose initialisation failed stays half-initialised; nothing more to learn from this TLE
        speed = norm(exp[3:])
        acc = MU_KM * 1e9 / max(norm(exp[:3]), 1.0) ** 2
        dp, dv = dist(got, exp)
        if not (dp <= tol_pos(speed) and dv <= acc * 50e-6 + 1e-9 and all(map(math.isfinite, got))):
            out.fail(family_of(info, off, "wrapper-vs-reference"), "default SGP4 propagator differs from the reference implementation called on the original TLE lines and the UTC fields of the instant",
                     inp, observed=got, expected=exp, dpos_m=dp, tol_m=tol_pos(speed))
        # 2. timedelta argument = the same instant
        if label == "UTC":
            with probe("wrapper").watch() as pw:
                got2 = [float(x) for x in orb.propagate(timedelta(microseconds=off))]
            tally_branches(out, "branch-wrapper", pw.outcomes())
            dp, dv = dist(got2, exp)
            out.count(key=(l1, off, "td"), nontrivial=off != 0, kind="wrapper-timedelta")
            if not (dp <= tol_pos(speed) and dv <= acc * 50e-6 + 1e-9):
                out.fail(family_of(info, off, "wrapper-timedelta"), "propagate(timedelta) differs from the reference at epoch + timedelta", inp, observed=got2, expected=exp, dpos_m=dp)
        # 2b. requests expressed relative to the orbit (orb.date + dt, iter from the orbit's date): the same instant as the harness's own
        #     epoch + offset (independent parse of the text), compared with the reference there
        from beyond.dates import timedelta as _td
        rel = []
        try:
            rel.append(("orb.date+dt", [float(x) for x in orb.propagate(orb.date + _td(microseconds=off))]))
            if off != 0:
                pts = list(orb.iter(start=orb.date, stop=_td(microseconds=off), step=_td(microseconds=off)))
                rel.append(("iter", [float(x) for x in pts[-1]]))
                out.tally(f"wrapper-iter-points={len(pts)}")
        except Exception as e:
            out.fail(family_of(info, off, "wrapper-relative-raises-" + type(e).__name__), "a request relative to the orbit's date raises", inp, observed=repr(e), expected=exp)
        for how, got3 in rel:
            dp, dv = dist(got3, exp)
            out.count(key=(l1, off, how), nontrivial=off != 0, kind="wrapper-relative", how=how, year_field=yyc)
            if not (dp <= tol_pos(speed) and dv <= acc * 50e-6 + 1e-9):
                out.fail(family_of(info, off, f"wrapper-relative({how}):yy-{yyc}"), f"{how}: the state at (orbit date + offset) is not the reference's at (epoch of the text + offset)",
                         inp, observed=got3, expected=exp, dpos_m=dp)
        # 3. label independence of the wrapper
        other = date.change_scale(olabel) if olabel != label else Date(target.year, target.month, target.day, target.hour, target.minute, target.second, target.microsecond)
        goto = [float(x) for x in orb.propagate(other)]
        dp, dv = dist(goto, got)
        out.count(key=(l1, off, "label", olabel), nontrivial=True, kind="wrapper-label", pair=f"{label}->{olabel}")
        if not dp <= tol_pos(speed):
            out.fail(family_of(info, off, "wrapper-label"), "default SGP4 gives different states for two labels of the same instant", dict(inp, other=str(other)), observed=goto, expected=got, dpos_m=dp)
        if deep:
            continue
        # 4. native implementation: same state as the reference theory within 1 cm where the reference uses its full near-Earth model
        nat = Sgp4Beta()
        try:
            with probe("native").watch() as pn:
                nat.orbit = orb
                gotn = [float(x) for x in nat.propagate(date)]
            if full:
                tally_branches(out, "branch-native-in-domain", pn.outcomes(), {"C3 == 0 and e0 > 1e-4": bool(nat._init.C3 == 0 and info["e"] > 1e-4),
                                                                                "bstar == 0": float(orb.bstar) == 0.0})
        except Exception as e:
            if full:
                out.fail(family_of(info, off, "native-raises-" + type(e).__name__), "native SGP4 raises inside its domain", inp, observed=repr(e))
            continue
        # the reference theory at the same time since epoch (the calendar route of the library quantises time to 40 microseconds)
        #    the native model's time since epoch is the elapsed time between the two instants (`date - self.tle.date`): the harness's own
        #    calendar difference + the seconds inserted in between (tai_utc_of: the table, not the library)
        tmin = ((target - T0) // US - eus + crossed * 1_000_000) / 60e6
        expn = ref_state_tsince(sat, tmin)
        tempa = 1 - sat.cc1 * tmin - sat.d2 * tmin ** 2 - sat.d3 * tmin ** 3 - sat.d4 * tmin ** 4 if full else 1.0
        sane = abs(tempa - 1) < 0.01      # the drag polynomial has changed the semi-major axis by less than 2 %
        out.count(key=(l1, l2, off, "native"), nontrivial=off != 0, kind="native", model=model, label=label, ecc="e<1e-4" if info["e"] < 1e-4 else "e>=1e-4",
                  retro=info["inc"] > 90, sign="before" if off < 0 else "after", compared=bool(expn is not None and full and sane))
        if expn is not None and full and sane:
            dp, dv = dist(gotn, expn)
            tp, tv = 0.01 + speed * 1e-6, 1e-5 + acc * 1e-6
            if not (dp <= tp and dv <= tv and all(map(math.isfinite, gotn))):
                fam = family_of(info, off, "native-vs-reference")
                fixed_cls = native_with_a0_fix()
                if fixed_cls is not None:
                    fx = fixed_cls()
                    fx.orbit = orb
                    dpf, dvf = dist([float(x) for x in fx.propagate(date)], expn)
                    if dpf <= tp and dvf <= tv:
                        fam = "native-vs-reference:a0-series"
                out.fail(fam, "native SGP4 differs from the reference by more than 1 cm inside the full near-Earth model's domain",
                         inp, observed=gotn, expected=expn, dpos_m=dp, dvel_ms=dv)
        # 5. label independence of the native model (outside its domain the native model may return NaN — decayed object,
        #    eccentricity driven above 1 by the drag polynomial —: then both labels must)
        goto = [float(x) for x in nat.propagate(other)]
        dp, dv = dist(goto, gotn)
        if not all(map(math.isfinite, gotn)) and not all(map(math.isfinite, goto)) and not (full and sane):
            out.tally("native-label=non-finite-for-both-labels-outside-the-domain")
        elif not dp <= speed * 2e-6 + 1e-6:
            out.fail(family_of(info, off, "native-label"), "native SGP4 gives different states for two labels of the same instant", dict(inp, other=str(other)), observed=goto, expected=gotn, dpos_m=dp)


# ---------------------------------------------------------------- the wrapper clause on MUTABLE orbits obtained in every way
#
# "Propagating an orbit built from a TLE with the default SGP4 propagator returns the state given by the reference for that TLE":
# an orbit is a mutable object.  Whatever way it was obtained (read from text — then it carries the Tle object it was read from —, loaded
# from an OMM, built by hand, copied, converted to another form / frame and back) and whichever of the inputs of the satellite record
# were edited in place since (each of the six elements, the epoch, B*, ndot, ndotdot, the label fields; before or after a first
# propagation), the reply must be the reference's for the element set the orbit holds NOW.  Expected values: python-sgp4 on lines the
# harness writes itself (fmt_tle) from the orbit's current values.

SOURCES = ["tle.orbit", "tle.from_string", "tle-3-lines", "hand-built", "omm-kvn", "omm-xml", "copy", "deepcopy", "pickle",
           "copy-of-propagated", "form-roundtrip", "frame-roundtrip"]
EDIT_FIELDS = ["i", "Ω", "e", "ω", "M", "n", "date", "bstar", "ndot", "ndotdot", "norad_id", "cospar_id", "element_nb", "revolutions", "name"]
ELEMENT_INDEX = {"i": 0, "Ω": 1, "e": 2, "ω": 3, "M": 4, "n": 5}
NUMERIC_FIELDS = ["i", "Ω", "e", "ω", "M", "n", "date", "bstar", "ndot", "ndotdot"]


def unfloat5(x):
    """(mantissa, exponent) of the 'decimal point assumed' field for x = 0.ddddd x 10^exp — written here, not beyond's _unfloat"""
    if x == 0:
        return 0, 0
    m, _, ex = f"{abs(x):.4e}".partition("e")
    mant, ex = int(m.replace(".", "")), int(ex) + 1
    if ex < -9:
        mant, ex = int(round(abs(x) * 10 ** 14)), -9
    if ex > 0:
        ex = min(ex, 9)
    return (-mant if x < 0 else mant), ex


def fields_of_orbit(orb):
    """TLE field values of what the orbit holds NOW, read through its public attributes (an independent formatter: no Tle.from_orbit)"""
    o = orb if (str(orb.form) == "tle" and orb.frame.name == "TEME") else orb.copy(form="TLE", frame="TEME")
    i, Om, e, w, M, n = (float(x) for x in o)
    utc = o.date.change_scale("UTC").datetime
    day = 1 + ((utc - _dt.datetime(utc.year, 1, 1)) // US) / 86_400_000_000
    bm, be = unfloat5(float(o.bstar))
    nm, ne = unfloat5(float(o.ndotdot) / 6)
    cos = getattr(o, "cospar_id", "") or ""
    y, _, piece = cos.partition("-")
    return {"norad": int(getattr(o, "norad_id", 99999)), "cospar": (y[2:] + piece) if cos else "", "year": utc.year, "day": day, "ndot": float(o.ndot) / 2, "nddm": nm, "ndde": ne,
            "bm": bm, "be": be, "elnb": int(o.element_nb), "inc": math.degrees(i) % 360, "raan": math.degrees(Om) % 360, "e7": int(f"{e:.7f}"[2:]) if 0 <= e < 1 else -1,
            "argp": math.degrees(w) % 360, "ma": math.degrees(M) % 360, "n_revday": n * 86400 / (2 * math.pi), "revs": int(o.revolutions)}


def make_orbit(source, l1, l2):
    """an orbit holding the element set of the lines, obtained the given way; returns (orbit, note)"""
    import copy as _copy
    import pickle
    from beyond.io.tle import Tle
    from beyond.io import ccsds
    from beyond.orbits import Orbit
    text = l1 + "\n" + l2
    if source == "tle.from_string":
        return next(Tle.from_string(text)).orbit()
    if source == "tle-3-lines":
        return Tle("0 SAT-C07\n" + text).orbit()
    t = Tle(text)
    if source == "hand-built":
        return Orbit(t.to_list(), t.epoch, "TLE", "TEME", "Sgp4", bstar=t.bstar, ndot=t.ndot, ndotdot=t.ndotdot, norad_id=t.norad_id, cospar_id=t.cospar_id,
                     element_nb=t.element_nb, revolutions=t.revolutions, name="")
    if source in ("omm-kvn", "omm-xml"):
        t = Tle("SAT-C07\n" + text)
        return ccsds.loads(ccsds.dumps(t.orbit(), fmt=source[4:]))
    orb = t.orbit()
    if source == "copy":
        return orb.copy()
    if source == "deepcopy":
        return _copy.deepcopy(orb)
    if source == "pickle":
        return pickle.loads(pickle.dumps(orb))
    if source == "copy-of-propagated":
        orb.propagate(orb.date)
        return orb.copy()
    if source == "form-roundtrip":
        return orb.copy(form="keplerian_mean").copy(form="TLE")
    if source == "frame-roundtrip":
        return orb.copy(frame="EME2000").copy(frame="TEME", form="TLE")
    return orb


def apply_edit(orb, tb, field, how):
    """in-place edit of ONE input of the satellite record to the value the second element set `tb` (a parsed Tle) holds"""
    if field in ELEMENT_INDEX:
        v = float(tb.to_list()[ELEMENT_INDEX[field]])
        if how == "index":
            orb[ELEMENT_INDEX[field]] = v
        else:
            setattr(orb, field, v)
    elif field == "date":
        orb.date = tb.epoch
    elif field == "name":
        orb.name = "EDITED"
    else:
        setattr(orb, field, getattr(tb, field))


_key_reads = []


def history_key(orb):
    """`Sgp4._state(orbit)` as read from the source (the list `stateKeyReads` of Generated/Sgp4WrapBind.lean), evaluated by the harness"""
    if not _key_reads:
        import re
        try:
            _key_reads.extend(re.findall(r'"([^"]+)"', gen_wrap_bind().split("def stateKeyReads")[1].split("\n")[0]))
        except py2lean.Untranslatable:
            # the extractor refused the current sgp4.py (reported by extract); the last modelled key is used to drive the comparison
            _key_reads.extend(["tobytes", "date", "form", "frame", "bstar", "ndot", "ndotdot"])
    return tuple(orb.tobytes() if r == "tobytes" else str(getattr(orb, r)) if r in ("date", "form", "frame") else repr(orb._data.get(r)) for r in _key_reads)


def gen_history(rng, k):
    """k-th history: source and single edited field cycle (every source x field pair within len(SOURCES) x len(EDIT_FIELDS) cases), then combinations"""
    regime = ["near-drag", "near-drag", "near-full", "deep"][k % 4]
    pa, pb = base_fields(rng, regime), base_fields(rng, regime if rng.random() < 0.7 else "near-full")
    if rng.random() < 0.25:
        FEATURES[rng.randrange(len(FEATURES))][1](pa, rng, rng.randrange(2))
    if rng.random() < 0.3:
        pa["year"], pa["day"] = near_leap_epoch(rng, 10.0)
        if rng.random() < 0.5:
            pb["year"], pb["day"] = near_leap_epoch(rng, 10.0)
    a, b = fmt_tle(_fix(pa)), fmt_tle(_fix(pb))
    n_single = len(SOURCES) * len(EDIT_FIELDS)
    if k % (n_single + 60) < n_single:
        edits = [[EDIT_FIELDS[k % len(EDIT_FIELDS)]]]
    else:
        r = rng.random()
        pool = ["bstar", "ndot", "ndotdot", "norad_id", "cospar_id", "element_nb", "revolutions", "name"] if r < 0.4 else EDIT_FIELDS
        edits = [rng.sample(pool, rng.randint(2, min(5, len(pool))))] if r < 0.9 else [[]]
    if rng.random() < 0.3:
        edits.append([rng.choice(EDIT_FIELDS)] if rng.random() < 0.5 else ["back"])        # a second round: another field, or back to the original values
    day = 86_400_000_000
    offs = [rng.choice([-1, 1]) * rng.randint(day // 8, 12 * day) for _ in range(4)]
    return {"lines": list(a), "lines_b": list(b), "source": SOURCES[(k // len(EDIT_FIELDS)) % len(SOURCES)] if k % (n_single + 60) < n_single else rng.choice(SOURCES),
            "first_propagation": rng.random() < 0.5, "how": rng.choice(["index", "attr"]), "edits": edits, "offsets_us": offs, "label": rng.choice(LABELS),
            "eop": rng.choice(["leap", "leap", "leap", "const", "zero"])}


def run_history(h, on_propagate, on_event=None):
    """drive a real orbit through the history `h`; `on_propagate(orbit, expected_lines, offset_us, date, stage)` is called for every
    propagation with the lines the harness writes from the orbit's current values; `on_event(kind, orbit)` for 'new' / 'edit'"""
    from beyond.io.tle import Tle
    from beyond.dates import Date
    l1, l2 = h["lines"]
    ta, tb = Tle(l1 + "\n" + l2), Tle(h["lines_b"][0] + "\n" + h["lines_b"][1])
    orb = make_orbit(h["source"], l1, l2)
    if on_event:
        on_event("new", orb)
    offs = list(h["offsets_us"])

    def prop(stage):
        cur = fmt_tle(fields_of_orbit(orb))
        off = offs.pop(0) if offs else 3_600_000_000
        epoch_utc = orb.date.change_scale("UTC").datetime
        target = epoch_utc + off * US
        date = Date(target, scale="UTC")
        if h["label"] != "UTC":
            date = date.change_scale(h["label"])
        on_propagate(orb, cur, off, target, date, stage)
    if h["first_propagation"]:
        prop("first")
    for n, fields in enumerate(h["edits"]):
        for f in fields:
            if f == "back":
                for g in EDIT_FIELDS:
                    if g != "name":
                        apply_edit(orb, ta, g, h["how"])
            else:
                apply_edit(orb, tb, f, h["how"])
        if on_event:
            on_event("edit", orb)
        prop(f"after-edit-{n + 1}")
        if n == 0:
            prop(f"after-edit-{n + 1}-again")


def history_family(h, stage):
    ed = "+".join(sorted(set(f for fs in h["edits"] for f in fs))) or "none"
    return f"wrapper-history:{h['source']}:{'already-propagated' if h['first_propagation'] else 'never-propagated'}:edit={ed}:{stage}"


@contextlib.contextmanager
def frame_eq_by_name():
    """proposed_fixes/C07-frame-identity-after-pickle.diff applied in memory (nothing written): frames compare by name.  Used only to
    CLASSIFY a failing history of an unpickled orbit: if it disappears under this repair it belongs to the open finding
    C07-unpickled-orbit-frame-identity, any other failure keeps its own family"""
    from unittest.mock import patch
    from beyond.frames.frames import Frame
    with patch.object(Frame, "__eq__", lambda a, b: a.name == b.name if isinstance(b, Frame) else NotImplemented, create=True), \
            patch.object(Frame, "__hash__", lambda a: hash(a.name), create=True):
        yield


def check_history(out, h, classify=True):
    """oracle: after any history the default propagator returns the reference's state for the lines of the CURRENT values"""
    with eop(h.get("eop", "const")):
        _check_history(out, h, classify)


def _check_history(out, h, classify=True):
    if classify and h["source"] == "pickle":
        # an unpickled orbit carries Frame objects equal to no registered frame (open finding): run the history on its own, classify its failures
        sub = Outcome()
        _check_history(sub, h, classify=False)
        if sub.failures:
            rep_ = Outcome()
            with frame_eq_by_name():
                _check_history(rep_, h, classify=False)
            if not rep_.failures:
                for f in sub.failures:
                    f["family"] = "wrapper-history:unpickled-frame-identity"
        out.cases += sub.cases
        out.keys |= sub.keys
        out.failures += sub.failures
        for k, v in sub.dist.items():
            out.dist[k] = out.dist.get(k, 0) + v
        return
    inp = {"history": h}

    def on_propagate(orb, cur, off, target, date, stage):
        try:
            sat = reference(*cur)
        except Exception:
            # the values the orbit holds cannot be written as a TLE (eccentricity outside [0, 1) after a conversion …): no reference value
            out.tally("wrapper-history=current-values-not-a-TLE-skipped")
            return
        exp = ref_state(sat, target)
        edited = sorted(set(f for fs in h["edits"] for f in fs)) if stage != "first" else []
        crossed = tai_utc_of(target) - tai_utc_of(target - off * US)
        out.tally(f"wrapper-history-eop={_eop_mode[0]}/leap-seconds-crossed={'0' if crossed == 0 else 'yes'}")
        out.count(key=(tuple(h["lines"]), h["source"], tuple(edited), stage, off), kind="wrapper-history", source=h["source"], stage=stage, first=h["first_propagation"],
                  edited_numeric=any(f in NUMERIC_FIELDS or f == "back" for f in edited), ref="error" if exp is None else "ok")
        for f in edited or ["(none)"]:
            out.tally("history-edit-field=" + f)
        if exp is None:
            return
        try:
            got = [float(x) for x in orb.propagate(date)]
        except Exception as e:
            if tiny_fields(cur[0]):
                out.tally("wrapper-history=two-digit-exponent-left-to-pinned-corpus")
                return
            out.fail(history_family(h, stage) + ":raises-" + type(e).__name__, "default SGP4 propagator raises after in-place edits where the reference returns a state for the current element set",
                     dict(inp, stage=stage, current_lines=cur), observed=repr(e), expected=exp)
            return
        speed = norm(exp[3:])
        dp, dv = dist(got, exp)
        if not (dp <= tol_pos(speed) and all(map(math.isfinite, got))):
            out.fail(history_family(h, stage), "default SGP4 propagator does not return the reference's state for the element set the orbit holds NOW "
                     "(lines written by the harness from the orbit's current values)", dict(inp, stage=stage, current_lines=cur, offset_us=off, utc=target.isoformat()),
                     observed=got, expected=exp, dpos_m=dp, tol_m=tol_pos(speed))
    try:
        run_history(h, on_propagate)
    except Exception as e:
        if h["source"].startswith("omm"):
            out.tally("wrapper-history=" + h["source"] + "-load-raises-" + type(e).__name__ + "-(ccsds module, not an anchor of C07)")
            return
        raise


# ---------------------------------------------------------------- the native propagator as objects: several instances alive
#
# Sgp4Beta instances keep state between calls (`self.tle`, `self._init`).  Histories: 2-3 instances and 2-3 orbits alive at once, bound,
# re-bound, shallow-copied and asked to propagate in interleaved order, directly (`p.orbit = o; p.propagate(d)`) or through the orbit
# (`o.propagator = Sgp4Beta(); o.propagate(d)`).  Every reply must be bit for bit the reply of a fresh instance bound to the orbit that
# instance holds, and (full near-Earth model) the reference's within 1 cm.

def gen_native_history(rng, k):
    # (through Orbit.propagate a Sgp4Beta cannot be used at all: its `orbit` getter reads `_orbit`, which its setter never sets — outside the statement)
    n_orb, n_inst = rng.choice([2, 2, 3]), rng.choice([2, 2, 3])
    orbits = []
    for j in range(n_orb):
        p = base_fields(rng, ["near-drag", "near-full"][(k + j) % 2])
        if rng.random() < 0.2:
            FEATURES[rng.randrange(len(FEATURES))][1](p, rng, rng.randrange(2))
        if rng.random() < 0.25:
            p["year"], p["day"] = near_leap_epoch(rng, 8.0)
        orbits.append(list(fmt_tle(_fix(p))))
    day = 86_400_000_000
    ops = []
    if k % 2 == 0:
        # the plain pattern: bind every instance once, then use them in another order
        for i in range(n_inst):
            ops.append(["bind", i, i % n_orb])
        order = list(range(n_inst))
        rng.shuffle(order)
        for i in order + order[::-1]:
            ops.append(["prop", i, rng.choice([-1, 1]) * rng.randint(day // 24, 10 * day)])
    for _ in range(rng.randint(3, 9) if k % 2 else rng.randint(0, 4)):
        r = rng.random()
        if r < 0.3:
            ops.append(["bind", rng.randrange(n_inst), rng.randrange(n_orb)])
        elif r < 0.4:
            ops.append(["copy", rng.randrange(n_inst), rng.randrange(n_inst)])
        else:
            ops.append(["prop", rng.randrange(n_inst), rng.choice([-1, 1]) * rng.randint(day // 24, 10 * day)])
    return {"orbits": orbits, "instances": n_inst, "via": "direct", "ops": ops, "label": rng.choice(LABELS), "eop": rng.choice(["leap", "leap", "const", "zero"])}


def run_native_history(h, on_reply):
    """drive real Sgp4Beta instances through `h`; `on_reply(step, inst, orbit index, offset, date, state or exception)` per propagation.
    returns the token list of the same history for `Sgp4Inst.runSeq`"""
    import copy as _copy
    from beyond.io.tle import Tle
    from beyond.dates import Date
    from beyond.propagators.sgp4beta import Sgp4Beta
    orbs = [Tle(a + "\n" + b).orbit() for a, b in h["orbits"]]
    via = h["via"] == "orbit.propagate"
    insts = [Sgp4Beta() for _ in range(h["instances"])]
    bound = {}
    toks = []
    for step, op in enumerate(h["ops"]):
        if op[0] == "bind":
            _, i, o = op
            if via:
                # the orbit object carries the instance: a fresh copy of the orbit per binding, so that two instances may hold the same element set
                carrier = orbs[o].copy()
                carrier.propagator = insts[i]
                insts[i].orbit = carrier
            else:
                insts[i].orbit = orbs[o]
            bound[i] = o
            toks.append(f"b{i}:{o}")
        elif op[0] == "copy":
            _, i, j = op
            if i == j or i not in bound:
                continue
            insts[j] = _copy.copy(insts[i])
            bound[j] = bound[i]
            toks.append(f"b{j}:{bound[i]}")
        else:
            _, i, off = op
            if i not in bound:
                continue
            o = bound[i]
            epoch_utc = orbs[o].date.change_scale("UTC").datetime
            date = Date(epoch_utc + off * US, scale="UTC")
            if h["label"] != "UTC":
                date = date.change_scale(h["label"])
            try:
                got = [float(x) for x in (insts[i].orbit.propagate(date) if via else insts[i].propagate(date))]
            except Exception as e:
                got = e
            toks.append(f"p{i}")
            on_reply(step, i, o, off, date, got, orbs)
    return toks


def native_with(orbs, o, c, date):
    """state of an instance that uses the ELEMENTS of orbit o and the cached CONSTANTS of orbit c (o == c: a fresh instance bound to o)"""
    from beyond.propagators.sgp4beta import Sgp4Beta
    f = Sgp4Beta()
    f.orbit = orbs[c]
    if o != c:
        f.tle = orbs[o]
    return [float(x) for x in f.propagate(date)]


def check_native_history(out, h):
    with eop(h.get("eop", "const")):
        _check_native_history(out, h)


def _check_native_history(out, h):
    inp = {"native_history": h}
    fam = f"native-history:{h['instances']}-instances:{len(h['orbits'])}-orbits:{h['via']}"

    def on_reply(step, i, o, off, date, got, orbs):
        out.count(key=(repr(h["orbits"]), repr(h["ops"]), step), kind="native-history", via=h["via"], instances=h["instances"])
        if isinstance(got, Exception):
            out.fail(fam + ":raises-" + type(got).__name__, "a bound Sgp4Beta instance raises after an interleaving with other instances", dict(inp, step=step), observed=repr(got))
            return
        fresh = native_with(orbs, o, o, date)
        same = all(a == b or (math.isnan(a) and math.isnan(b)) for a, b in zip(got, fresh))
        if not same:
            dp, dv = dist(got, fresh)
            out.fail(fam, "a Sgp4Beta instance used after other instances were bound / used does not return what a fresh instance bound to the same orbit returns",
                     dict(inp, step=step, instance=i, orbit=o, offset_us=off), observed=got, expected=fresh, dpos_m=dp)
            return
        l1, l2 = h["orbits"][o]
        sat = reference(l1, l2)
        if sat.method == "n" and sat.isimp == 0:
            e0 = info_of_lines(l1, l2)["epoch"]
            tmin = elapsed_us(e0, e0 + off * US) / 60e6        # elapsed time between the instants (the native model's `date - self.tle.date`)
            out.tally(f"native-history-eop={_eop_mode[0]}/leap-seconds-crossed={'0' if tmin == off / 60e6 else 'yes'}")
            expn = ref_state_tsince(sat, tmin)
            tempa = 1 - sat.cc1 * tmin - sat.d2 * tmin ** 2 - sat.d3 * tmin ** 3 - sat.d4 * tmin ** 4
            if expn is not None and abs(tempa - 1) < 0.01:
                dp, dv = dist(got, expn)
                if not dp <= 0.01 + norm(expn[3:]) * 2e-6:
                    out.fail(fam + ":vs-reference", "native SGP4 (instance with a history) differs from the reference by more than 1 cm inside the full near-Earth model's domain",
                             dict(inp, step=step, instance=i, orbit=o, offset_us=off), observed=got, expected=expn, dpos_m=dp)
    run_native_history(h, on_reply)


def native_inst_cases(ctx, out):
    """real Sgp4Beta instances vs `Sgp4Inst.runSeq` (storage of the Init object as read from the source): the model names, per propagation, the
    orbit whose elements and the orbit whose cached constants the instance uses; the real reply must be bit for bit that combination"""
    rng = ctx.rng
    reqs, meta = [], []
    with eop():
        for k in range(ctx.n(60, 1200)):
            h = gen_native_history(rng, k)
            obs = []
            toks = run_native_history(h, lambda step, i, o, off, date, got, orbs: obs.append((step, i, o, date, got, orbs)))
            if not toks:
                continue
            reqs.append("natseq " + " ".join(toks))
            meta.append((h, obs))
            out.count(key=(repr(h["orbits"]), repr(h["ops"])), kind="native-instances", via=h["via"], instances=h["instances"], propagations=len(obs))
        replies = core.Driver().run(reqs)
        for req, (h, obs), rep in zip(reqs, meta, replies):
            toks = [] if rep == "-" else rep.split()
            if len(toks) != len(obs):
                out.fail("native-instances-model", "model rejected the history", {"native_history": h}, observed=len(obs), expected=rep)
                continue
            for (step, i, o, date, got, orbs), t in zip(obs, toks):
                if t == "unbound" or isinstance(got, Exception):
                    out.fail("native-instances", "instance unbound in the model / raising in the code", {"native_history": h, "step": step}, observed=repr(got), expected=t)
                    break
                mo, mc = (int(x) for x in t.split(":"))
                out.tally("native-instances-constants=" + ("own-orbit" if mo == mc else "another-orbit"))
                want = native_with(orbs, mo, mc, date)
                if mo != o or not all(a == b or (math.isnan(a) and math.isnan(b)) for a, b in zip(got, want)):
                    out.fail("native-instances", f"instance {i}: the model says elements of orbit {mo} with the constants of orbit {mc}; the code returns something else",
                             {"native_history": h, "step": step}, observed=got, expected=want)
                    break


def info_of_lines(l1, l2):
    """what the generator records about a TLE, recomputed from its text (pinned corpus, replay)"""
    year = int(l1[18:20])
    year += 1900 if year >= 57 else 2000
    info = {"n": float(l2[52:63]), "e": float("0." + l2[26:33]), "inc": float(l2[8:16]), "epoch": _dt.datetime(year, 1, 1) + _dt.timedelta(days=float(l1[20:32]) - 1)}
    a = (MU_KM / (info["n"] * 2 * math.pi / 86400) ** 2) ** (1 / 3)
    info["a_km"] = a
    info["perigee_km"] = a * (1 - info["e"]) - RE_KM
    return info


def pinned():
    import json
    return json.load(open(os.path.join(core.VERIF, "corpus", "C07_pinned.json")))["cases"]


def pinned_cases(out, rng):
    """corpus/C07_pinned.json: inputs of past findings (now fixed in /repo), run first on every tier through the same predicates,
    so that a defect that returns is reported in its old family (no open finding matches it any more: VIOLATION)"""
    for c in pinned():
        offs = []
        for k, off in enumerate(c["offsets_us"]):
            label = LABELS[k % len(LABELS)]
            offs.append((off, label, LABELS[(k + 2) % len(LABELS)]))
        for env in EOP_MODES:
            check_tle(out, rng, c["line1"], c["line2"], info_of_lines(c["line1"], c["line2"]), offs, env=env)
        out.tally("pinned-corpus-tle")


ENV_DRAW = ["leap", "leap", "leap", "const", "zero"]


def oracle(ctx, widened):
    out = Outcome()
    rng = ctx.rng
    N = 2500 if (widened or ctx.thorough) else 220
    with eop():
        pinned_cases(out, rng)
        # every branch point / exact field boundary deliberately, thresholds from both sides (gen_directed)
        for k in range((24 if (widened or ctx.thorough) else 4) * len(FEATURES)):
            l1, l2, info = gen_directed(rng, k)
            if rng.random() < 0.15:
                info["name"] = rng.choice(["ISS (ZARYA)", "0 VANGUARD 1", "X"])
            offsets = []
            for off in gen_directed_offsets(rng, info):
                label = rng.choice(LABELS)
                offsets.append((off, label, rng.choice([x for x in LABELS if x != label])))
            check_tle(out, rng, l1, l2, info, offsets, env="leap" if "leap-second" in info["feature"] else rng.choice(ENV_DRAW))
        # mutable orbits: every source x every edited input, before / after a first propagation (gen_history)
        for k in range((12 if (widened or ctx.thorough) else 1) * (len(SOURCES) * len(EDIT_FIELDS) + 60)):
            check_history(out, gen_history(rng, k))
        # several native instances alive, interleaved (gen_native_history)
        for k in range(600 if (widened or ctx.thorough) else 60):
            check_native_history(out, gen_native_history(rng, k))
        for _ in range(N):
            l1, l2, info = gen_tle(rng)
            if rng.random() < 0.1:
                info["name"] = rng.choice(["ISS (ZARYA)", "0 VANGUARD 1", "X"])
            offsets = []
            for _k in range(2):
                label = rng.choice(LABELS)
                offsets.append((gen_offset_us(rng), label, rng.choice([x for x in LABELS if x != label])))
            check_tle(out, rng, l1, l2, info, offsets, env=rng.choice(ENV_DRAW))
    out.tally("leap-table-vs-tests/data/pole/tai-utc.dat=" + leap_table_vs_file())
    out.sample({"checks": "wrapper vs python-sgp4 called directly (|v|*50us), timedelta argument, native vs reference theory at the same tsince (1 cm, full near-Earth model only), label independence of both"})
    return out


def replay(f):
    """re-run the recorded input (TLE lines, UTC instant, label) through the same predicates"""
    import random
    out = Outcome()
    i = f["input"]
    if "native_history" in i:
        check_native_history(out, i["native_history"])
        return out
    if "history" in i:
        check_history(out, i["history"])
        return out
    l1, l2 = i["line1"], i["line2"]
    info = info_of_lines(l1, l2)
    if i.get("name"):
        info["name"] = i["name"]
    label = i.get("label", "UTC")
    offs = [(i.get("offset_us", 0), label, o) for o in LABELS if o != label]
    check_tle(out, random.Random(0), l1, l2, info, offs, env=i.get("eop", "const"))
    return out


# ---------------------------------------------------------------- correspondence (1): the wrapper

class Recorder:
    """stands between beyond.propagators.sgp4 and the sgp4 package inside the harness process (no repository change):
    records the lines handed to twoline2rv and the arguments handed to satrec.propagate; delegates to the real library,
    or to a stub library (`lib : Lines -> UtcFields -> Km6` is a parameter of the model)"""

    def __init__(self, stub=False):
        self.stub = stub
        self.lines = None
        self.calls = []

    def twoline2rv(self, l1, l2, const, *extra, **kw):
        from sgp4.io import twoline2rv
        from sgp4.earth_gravity import wgs72
        self.lines = [l1, l2]
        self.binds = getattr(self, "binds", []) + [(l1, l2)]
        self.const_is_wgs72 = const is wgs72
        self.extra = (extra, kw)          # the model hands exactly (line1, line2, wgs72) to the library: its default mode of operation
        rec = self
        sat = None if self.stub else twoline2rv(l1, l2, const, *extra, **kw)

        class Proxy:
            def propagate(self, *args):
                rec.calls.append(args)
                if rec.stub:
                    return (1.0, -2.0, 3.5), (-4.0, 5.0, 6.25)
                return sat.propagate(*args)
        return Proxy()


_G1 = "1 26038U 99071A   17100.50000000  .00000000  00000-0  00000-0 0  999"
_G2 = "2 26038   0.0500  80.0000 0002000 120.0000 200.0000  1.00270000 1000"
GEO = (_G1 + str(checksum(_G1)), _G2 + str(checksum(_G2)))


def edge_datetimes(rng, n):
    """UTC datetimes 1957-2056 stressing the calendar split: month/year ends, leap days, midnight, microsecond extremes"""
    out = []
    for _ in range(n):
        y = rng.randint(1957, 2056)
        r = rng.random()
        if r < 0.25:
            m, d = rng.choice([(12, 31), (1, 1), (2, 28), (3, 1), (2, 29 if (y % 4 == 0 and (y % 100 != 0 or y % 400 == 0)) else 28), (6, 30), (7, 1), (10, 31), (11, 30)])
        else:
            m = rng.randint(1, 12)
            d = rng.randint(1, [31, 29 if (y % 4 == 0 and (y % 100 != 0 or y % 400 == 0)) else 28, 31, 30, 31, 30, 31, 31, 30, 31, 30, 31][m - 1])
        r = rng.random()
        if r < 0.2:
            h, mi, sec, us = rng.choice([(0, 0, 0, 0), (23, 59, 59, 999999), (0, 0, 0, 1), (23, 59, 59, 0), (12, 0, 0, 0), (0, 0, 37, 0), (23, 59, 23, 0)])
        else:
            h, mi, sec = rng.randint(0, 23), rng.randint(0, 59), rng.randint(0, 59)
            us = rng.choice([0, 1, 5, 10, 500000, 999999, rng.randint(0, 999999), rng.randint(0, 999999)])
        out.append(_dt.datetime(y, m, d, h, mi, sec, us))
    return out


def wrapper_cases(ctx, out):
    """real Sgp4 vs the model `Wrapper.run`: the arguments handed to the library must be exactly the model's tuple, and the
    result must be exactly 1000 x what the library returns for that tuple"""
    from unittest.mock import patch
    from beyond.io.tle import Tle
    from beyond.dates import Date, timedelta
    rng = ctx.rng
    reqs, meta = [], []
    with eop():
        # stream 1: stub library, edge dates, every label
        for target in edge_datetimes(rng, ctx.n(700, 20000)):
            label = rng.choice(LABELS)
            rec = Recorder(stub=True)
            with patch("beyond.propagators.sgp4.twoline2rv", rec.twoline2rv):
                orb = Tle(GEO[0] + "\n" + GEO[1]).orbit()
                date = Date(target, scale="UTC")
                if label != "UTC":
                    date = date.change_scale(label)
                res = [float(x) for x in orb.propagate(date)]
            utc_us = (date.change_scale("UTC").datetime - T0) // US
            drift = utc_us - (target - T0) // US
            off_us = tai_utc_of(target) * 1_000_000          # the harness's own table: the instant is (TAI clock, TAI-UTC of its day)
            reqs.append(f"sgp4utc {utc_us + off_us} {off_us}" if rng.random() < 0.7 else f"sgp4fields {utc_us}")
            meta.append(("stub", rec, res, {"utc": target.isoformat(), "label": label, "lib": "stub", "eop": _eop_mode[0], "line1": GEO[0], "line2": GEO[1]}, None))
            if abs(drift) > 1:
                out.fail("wrapper-utc-reading", "the UTC reading of a date built from a UTC datetime (through another label) is not that datetime", meta[-1][3], observed=utc_us, expected=(target - T0) // US)
            out.count(key=reqs[-1] + label, kind="fields-stub-lib", label=label, roundtrip_drift_us=drift, leap_seconds_between_epoch_and_date=tai_utc_of(target) != 37,
                      edge=("midnight" if target.time() == _dt.time(0) else "last-us" if target.microsecond == 999999 and target.second == 59 else "interior"))
        # stream 2: the installed sgp4 package, catalogue-like TLEs, +-30 d
        stream = [(c["line1"], c["line2"], info_of_lines(c["line1"], c["line2"])) for c in pinned()]
        for _ in range(ctx.n(300, 8000)):
            stream.append(None)
        for item in stream:
            l1, l2, info = item if item is not None else gen_tle(rng)
            off = gen_offset_us(rng)
            target = info["epoch"] + off * US
            label = rng.choice(LABELS)
            rec = Recorder()
            with patch("beyond.propagators.sgp4.twoline2rv", rec.twoline2rv):
                orb = Tle(l1 + "\n" + l2).orbit()
                date = Date(target, scale="UTC")
                if label != "UTC":
                    date = date.change_scale(label)
                use_td = label == "UTC" and rng.random() < 0.3
                try:
                    res = [float(x) for x in (orb.propagate(timedelta(microseconds=off)) if use_td else orb.propagate(date))]
                except TypeError:
                    res = None          # the library reported an error code (decayed object ...): `False + False`
                except Exception as e:
                    # the wrapper could not hand anything to the library (text regeneration failed): nothing to compare with the
                    # model here; the oracle reports it (family wrapper-regen:…)
                    out.tally("fields-real-lib=wrapper-raises-" + type(e).__name__ + "-left-to-oracle")
                    continue
            if use_td:
                date = orb.date + timedelta(microseconds=off)
            utc_us = (date.change_scale("UTC").datetime - T0) // US
            off_us = tai_utc_of(target) * 1_000_000
            reqs.append(f"sgp4utc {utc_us + off_us} {off_us}" if rng.random() < 0.7 else f"sgp4fields {utc_us}")
            meta.append(("real", rec, res, {"line1": l1, "line2": l2, "utc": target.isoformat(), "label": label, "offset_us": off, "timedelta": use_td, "eop": _eop_mode[0]}, (l1, l2)))
            if abs(utc_us - (target - T0) // US) > 1:
                out.fail("wrapper-utc-reading", "the UTC reading of the requested date is not the UTC datetime it was built from", meta[-1][3], observed=utc_us, expected=(target - T0) // US)
            out.count(key=(l1, off, label), nontrivial=off != 0, kind="fields-real-lib", label=label, lines="identical" if rec.lines == [l1, l2] else "differ",
                      leap_seconds_between_epoch_and_date=tai_utc_of(target) != tai_utc_of(info["epoch"]),
                      tiny_exponent_field=bool(tiny_fields(l1)), deep=info["n"] < 6.4, lib_error=res is None, arg="timedelta" if use_td else "date")
        # malformed request: the model rejects what cannot be a datetime
        reqs.append("sgp4fields -5")
        meta.append(("bad", None, None, None, None))
    replies = core.Driver().run(reqs)
    for req, (kind, rec, res, inp, lines), rep in zip(reqs, meta, replies):
        if kind == "bad":
            if rep != "value-error":
                out.fail("wrapper-fields", "model accepts a negative microsecond count", req, observed="(n/a)", expected=rep)
            continue
        toks = rep.split()
        if len(toks) != 7:
            out.fail("wrapper-fields", "model rejected the request", inp, observed=rec.calls, expected=rep)
            continue
        y, mo, d, h, mi, sus = (int(t) for t in toks[:6])
        sec = b2f(toks[6])
        model_args = (float(y), float(mo), float(d), float(h), float(mi), sec)
        if sec != float(f"{sus // 10**6:02d}.{sus % 10**6:06d}"):
            out.fail("wrapper-fields", "Lean's decimal->double conversion of SS.ffffff differs from Python's", inp, observed=float(f"{sus // 10**6:02d}.{sus % 10**6:06d}"), expected=sec)
        if len(rec.calls) != 1 or tuple(rec.calls[0]) != model_args or not all(type(a) is float for a in rec.calls[0]):
            # off by more than the library's time resolution: the state is not the reference's for that instant (the property itself, not only the model)
            far = len(rec.calls) != 1 or len(rec.calls[0]) != 6 or tuple(rec.calls[0][:5]) != model_args[:5] or abs(rec.calls[0][5] - sec) > 50e-6
            out.fail("wrapper-fields", "arguments handed to satrec.propagate differ from the model's UTC tuple", inp, observed=[list(c) for c in rec.calls], expected=list(model_args),
                     violates_property=bool(far))
            continue
        if not rec.const_is_wgs72:
            out.fail("wrapper-gravity", "twoline2rv is not called with the WGS-72 constants", inp, observed="other", expected="wgs72")
        if rec.extra != ((), {}):
            out.fail("wrapper-opsmode", "twoline2rv is called with more than (line1, line2, wgs72): the reference is the library in its default (improved) mode of operation",
                     inp, observed=repr(rec.extra), expected="no further argument")
        if kind == "stub":
            expect = [1000.0, -2000.0, 3500.0, -4000.0, 5000.0, 6250.0]
        else:
            # the model's right-hand side: 1000 x (library on the lines it was given, on the model's tuple), bit for bit
            sat = reference(*rec.lines)
            p, v = sat.propagate(*model_args)
            expect = None if p is False else [x * 1000 for x in tuple(p) + tuple(v)]
        same = (res is None and expect is None) or (res is not None and expect is not None and len(res) == len(expect)
                                                     and all(a == b or (math.isnan(a) and math.isnan(b)) for a, b in zip(res, expect)))
        if not same:
            out.fail("wrapper-scale", "wrapper result is not exactly 1000 x the library's result for the model's arguments", inp, observed=res, expected=expect)
        out.sample({"request": req, "handed_to_library": list(rec.calls[0]), "model": rep}, limit=2)


# ---------------------------------------------------------------- correspondence (2): the native model

def native_cases(ctx, out):
    """Sgp4Beta (setter + propagate) vs the Lean model translated from its source, rtol 1e-9"""
    from beyond.io.tle import Tle
    from beyond.dates import Date, timedelta
    from beyond.propagators.sgp4beta import Sgp4Beta
    rng = ctx.rng
    reqs, meta = [], []
    pn = probe("native")
    seen = {}

    def note(outcomes):
        tally_branches(out, "branch-native", outcomes)
        for g, v in outcomes.items():
            seen.setdefault(g, set()).add(v)
    with eop():
        n_dir = ctx.n(3, 24) * len(FEATURES)
        k = 0
        while k < n_dir + ctx.n(500, 12000):
            if k < n_dir:
                # every branch point / exact field boundary deliberately, thresholds from both sides (gen_directed)
                l1, l2, info = gen_directed(rng, k)
                out.tally("native-directed-feature=" + info["feature"].split("+")[0] + f"/side{info['side']}")
            else:
                l1, l2, info = gen_tle(rng)
                if info["n"] < 6.4 and rng.random() < 0.9:
                    continue        # the native model has no deep-space part; a few such inputs are kept (it computes the same formulas on them)
            k += 1
            orb = Tle(l1 + "\n" + l2).orbit()
            nat = Sgp4Beta()
            with pn.watch():
                nat.orbit = orb
            note(pn.outcomes())
            elems = [float(x) for x in orb] + [float(orb.bstar)]
            init = [float(getattr(nat._init, f)) for f in INIT_FIELDS]
            reqs.append("sgp4init " + " ".join(f2b(x) for x in elems))
            meta.append(("init", init, {"line1": l1, "line2": l2}, None))
            low = (init[2] * (1 - elems[2]) - 1) * RE_KM
            out.count(key=(l1, l2, "init"), kind="native-init", perigee="<98" if low < 98 else "<156" if low < 156 else ">=156", ecc="e<=1e-4" if elems[2] <= 1e-4 else "e>1e-4",
                      retro=info["inc"] > 90)
            offs = gen_directed_offsets(rng, info) if info.get("feature") and (rng.random() < 0.7 or info["feature"].startswith("decayed")) else [gen_offset_us(rng), gen_offset_us(rng)]
            for off in offs:
                label = rng.choice(LABELS)
                use_td = rng.random() < 0.2
                if use_td:
                    arg = timedelta(microseconds=off)
                    tdiff = arg.total_seconds() / 60.0
                else:
                    arg = orb.date + timedelta(microseconds=off)
                    if label != "UTC":
                        arg = arg.change_scale(label)
                    tdiff = (arg - orb.date).total_seconds() / 60.0
                with pn.watch():
                    real = [float(x) for x in nat.propagate(arg)]
                note(pn.outcomes())
                ii = nat._init
                tempa = 1 - ii.C1 * tdiff - ii.D2 * tdiff ** 2 - ii.D3 * tdiff ** 3 - ii.D4 * tdiff ** 4
                if not abs(tempa - 1) < 0.2:
                    # the drag polynomial has left its range of validity (object decayed / radius of 1e16 m): the formulas are
                    # ill-conditioned there and a last-bit difference of libm is amplified beyond any tolerance
                    out.tally("native-propagate=drag-polynomial-blown-up-skipped")
                    continue
                reqs.append("sgp4beta " + " ".join(f2b(x) for x in elems + [tdiff]))
                meta.append(("prop", real, {"line1": l1, "line2": l2, "offset_us": off, "label": label, "tdiff_min": tdiff}, info))
                out.count(key=(l1, l2, off), nontrivial=off != 0, kind="native-propagate", sign="t<0" if off < 0 else "t>=0", ecc="e<=1e-4" if elems[2] <= 1e-4 else "e>1e-4",
                          retro=info["inc"] > 90, arg="timedelta" if use_td else "date", deep=info["n"] < 6.4)
        # what the real code rejects: an orbit that is not in TLE form, a date that is neither a Date nor a timedelta
        cart = orb.copy(form="cartesian")
        for what, call in (("setter: non-TLE orbit", lambda: setattr(Sgp4Beta(), "orbit", cart)), ("propagate: float argument", lambda: nat.propagate(12.5))):
            try:
                with pn.watch():
                    call()
                out.fail("native-contract", f"{what} is accepted by Sgp4Beta (the model has no value for it)", what, observed="returned", expected="TypeError")
            except TypeError:
                note(pn.outcomes())
                out.count(key=what, kind="native-rejects", what=what)
    # the generator must have driven the real code through both sides of every guard of the source as it is NOW (guards are read
    # from the AST on every run): a guard added or reworded by a maintainer that the directed generator does not reach from both
    # sides makes this correspondence incomplete, and the check says so instead of passing
    for g in pn.labels():
        if seen.get(g, set()) != {"T", "F"}:
            out.fail("native-branch-coverage", f"guard `{g}` of sgp4beta.py was only driven to {sorted(seen.get(g, set()))} by the generators: extend FEATURES", g,
                     observed=sorted(seen.get(g, set())), expected=["F", "T"])
    reqs.append("sgp4beta 1 2 3")
    meta.append(("bad", None, None, None))
    replies = core.Driver().run(reqs)
    for req, (kind, real, inp, info), rep in zip(reqs, meta, replies):
        if kind == "bad":
            if rep != "bad-op":
                out.fail("native-model", "model accepts a truncated request", req, expected=rep)
            continue
        if not rep or not rep[0].isdigit():
            out.fail("native-model", "model rejected the request", inp, observed=real, expected=rep)
            continue
        model = [b2f(t) for t in rep.split()]
        if len(model) != len(real):
            out.fail("native-model", "model returned a different number of values", inp, observed=real, expected=model)
            continue
        if kind == "init":
            bad = [INIT_FIELDS[j] for j, (a, b) in enumerate(zip(real, model)) if not core.close(a, b, rtol=1e-9, atol=1e-300)]
            if bad:
                out.fail("native-init", f"cached init values {bad} differ between Sgp4Beta and the Lean model", inp, observed=dict(zip(INIT_FIELDS, real)), expected=dict(zip(INIT_FIELDS, model)))
        else:
            if not all(map(math.isfinite, real)) and not all(map(math.isfinite, model)):
                out.tally("native-propagate=non-finite-both")
                continue
            rs, vs = max(norm(real[:3]), norm(model[:3])), max(norm(real[3:]), norm(model[3:]))
            dp, dv = dist(real, model)
            # the state depends on the mean longitude ~ n t (thousands of radians): rounding differences of 1e-16 relative there are ~1e-13 rad
            if not (dp <= 1e-9 * rs and dv <= 1e-9 * vs):
                out.fail("native-propagate", "state differs between Sgp4Beta.propagate and the Lean model", inp, observed=real, expected=model, dpos_rel=dp / rs)
            out.sample({"request": req[:60] + "…", "impl": real, "model": model}, limit=4)


# ---------------------------------------------------------------- correspondence (3): the hand-written reference spec vs the sgp4 package

REF_FIELDS = ["isimp", "deep", "no_unkozai", "a", "eta", "cc1", "cc3", "cc4", "cc5", "mdot", "argpdot", "nodedot", "omgcof", "xmcof", "nodecf", "t2cof", "xlcof", "aycof",
              "d2", "d3", "d4", "t3cof", "t4cof", "t5cof"]


def angle_close(a, b, atol):
    d = (a - b) % (2 * math.pi)
    return min(d, 2 * math.pi - d) <= atol


def refspec_cases(ctx, out):
    """`templates/Sgp4Ref.tpl` (the transcription of the reference's near-Earth path that the theorems equate the native
    model with) against python-sgp4 itself: every coefficient `sgp4init` stores in the satellite record, the model switches
    (isimp, deep space), and for objects in the full near-Earth model the mean elements after `sgp4(satrec, t)` and the state"""
    from sgp4.propagation import sgp4 as core_sgp4
    rng = ctx.rng
    reqs, meta = [], []
    n_dir = ctx.n(3, 24) * len(FEATURES)
    for k in range(n_dir + ctx.n(300, 6000)):
        l1, l2, info = gen_directed(rng, k) if k < n_dir else gen_tle(rng)
        sat = reference(l1, l2)
        el = [sat.ecco, sat.inclo, sat.nodeo, sat.argpo, sat.mo, sat.no_kozai, sat.bstar]
        deep, full = sat.method == "d", sat.method == "n" and sat.isimp == 0
        reqs.append("refinit " + " ".join(f2b(x) for x in (sat.ecco, sat.inclo, sat.argpo, sat.no_kozai, sat.bstar)))
        exp = {f: getattr(sat, f, None) for f in REF_FIELDS}
        exp.update(deep=1.0 if deep else 0.0, isimp=1.0 if (sat.isimp and not deep) or (deep and (sat.altp + 1.0) < 220.0 / RE_KM + 1.0) else 0.0)
        if not full:
            for f in ("d2", "d3", "d4", "t3cof", "t4cof", "t5cof"):
                exp[f] = None          # only set by the package in the full model
        if deep:
            exp["xlcof"] = exp["aycof"] = None     # overwritten by every call of sgp4() for deep-space objects
        exp["cc3"] = None              # a local of sgp4init (omgcof = bstar cc3 cos argpo is stored)
        meta.append(("init", exp, {"line1": l1, "line2": l2}))
        out.count(key=(l1, l2, "refinit"), kind="refspec-init", model="sdp4" if deep else "sgp4-full" if full else "sgp4-simple", **{"ecco>1e-4": sat.ecco > 1e-4},
                  perige="<98" if sat.altp * RE_KM < 98 else "<156" if sat.altp * RE_KM < 156 else "<220" if sat.altp * RE_KM < 220 else ">=220",
                  xlcof_guard=abs(math.cos(sat.inclo) + 1.0) > 1.5e-12)
        if not full:
            continue
        for off in (gen_directed_offsets(rng, info) if k < n_dir else [gen_offset_us(rng), gen_offset_us(rng)]):
            t = off / 60e6
            r, v = core_sgp4(sat, t)
            if r is False or sat.error != 0:
                sat.error = 0
                out.tally("refspec-sgp4=reference-error-skipped")
                continue
            tempa = 1 - sat.cc1 * t - sat.d2 * t ** 2 - sat.d3 * t ** 3 - sat.d4 * t ** 4
            if not abs(tempa - 1) < 0.2:
                out.tally("refspec-sgp4=drag-polynomial-blown-up-skipped")
                continue
            reqs.append("refsgp4 " + " ".join(f2b(x) for x in el + [t]))
            meta.append(("sgp4", {"am": sat.am, "em": sat.em, "om": sat.om, "Om": sat.Om, "mm": sat.mm, "state": list(r) + list(v)}, {"line1": l1, "line2": l2, "tsince_min": t}))
            out.count(key=(l1, l2, off, "refsgp4"), nontrivial=off != 0, kind="refspec-sgp4", sign="t<0" if t < 0 else "t>=0", em_floor=sat.em == 1e-6, **{"ecco>1e-4": sat.ecco > 1e-4})
    replies = core.Driver().run(reqs)
    for req, (kind, exp, inp), rep in zip(reqs, meta, replies):
        if not rep or not rep[0].isdigit():
            out.fail("refspec", "reference spec rejected the request", inp, expected=rep)
            continue
        got = [b2f(t) for t in rep.split()]
        if kind == "init":
            if len(got) != len(REF_FIELDS):
                out.fail("refspec-init", "reference spec returned a different number of values", inp, observed=exp, expected=got)
                continue
            bad = [f for f, g in zip(REF_FIELDS, got) if exp[f] is not None and not core.close(float(exp[f]), g, rtol=1e-9, atol=1e-300)]
            if bad:
                out.fail("refspec-init", f"satellite record fields {bad} of python-sgp4 differ from the reference spec (templates/Sgp4Ref.tpl)", inp,
                         observed={f: exp[f] for f in bad}, expected={f: g for f, g in zip(REF_FIELDS, got) if f in bad})
        else:
            if len(got) != 11:
                out.fail("refspec-sgp4", "reference spec returned a different number of values", inp, observed=exp, expected=got)
                continue
            am, em, argpm, nodem, mm = got[:5]
            st = got[5:]
            ok = (core.close(exp["am"], am, rtol=1e-9) and core.close(exp["em"], em, rtol=1e-9, atol=1e-13) and angle_close(exp["om"], argpm, 1e-9)
                  and angle_close(exp["Om"], nodem, 1e-9) and angle_close(exp["mm"], mm, 1e-9))
            dp, dv = dist(exp["state"], st)
            if not (ok and dp <= 1e-9 * norm(st[:3]) and dv <= 1e-9 * norm(st[3:])):
                out.fail("refspec-sgp4", "mean elements or state of python-sgp4's sgp4() differ from the reference spec (templates/Sgp4Ref.tpl)", inp,
                         observed=exp, expected={"am": am, "em": em, "argpm": argpm, "nodem": nodem, "mm": mm, "state": st})
            out.sample({"request": req[:50] + "…", "python-sgp4": exp["state"], "spec": st}, limit=2)


# ---------------------------------------------------------------- correspondence (4): the binding state machine

REC_FIELDS = ["satnum", "epochyr", "epochdays", "ndot", "bstar", "inclo", "nodeo", "ecco", "argpo", "mo", "no_kozai"]


def record_of(lines):
    sat = reference(*lines)
    return tuple(getattr(sat, f) for f in REC_FIELDS)


def binding_cases(ctx, out):
    """real Orbit / Sgp4 objects driven through random histories (sources x in-place edits x propagations) against `Sgp4Wrap.runSeq`
    (`Machine.step`): the setter must run exactly when the model says, and the lines it hands to twoline2rv must be the ones the harness
    writes from the values of the version the model names (always the current one when the key changed)"""
    from unittest.mock import patch
    rng = ctx.rng
    reqs, meta = [], []
    with eop():
        for k in range(ctx.n(1, 8) * (len(SOURCES) * len(EDIT_FIELDS) + 60)):
            h = gen_history(rng, k)
            rec = Recorder()
            rec.binds = []
            toks, obs, versions, keys = [], [], [], {}

            def on_propagate(orb, cur, off, target, date, stage):
                key = history_key(orb)
                kid = keys.setdefault(key, len(keys))
                if (kid, cur) not in versions:
                    versions.append((kid, cur))
                ver = versions.index((kid, cur))
                toks.extend([f"e{kid}:{ver}", "p"])
                n0 = len(rec.binds)
                try:
                    orb.propagate(date)
                    err = None
                except TypeError:
                    err = None           # the library reported an error code: `False + False`
                except Exception as e:
                    err = repr(e)
                obs.append((len(rec.binds) - n0, rec.binds[-1] if rec.binds else None, stage, err))
            try:
                with patch("beyond.propagators.sgp4.twoline2rv", rec.twoline2rv):
                    run_history(h, on_propagate)
            except Exception as e:
                out.tally("binding=" + h["source"] + "-raises-" + type(e).__name__ + "-left-to-oracle")
                continue
            if any(o[3] for o in obs):
                out.tally("binding=wrapper-raises-left-to-oracle")
                continue
            reqs.append("wrapseq " + " ".join(toks))
            meta.append((h, obs, versions))
            out.count(key=(tuple(h["lines"]), h["source"], repr(h["edits"])), kind="binding-history", source=h["source"], first=h["first_propagation"], propagations=len(obs))
    replies = core.Driver().run(reqs)
    for req, (h, obs, versions), rep in zip(reqs, meta, replies):
        toks = rep.split()
        if len(toks) != len(obs):
            out.fail("binding-model", "model rejected the history", {"history": h}, observed=obs, expected=rep)
            continue
        for (nb, lines, stage, _e), t in zip(obs, toks):
            ran, ver = t.split(":")
            out.tally(f"binding-setter-ran={ran}")
            if (nb > 0) != (ran == "1") or nb > 1:
                out.fail("binding-rebind", f"the orbit setter ran {nb} time(s) during this propagation, the model says {ran}", {"history": h, "stage": stage}, observed=nb, expected=int(ran))
                break
            want = versions[int(ver)][1]
            if h["source"] == "pickle" and lines is not None and list(lines) != list(want):
                # open finding C07-unpickled-orbit-frame-identity: `regen` (Tle.from_orbit, a parameter of the wrapper model) sends an unpickled
                # orbit through a TEME -> TEME conversion; the oracle reports and classifies it, the binding logic is compared on the event only
                out.tally("binding=unpickled-orbit-regen-differs-(open finding, left to the oracle)")
                continue
            try:
                same = lines is not None and record_of(lines) == record_of(want)
            except Exception:
                same = lines is not None and list(lines) == list(want)
            if not same:
                # what moves the state: epoch, B*, the six elements (not the catalogue number, not ndot — SGP4 does not read it)
                moves = [k for k, f in enumerate(REC_FIELDS) if f not in ("satnum", "ndot")]
                numeric = lines is None or [record_of(lines)[k] for k in moves] != [record_of(want)[k] for k in moves]
                out.fail(history_family(h, stage) + ":lines", "the lines handed to twoline2rv are not those of the values the orbit holds (version named by the model)",
                         {"history": h, "stage": stage}, observed=list(lines) if lines else None, expected=list(want), violates_property=bool(numeric))
                break
        out.sample({"request": req[:80], "model": rep, "setter_ran": [o[0] for o in obs]}, limit=2)


def correspondence(ctx):
    out = Outcome()
    wrapper_cases(ctx, out)
    binding_cases(ctx, out)
    native_inst_cases(ctx, out)
    native_cases(ctx, out)
    refspec_cases(ctx, out)
    return out
