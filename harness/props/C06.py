"""C06 — numerical propagation converges to the true two-body solution."""
import ast
import math
import os
import time

from harness import core, py2lean, instantiate
from harness.core import Outcome, f2b, b2f

ID = "C06"
LEAN_TARGETS = ["BeyondVerif.Props.C06", "BeyondVerif.Props.C06Iter", "BeyondVerif.Props.C06Conv", "BeyondVerif.Props.C06Adapt", "BeyondVerif.Props.C06Gen", "BeyondVerif.Props.C06Est"]
THEOREMS = [
    "BeyondVerif.C06.trees_orders_gammas",
    "BeyondVerif.C06.euler_order1",
    "BeyondVerif.C06.rk4_order4",
    "BeyondVerif.C06.rkf54_b_order5",
    "BeyondVerif.C06.rkf54_bstar_order4",
    "BeyondVerif.C06.dopri54_b_order5",
    "BeyondVerif.C06.dopri54_bstar_order4",
    "BeyondVerif.C06.butcher_cases",
    "BeyondVerif.C06.tableaux_wellformed",
    "BeyondVerif.C06.row_sums",
    "BeyondVerif.C06.dopri_fsal_row",
    "BeyondVerif.C06.accel_newton",
    "BeyondVerif.C06.accel_central",
    "BeyondVerif.C06.accel_energy",
    "BeyondVerif.C06.fixed_step_single",
    "BeyondVerif.C06.adaptive_accepts_within_tol",
    "BeyondVerif.C06.accepted_at_once",
    "BeyondVerif.C06.quadrature_exact_euler",
    "BeyondVerif.C06.quadrature_exact_rk4",
    "BeyondVerif.C06.quadrature_exact_rkf54",
    "BeyondVerif.C06.quadrature_exact_dopri54",
    "BeyondVerif.C06.linear_test_euler",
    "BeyondVerif.C06.linear_test_rk4",
    "BeyondVerif.C06.linear_test_order5",
    "BeyondVerif.C06.step_scale_law",
    "BeyondVerif.C06.step_scale_shrinks",
    "BeyondVerif.C06.step_scale_shrinks_backward",
    "BeyondVerif.C06.runOps_get",
    "BeyondVerif.C06.reuse_eq_fresh",
    "BeyondVerif.C06.result_depends_on_current_values_only",
    "BeyondVerif.C06.current_method_selects_step",
    "BeyondVerif.C06.current_method_selects_fixed_step",
    "BeyondVerif.C06.current_tol_bounds_accepted_step",
    "BeyondVerif.C06.copy_keeps_settings",
    "BeyondVerif.C06.butcher_names",
    "BeyondVerif.C06.copy_then_call",
    "BeyondVerif.C06.out_independent_of_binding",
    "BeyondVerif.C06.bind_uses_current_frame",
    "BeyondVerif.C06.orbit_call_steps_from_current_view",
    "BeyondVerif.C06.orbit_call_independent_of_previous_binding",
    "BeyondVerif.C06.copy_drops_binding",
    "BeyondVerif.C06.frame_change_does_not_rebind",
    "BeyondVerif.C06.bind_unknown_frame",
    "BeyondVerif.C06.marchWith_exit",
    "BeyondVerif.C06.marchWith_consumes",
    "BeyondVerif.C06.marchWith_incr",
    "BeyondVerif.C06.interpFlag_spec",
    "BeyondVerif.C06.march_reaches_stop_and_pads",
    "BeyondVerif.C06.pad_length",
    "BeyondVerif.C06.position_full_order",
    "BeyondVerif.C06.iter_interpolates_at_full_order",
    "BeyondVerif.C06.outputs_inside_tabulation",
    "BeyondVerif.C06.output_props_distinct",
    "BeyondVerif.C06.output_props_range",
    "BeyondVerif.C06.outputs_props_distinct",
    "BeyondVerif.C06.runReqs_own",
    "BeyondVerif.C06.sibling_requests_independent",
    "BeyondVerif.C06.relative_stop_counts_from_start",
    "BeyondVerif.C06.relative_target_counts_from_epoch",
    # convergence (Props/C06Conv.lean on Lemmas/Gronwall, OneStep, Gravity)
    "BeyondVerif.Gronwall.discrete_gronwall",
    "BeyondVerif.Gronwall.one_step_global_error",
    "BeyondVerif.OneStep.taylor1_remainder",
    "BeyondVerif.OneStep.euler_local_error_ode",
    "BeyondVerif.OneStep.rk4_step_lipschitz",
    "BeyondVerif.Gravity.grav_lipschitz",
    "BeyondVerif.Gravity.hasGradientAt_potential",
    "BeyondVerif.C06.rkOnce_euler_coords",
    "BeyondVerif.C06.rkOnce_rk4_coords",
    "BeyondVerif.C06.accelCentral_coords",
    "BeyondVerif.C06.euler_local_truncation",
    "BeyondVerif.C06.euler_global_error_general",
    "BeyondVerif.C06.euler_global_error",
    "BeyondVerif.C06.euler_two_body_converges",
    "BeyondVerif.C06.rk4_linear_system",
    "BeyondVerif.C06.rkOnce_rk4_linear_system",
    "BeyondVerif.C06.rk4_local_to_global",
    "BeyondVerif.C06.rk4_global_error_partial",
    "BeyondVerif.C06.rk4_converges",
    "BeyondVerif.C06.rk4_linear_converges_order4",
    "BeyondVerif.C06.accel_is_gradient",
    "BeyondVerif.C06.energy_first_integral",
    "BeyondVerif.C06.angular_momentum_first_integral",
    "BeyondVerif.C06.circ_solves",
    # the general one-step theorem for a tableau (Props/C06Gen.lean)
    "BeyondVerif.C06.rkOnce_coords",
    "BeyondVerif.C06.butcher_shaped",
    "BeyondVerif.C06.stepE_sub_euler",
    "BeyondVerif.C06.stepE_lipschitz",
    "BeyondVerif.C06.rk_converges",
    "BeyondVerif.C06.butcher_consistent",
    "BeyondVerif.C06.every_integrator_converges",
    # the adaptive controller (Props/C06Adapt.lean)
    "BeyondVerif.C06.usRound_close",
    "BeyondVerif.C06.step_scale_contracts",
    "BeyondVerif.C06.adaptive_terminates",
    "BeyondVerif.C06.adaptive_terminates_of_order",
    # the estimate is the difference of the two embedded solutions (Props/C06Est.lean)
    "BeyondVerif.C06.lincomb_sub",
    "BeyondVerif.C06.errEst_eq_solution_difference",
]
LEVEL_TEXT = ("Lean theorems over R about the four Butcher tableaux, the per-body attraction, the step-size update and MAX_ITER translated from "
              "keplernum.py on every run: all rooted-tree order conditions (Euler 1; RK4 all 8 up to order 4; RKF54 and DOPRI54 all 17 up to order 5 for "
              "the propagated weights, all 8 up to order 4 for the embedded weights), row sums and shape for every integrator, FSAL row; the modelled "
              "field is Newton's law, central and energy-conserving. CONVERGENCE (Props/C06Conv on Lemmas/Gronwall, OneStep, Gravity): the discrete "
              "Gronwall inequality and the global error of any one-step method in a normed space (local error <= C h^(p+1), step map (1+h Lambda)-"
              "Lipschitz => global error <= C h^p (e^(Lambda T)-1)/Lambda, by induction on the number of steps); for the model's generic step on the "
              "regenerated Euler tableau: local truncation error <= (h^2/2) sup|y''| (Taylor, mean-value inequality), global error <= (B h/2)(e^(L T)-1) "
              "for every autonomous field bounded by B and L-Lipschitz on a set containing the exact and the numerical states, and with explicit constants "
              "B = max(v_max, mu/r_min^2), L = max(1, 2 mu/r_min^3) for the regenerated two-body field on |r| >= r_min, |v| <= v_max (first order, fully "
              "proved; the circular orbit satisfies every hypothesis); the attraction is 2mu/m^3-Lipschitz on the whole (non-convex) exterior |r| >= m, is "
              "the gradient of mu/|r| (HasGradientAt), and energy and every component of r x v have derivative 0 along ANY solution of the modelled "
              "equation of motion; the model's step on the regenerated RK4 tableau IS the classical Runge-Kutta map, which is "
              "(1+z+z^2/2+z^3/6+z^4/24)-Lipschitz (z = hL), equals the degree-4 Taylor polynomial of exp(hA) on every linear system y' = A y, converges "
              "unconditionally (order >= 1) for globally Lipschitz bounded autonomous fields — as does EVERY well-shaped tableau whose weights sum to 1 "
              "(Props/C06Gen: the model's generic rkOnce is the normed-space step stepE in coordinates for any such tableau; consistency "
              "|step - Euler| <= (sum|b_i|) alpha L B h^2; step map (1 + h L sum|b_i| (1+hL alpha)^(s-1))-Lipschitz; rk_converges; instantiated for "
              "all four regenerated tableaux, alpha = 25: every_integrator_converges) —, at order 4 GIVEN the local error C h^5 (_partial), and at "
              "order 4 with no hypothesis left on the linear test equation (local error = exp remainder <= |y||h lambda|^5/100). ADAPTIVE CONTROLLER "
              "(Props/C06Adapt): an adaptive step is only accepted with its embedded estimate <= tol; a rejected pass contracts the step by at least "
              "(1/2)^(1/(s-1)) whatever its sign, also through timedelta's rounding to microseconds; the step-size loop ends within its fuel whenever the "
              "estimate is within tol for all |h| <= h* (e.g. an O(h^m) estimate, h* = (tol/K)^(1/m)) and theta^fuel |h| + fuel*0.5us <= h*. For the modelled "
              "step also: exact quadrature of polynomial right-hand sides of degree < p, Taylor polynomial of exp on the linear test equation. "
              "One KeplerNum object through any history of attribute assignments (method, step, tol, bodies, FRAME, in-place list changes), BINDINGS "
              "(prop.orbit = orb stores the caller's orbit converted to the frame current at that moment), copy() and calls: the reply to a call is a "
              "function of the CURRENT attribute values only (= the reply of a fresh object), an Orbit-level call (bind, then step) integrates the caller's "
              "orbit as seen in the current frame with the current settings whatever was bound before (another satellite, another frame), copy() keeps "
              "every setting incl. the frame and starts unbound, a frame assigned after a binding does not re-bind (why Orbit.propagate re-binds at every "
              "call). The request as written by the caller (NumericalPropagator.iter / propagate translated from base.py on every run): a relative stop "
              "is counted from the start of the request, a relative target from the epoch. The padding rule of _iter "
              "(loop condition, interp flag, padding count, order argument of Ephem(...) and DEFAULT_ORDER translated from the source on every run): "
              "whenever an output is interpolated the tabulation holds >= DEFAULT_ORDER points, starts at the start, reaches the stop and is interpolated "
              "at order DEFAULT_ORDER however short the span; the same for the positioning phase of propagate(). The object graph of outputs (position of "
              "self.copy() relative to the yield loop translated from the source): the propagators carried by all points of all outputs are pairwise "
              "distinct and distinct from the receiver's, so requests on sibling points, interleaved in any order (bind at call, read at first "
              "consumption), each return their own orbit's trajectory. The step model, the object histories "
              "and the tabulations are tied to KeplerNum._make_step/_accel, to real objects driven through the same histories, and to the Ephem objects "
              "the real _iter builds, by differential correspondence runs.")
LEVEL_NOTE = ("order 4 of RK4 (and 5 of the adaptive pairs) for a general smooth field rests on the local-error hypothesis of rk4_global_error_partial: "
              "Butcher's theorem 'order conditions up to p => local error O(h^(p+1))' (Taylor expansion against elementary differentials) is cited, not "
              "formalised beyond p = 1 and beyond linear problems; the convergence theorems are about the MODEL (exact real arithmetic, numerical states "
              "assumed to stay in |r| >= r_min, |v| <= v_max) with constants exponential in the span (e^(L T), L >= 1/s in the unweighted sup norm: an order "
              "statement, not a usable error budget); convergence of the real propagator, the size of the first-integral drift, the true local error of an "
              "accepted adaptive step (<= 2 tol) and resampling independence are searched by the oracle only; the Lagrange window arithmetic of "
              "utils/interp.py is C09's; R -> double gap covered by tolerance-bounded correspondence; Lean kernel + propext/Classical.choice/Quot.sound; "
              "AST translator and harness trusted")
TECHNIQUE = ("Lean 4 proof (norm_num / ring / rpow lemmas / induction on fuel, on histories, on the number of steps and on the list of accepted step "
             "sizes / omega; Mathlib's mean-value inequalities, inner-product calculus, exp series bound) over tables, formulas, loop conditions and "
             "request normalisation regenerated from the Python AST; differential correspondence of the compiled models with KeplerNum._make_step/_accel, "
             "with real objects driven through random operation sequences (incl. frame changes and bindings), with the (start, stop) the real _iter receives "
             "and with the tabulations it hands to Ephem")
TRUSTED = [
    "harness/props/C06.py: extract() reads BUTCHER (entries kept as the source's rational expressions), the body of `for body in self.bodies` of _accel, "
    "the step-size update statement and MAX_ITER of _make_step from the AST into Generated/KeplerNum{F,R}.lean on every run; the tableau reading is "
    "self-checked bit-exactly against the live KeplerNum.BUTCHER, and the compiled Float instantiation is compared with it again in the correspondence run",
    "harness/props/C06.py: translate_iter() reads from `KeplerNum._iter` the condition of the march loop, the `interp` assignment, the padding count of the "
    "positioning phase and the `order` argument of both Ephem(...) calls, from ephem.py DEFAULT_ORDER and the order defaulting of Ephem.__init__, into "
    "Generated/KNIterSrc.lean; the loop bodies and the positioning loop condition are compared textually with what Model/KNIter.lean models (any other "
    "shape is an extraction failure = a broken obligation); translate_request() reads from base.py (NumericalPropagator.iter / propagate) what a relative "
    "stop and a relative target are counted from (relStop, relTarget), the defaulting of `start` and the forwarding to _iter being compared textually",
    "lean/templates/RK.tpl (hand-written stage loop, weight combination, error estimate, accept/shrink loop), lean/templates/KNObj.tpl (attribute state "
    "machine incl. frame and bound orbit; the frame conversion is an input: the caller's orbit is given as its state in every candidate frame, computed "
    "by the real code), lean/BeyondVerif/Model/KNIter.lean (march / padding over the reported step sizes): tied by the correspondence runs",
    "Props/C06Conv.lean Coords (coordsSt: a state (r, v) of EuclideanSpace R^3 x R^3 as the model's list [x, y, z, vx, vy, vz]); accelCentral_coords proves "
    "that the regenerated `_accel` with the central body at the origin is (v, -mu r/|r|^3) in these coordinates",
    "harness/py2lean.py Tr.expr for scalar entries",
    "numpy / libm double arithmetic vs R: tolerance 1e-11 relative on the step result",
]
ASSUMPTIONS = [
    "point-mass bodies, no maneuvers in the Lean model (ImpulsiveMan/ContinuousMan handling of _make_step/_accel belongs to C17; the re-use oracle does "
    "change the orbit's maneuvers between calls and compares with a fresh propagator); tol > 0",
    "theorems are over R; the implementation computes in IEEE doubles; dates/steps have microsecond resolution (usRound in the model; Int microseconds in KNIter)",
    "convergence theorems: the exact solution exists on the span and, with the numerical states, stays in the set where the field is bounded and Lipschitz "
    "(two-body: |r| >= r_min, |v| <= v_max — hypotheses huK/hyK, not derived); fixed step h > 0 with n h = T (the fixed-step methods; the adaptive "
    "march with varying accepted steps is covered per step only); RK4: h L <= 1",
    "cited, not formalised: order conditions for all rooted trees with <= p vertices imply local error O(h^(p+1)) for p >= 2 on non-linear problems "
    "(Butcher; Hairer-Norsett-Wanner, Solving ODEs I, II.2-II.3); the list of the 17 trees with <= 5 vertices is hand-written (orders and densities proved)",
    "the embedded error estimate p_error is a cancelling sum (sum(b - b_star) = 0): passes whose estimate lies within 2e-16 |h||v| of tol are "
    "incomparable between numpy's and the model's summation order and are skipped by the correspondence (counted as step-borderline-skipped)",
    "object histories in the Lean model use bodies at rest IN THE FRAME OF THE ORBIT (the correspondence drives real KeplerNum objects with duck-typed fixed "
    "bodies whose `frame` attribute is a plain attribute); the frame conversion of the bound orbit is an input of the model (C02); the orbit's maneuvers "
    "are outside the Lean state machine and covered by the re-use oracle on the public API",
    "KNIter takes the accepted step sizes `_make_step` reports as an input list (observed on the real run in the correspondence); theorems hold for every such list",
]
NOT_COVERED = [
    "global convergence of the REAL propagator at order p, the size of energy / angular-momentum drift of the numerical solution, true local error of an "
    "accepted adaptive step and over a span: oracle only "
    "(observed order by step halving read off the finest pair above the interpolation floor: >= 3.5 for RK4, >= 0.7 for Euler — one-sided, because over "
    "whole numbers of revolutions the h^4 term nearly cancels and RK4 shows 4.9; error bounds scaled by (n_p h)^p resp. tol; one-step local error <= 2 tol)",
    "order 4 / 5 for a general smooth field (local error from the order conditions): hypothesis of rk4_global_error_partial; nothing is proved about the "
    "global error of the adaptive methods over a span of varying steps",
    "stage times t + c_i h of `_make_step` (`y_n_prime.date += step * c`) and the date of the new state: the field of the property (one central point "
    "mass) does not depend on time, every correspondence body is at rest, so the use of `c` in the real code is not tied (third bodies, thrust: C17)",
    "resampling accuracy (Ephem Lagrange-8 over float MJD): oracle only. The 'few millimetres' of the property hold for n_p*h <= 0.05; the floor is "
    "6 ulp(MJD) x speed (up to 15 mm observed at perigee speed, edge interval) and the Lagrange remainder reaches decimetres to metres for the coarsest "
    "steps in low eccentric orbits (observed 7 m at h = 120 s, e = 0.6, perigee 200 km), tolerance 5 rp (n_p h)^8 there",
    "which `order` points of the tabulation Interp._lagrange selects around a date (window arithmetic): C09; here only that the tabulation has them and "
    "which order is requested (observed on the Ephem objects the real _iter builds)",
    "the dates `_iter` yields (Ephem.iter, Date.range): the iteration contract is C08 (iter(stop=..., step=...) also yields dates after `stop`, up to the "
    "first integration node past it — reported to C08; iter(start=None) raises AttributeError — listed by C08); the short-span oracle checks that the "
    "requested dates come first",
    "targets within +-3 orbits are reached by the thorough tier only up to 900 integration steps per run (quick: 130)",
    "reference steps above 120 s are exercised for the adaptive methods only and only at integration points (the accepted-steps family and the _make_step "
    "correspondence): what propagate / iter interpolate between integration points minutes apart is outside the property's quantifier (step in [5 s, 120 s])",
]
OPEN = ["the derivation of the local error C h^5 of RK4 (and C h^6 of the order-5 weights) from the proved order conditions for a general C^p field "
        "(Butcher series); with it rk4_global_error_partial becomes unconditional",
        "the two-body convergence constants use the unweighted sup norm (L = max(1, 2mu/r_min^3)); a weighted norm max(|r|, |v|/omega) would give "
        "L = omega = sqrt(2 mu / r_min^3) ~ 1.5e-3 /s in LEO; that the numerical states stay in |r| >= r_min is a hypothesis",
        "errEst = |(y_b - y_bstar)[:3]| (the estimate IS the difference of the two embedded solutions) is proved (errEst_eq_solution_difference, any tableau and dimension); "
        "an O(h^2) bound of it for Lipschitz fields, which would discharge the hypothesis of adaptive_terminates, is not (the termination theorem takes the smallness of the estimate as hypothesis)",
        "quadrature exactness and the linear test equation are stated per tableau with explicit polynomial coefficients, not as one theorem "
        "'bushy/tall-tree conditions => exactness' for an arbitrary tableau",
        "KNIter does not model Ephem.iter / the yielded dates (C08's model does); runReqs models the binding of lazily started iterators by identity only; "
        "a setting changed on ONE sibling's propagator between creation and consumption of another sibling's iterator is oracle-only (copy() shares the "
        "`bodies` list object between all copies: an in-place `bodies.append` on one sibling reaches all — value semantics, C15)"]
RULE = ("correspondence: the five method names incl. unknown ones (tableaux bit-exact), _accel with Earth/Moon/Sun combinations on random bound orbits "
        "(perigee 200 km .. GEO+, e <= 0.74), _make_step for all four methods, steps 5-120 s (adaptive methods: 12 % with a reference step of 120-1800 s) both signs, tol 1e-9..1e-2, rtol 1e-11 (step size exact when "
        "not shrunk); histories of 3-10 operations on ONE real KeplerNum object (constructed in EME2000 / TOD / MOD; assign method incl. upper-case / "
        "unknown names, step, tol, bodies, frame incl. an unknown name; bodies.append / pop in place; prop.orbit = orb (bind), _make_step from the bound "
        "orbit, read prop.orbit; copy(); _make_step on a given state; butcher) against the model's state machine, each disagreeing call also compared with "
        "a fresh real object (a difference there is a violation of the property itself); the (start, stop) the real _iter receives for a request with a "
        "relative stop / explicit start / relative target against the model of NumericalPropagator.iter / propagate (exact); the Ephem objects (dates, "
        "order) the real _iter builds and its number of _make_step calls for every request form (explicit step smaller/equal/larger/incommensurate, date "
        "lists, ranges, backward, offset start with absolute and with relative stop, "
        "Orbit.ephem, propagate, native step, step is self.step, listeners) on spans of 1..10 steps, all four methods, against KNIter fed with the "
        "observed accepted step sizes (exact); identity partition of the propagators of the points of several real outputs and which trajectory "
        "interleaved requests on sibling points return, against KNIter.outputsProps / runReqs; non-trivial = step != 0 resp. a call after a change resp. >= 1 integration step; distinct = distinct request "
        "line. oracle, cheap families first: EVERY step the adaptive methods accept during one propagate (observed on the real object, both directions, start at a random anomaly or shortly before perigee, spans up to 1.3 revolutions within 25 / 120 steps, tol 1e-6..1e-2, reference step log-uniform in 5-120 s / 120-600 s / 600-1800 s — for the adaptive methods the reference step is only the starting size and upper bound, so the per-step clause does not depend on it): accepted size in (0, reference step] with the sign of the request, local error against the analytical solution from the step's own start state <= 2 tol, last integration point within 10 tol per accepted step (nothing interpolated); short spans (1..10 integration steps, the thirteen request forms, every method) iterate vs propagate vs "
        "analytical; one KeplerNum object re-used after changes of method / step / tol / bodies (also in place) / frame / maneuvers / bound orbit / the "
        "caller's orbit modified in place, shared by two orbit objects that are half of the time DIFFERENT satellites asked the same request, vs a "
        "fresh propagator and vs the analytical solution; sibling points of one output (iter / iter-step / ephem / propagate) as starts of "
        "interleaved requests (zip, reversed consumption, propagate in between, random next(), a setting changed on one sibling) vs each point's own "
        "fresh propagation, and one propagator object per point; adaptive global and one-step error over <= 30 steps both directions; chained propagate keeps "
        "(method, step, tol); then RK4/Euler observed order by step halving against an independent universal-variable Kepler solution, error bounds, "
        "energy/momentum drift, independence of output step, dates-vs-step, propagate-vs-iterate (all four methods); forward and backward targets. "
        "When a proof or a correspondence is broken the quick-tier sweep stops at the first failing input that is not a listed open finding.")

KN_PY = os.path.join(core.REPO, "beyond", "propagators", "keplernum.py")
METHODS = ["euler", "rk4", "rkf54", "dopri54"]
ADAPTIVE = ("rkf54", "dopri54")
ORDER = {"euler": 1, "rk4": 4, "rkf54": 5, "dopri54": 5}
R_EARTH = 6378137.0


# ---------------------------------------------------------------- source -> Generated/KeplerNum{F,R}.lean

PRELUDE = """/-! vector helpers used by the translated formulas (fixed text) -/
def vadd : List R → List R → List R
  | x :: a, y :: b => (x + y) :: vadd a b
  | _, _ => []
def vsub : List R → List R → List R
  | x :: a, y :: b => (x - y) :: vsub a b
  | _, _ => []
def smul (s : R) : List R → List R
  | x :: a => (s * x) :: smul s a
  | [] => []
def vdivs : List R → R → List R
  | x :: a, s => (x / s) :: vdivs a s
  | [], _ => []
def sumsq : List R → R
  | x :: a => x * x + sumsq a
  | [] => 0
/-- `numpy.linalg.norm` of a vector -/
def vnorm (v : List R) : R := sqrt (sumsq v)
/-- Python's `min(a, b)`: `b` iff `b < a` -/
def minR (a b : R) : R := if b < a then b else a
def lenR (l : List R) : R := ofNat l.length

/-- one entry of `KeplerNum.BUTCHER` -/
structure Tableau where
  a : List (List R)
  b : List R
  c : List R
  bstar : Option (List R)
"""


class _Vec:
    """translator for the few numpy vector statements of `KeplerNum._accel` (types: S scalar, V vector)"""

    def __init__(self, env):
        self.env = dict(env)    # python name / dotted name -> (lean text, type)
        self.tr = py2lean.Tr()

    def expr(self, e):
        U = py2lean.Untranslatable
        d = self.tr.dotted(e)
        if d is not None and d in self.env:
            return self.env[d]
        if isinstance(e, ast.Constant) and isinstance(e.value, (int, float)) and not isinstance(e.value, bool):
            return self.tr.expr(e), "S"
        if isinstance(e, ast.Subscript) and isinstance(e.slice, ast.Slice) and e.slice.step is None:
            v, t = self.expr(e.value)
            lo, hi = e.slice.lower, e.slice.upper
            if t != "V":
                raise U("slice of a scalar")
            if lo is None and isinstance(hi, ast.Constant) and isinstance(hi.value, int) and hi.value >= 0:
                return f"(List.take {hi.value} {v})", "V"
            if hi is None and isinstance(lo, ast.Constant) and isinstance(lo.value, int) and lo.value >= 0:
                return f"(List.drop {lo.value} {v})", "V"
            raise U("slice form")
        if isinstance(e, ast.Call) and self.tr.dotted(e.func) in ("linalg.norm", "np.linalg.norm", "numpy.linalg.norm") and len(e.args) == 1 and not e.keywords:
            v, t = self.expr(e.args[0])
            if t != "V":
                raise U("norm of a scalar")
            return f"(vnorm {v})", "S"
        if isinstance(e, ast.UnaryOp) and isinstance(e.op, ast.USub):
            v, t = self.expr(e.operand)
            return (f"(-{v})", "S") if t == "S" else (f"(smul (-(1 : R)) {v})", "V")
        if isinstance(e, ast.BinOp):
            if isinstance(e.op, ast.Pow):
                a, ta = self.expr(e.left)
                if ta == "S" and isinstance(e.right, ast.Constant) and isinstance(e.right.value, int) and e.right.value >= 0:
                    return f"(powi {a} {e.right.value})", "S"
                raise U("power form")
            a, ta = self.expr(e.left)
            b, tb = self.expr(e.right)
            op = type(e.op)
            if ta == tb == "S":
                sym = {ast.Add: "+", ast.Sub: "-", ast.Mult: "*", ast.Div: "/"}.get(op)
                if sym:
                    return f"({a} {sym} {b})", "S"
            if ta == tb == "V" and op in (ast.Add, ast.Sub):
                return f"({'vadd' if op is ast.Add else 'vsub'} {a} {b})", "V"
            if op is ast.Mult and {ta, tb} == {"S", "V"}:
                return (f"(smul {a} {b})" if ta == "S" else f"(smul {b} {a})"), "V"
            if op is ast.Div and ta == "V" and tb == "S":
                return f"(vdivs {a} {b})", "V"
            raise U(f"vector operator {op.__name__} on {ta},{tb}")
        raise U("vector expression " + ast.dump(e)[:80])


def translate_accel(tree):
    """`KeplerNum._accel`: the kinematic part and the per-body attraction, statement by statement"""
    U = py2lean.Untranslatable
    fn = py2lean.find_function(tree, "KeplerNum._accel")
    arg = fn.args.args[1].arg
    kin = None
    loop = None
    for s in fn.body:
        if isinstance(s, ast.Assign) and isinstance(s.targets[0], ast.Subscript) and py2lean.Tr().dotted(s.targets[0].value) == "new_body":
            sl = s.targets[0].slice
            if not (isinstance(sl, ast.Slice) and sl.lower is None and isinstance(sl.upper, ast.Constant) and sl.upper.value == 3):
                raise U("first half of new_body")
            kin = _Vec({arg: (arg, "V")}).expr(s.value)[0]
        if isinstance(s, ast.For) and py2lean.Tr().dotted(s.iter) == "self.bodies":
            loop = s
    if kin is None or loop is None:
        raise U("_accel: structure not recognised")
    body = loop.target.id
    import unicodedata
    v = _Vec({arg: (arg, "V"), unicodedata.normalize("NFKC", body + ".µ"): ("mu", "S")})   # identifiers are NFKC-normalised by the parser
    lets = []
    result = None
    for s in loop.body:
        if isinstance(s, ast.Assign) and isinstance(s.targets[0], ast.Name):
            name = s.targets[0].id
            if isinstance(s.value, ast.Call) and py2lean.Tr().dotted(s.value.func) == body + ".propagate":
                v.env[name] = (name, "V")           # state of the body at the date of orb: parameter of the model
                body_state = name
                continue
            txt, ty = v.expr(s.value)
            lets.append(f"let {name} := {txt}")
            v.env[name] = (name, ty)
        elif isinstance(s, ast.Assign) and isinstance(s.targets[0], ast.Attribute) and s.targets[0].attr == "frame":
            continue                                  # frame change of the body's state: done by the caller of the model
        elif isinstance(s, ast.AugAssign) and isinstance(s.op, ast.Add) and isinstance(s.target, ast.Subscript) and py2lean.Tr().dotted(s.target.value) == "new_body":
            sl = s.target.slice
            if not (isinstance(sl, ast.Slice) and sl.upper is None and isinstance(sl.lower, ast.Constant) and sl.lower.value == 3):
                raise U("second half of new_body")
            txt, ty = v.expr(s.value)
            if ty != "V":
                raise U("acceleration is not a vector")
            result = txt
        else:
            raise U("statement in the bodies loop: " + type(s).__name__)
    if result is None:
        raise U("no acceleration statement")
    text = f"/-- `new_body[:3] = {arg}[3:]` -/\ndef accelKin ({arg} : List R) : List R := {kin}\n\n"
    text += (f"/-- body of `for body in self.bodies` in `_accel`: what one body (gravitational parameter `mu`, state `{body_state}` in the\n"
             f"frame of `{arg}`) adds to `new_body[3:]` -/\n"
             f"def bodyAccel (mu : R) ({body_state} {arg} : List R) : List R :=\n" + "".join(f"  {l}\n" for l in lets) + f"  {result}\n")
    return text


def butcher_ast(tree):
    """BUTCHER dict of the class as {method string: {key: ast node}} in source order"""
    cls = next(n for n in tree.body if isinstance(n, ast.ClassDef) and n.name == "KeplerNum")
    names = {}
    table = None
    for s in cls.body:
        if isinstance(s, ast.Assign) and isinstance(s.targets[0], ast.Name):
            if isinstance(s.value, ast.Constant) and isinstance(s.value.value, str):
                names[s.targets[0].id] = s.value.value
            if s.targets[0].id == "BUTCHER":
                table = s.value
    out = {}
    for k, v in zip(table.keys, table.values):
        key = names[k.id] if isinstance(k, ast.Name) else k.value
        out[key] = {kk.value: vv for kk, vv in zip(v.keys, v.values)}
    return out


def _vector(node):
    """array([...]) or [...] -> list of entry nodes"""
    if isinstance(node, ast.Call) and py2lean.Tr().dotted(node.func) in ("array", "np.array", "numpy.array"):
        node = node.args[0]
    if not isinstance(node, (ast.List, ast.Tuple)):
        raise py2lean.Untranslatable("tableau vector")
    return list(node.elts)


def translate_butcher(tree):
    tr = py2lean.Tr()
    tabs = butcher_ast(tree)
    text = ""
    values = {}
    for m, d in tabs.items():
        rows = [_vector(r) for r in _vector(d["a"])]
        vecs = {k: _vector(d[k]) for k in ("b", "c")}
        bs = _vector(d["b_star"]) if "b_star" in d else None
        ev = lambda n: float(eval(compile(ast.Expression(n), "<butcher>", "eval")))
        values[m] = {"a": [[ev(x) for x in r] for r in rows], "b": [ev(x) for x in vecs["b"]], "c": [ev(x) for x in vecs["c"]],
                     "b_star": None if bs is None else [ev(x) for x in bs]}
        L = lambda xs: "[" + ", ".join(tr.expr(x) for x in xs) + "]"
        text += (f"/-- `BUTCHER[\"{m}\"]` -/\ndef butcher_{m} : Tableau where\n  a := [" + ",\n        ".join(L(r) for r in rows) + "]\n"
                 f"  b := {L(vecs['b'])}\n  c := {L(vecs['c'])}\n  bstar := " + ("none" if bs is None else f"some {L(bs)}") + "\n\n")
    text += "/-- `self.BUTCHER[self.method]` (an unknown method is a KeyError) -/\ndef butcher : String → Option Tableau\n"
    text += "".join(f"  | \"{m}\" => some butcher_{m}\n" for m in tabs) + "  | _ => none\n\n"
    text += "def butcherNames : List String := [" + ", ".join(f'"{m}"' for m in tabs) + "]\n\n"
    return text, values


def translate_step_scale(tree):
    """the step-size update statement of `_make_step` and MAX_ITER"""
    fn = py2lean.find_function(tree, "KeplerNum._make_step")
    upd = [s for s in ast.walk(fn) if isinstance(s, ast.Assign) and isinstance(s.targets[0], ast.Name) and s.targets[0].id == "step"
           and isinstance(s.value, ast.Call) and py2lean.Tr().dotted(s.value.func) == "min"]
    mi = [s for s in ast.walk(fn) if isinstance(s, ast.Assign) and isinstance(s.targets[0], ast.Name) and s.targets[0].id == "MAX_ITER"]
    if len(upd) != 1 or len(mi) != 1 or not isinstance(mi[0].value.value, int):
        raise py2lean.Untranslatable("_make_step: step update / MAX_ITER not recognised")
    tr = py2lean.Tr(consts={"self.step": "maxStep", "self.tol": "tol"}, funcs={"min": "minR", "len": "lenR"})
    text = ("/-- `step = min(self.step, step * (self.tol / (2 * p_error)) ** (1 / (len(bb) - 1)))` (before timedelta's rounding to microseconds) -/\n"
            f"def stepScale (maxStep step tol p_error : R) (bb : List R) : R :=\n  {tr.expr(upd[0].value)}\n\n"
            f"/-- `MAX_ITER` -/\ndef maxIter : Nat := {mi[0].value.value}\n")
    return text


class _Cond:
    """translator for the few Boolean / counting expressions of `KeplerNum._iter` (Python -> Lean Bool / Nat / Int).
    Names: dates of type Int, `len(ephem)` and `Ephem.DEFAULT_ORDER` of type Nat, flags of type Bool."""

    def __init__(self, names):
        self.names = names      # python name -> (lean text, type in {"B", "I", "N"})
        self.tr = py2lean.Tr()

    def expr(self, e):
        U = py2lean.Untranslatable
        if isinstance(e, ast.Name) and e.id in self.names:
            return self.names[e.id]
        if self.tr.dotted(e) == "Ephem.DEFAULT_ORDER":
            return "defaultOrder", "N"
        if isinstance(e, ast.Call) and isinstance(e.func, ast.Name) and len(e.args) == 1 and not e.keywords:
            if e.func.id == "len" and isinstance(e.args[0], ast.Name) and e.args[0].id == "ephem":
                return "len", "N"
            if e.func.id == "bool" and isinstance(e.args[0], ast.Name) and e.args[0].id == "listeners":
                return "listening", "B"
        if isinstance(e, ast.Call) and isinstance(e.func, ast.Name) and e.func.id in ("min", "max") and len(e.args) == 2 and not e.keywords:
            (a, ta), (b, tb) = self.expr(e.args[0]), self.expr(e.args[1])
            if ta == tb == "N":
                return f"({e.func.id} {a} {b})", "N"
        if isinstance(e, ast.BoolOp):
            parts = [self.expr(v) for v in e.values]
            if all(t == "B" for _, t in parts):
                return "(" + (" || " if isinstance(e.op, ast.Or) else " && ").join(p for p, _ in parts) + ")", "B"
        if isinstance(e, ast.UnaryOp) and isinstance(e.op, ast.Not):
            a, t = self.expr(e.operand)
            if t == "B":
                return f"(!{a})", "B"
        if isinstance(e, ast.IfExp):
            (c, tc), (a, ta), (b, tb) = self.expr(e.test), self.expr(e.body), self.expr(e.orelse)
            if tc == "B" and ta == tb:
                return f"(if {c} then {a} else {b})", ta
        if isinstance(e, ast.Compare) and len(e.ops) == 1:
            op, rhs = e.ops[0], e.comparators[0]
            if isinstance(op, (ast.IsNot, ast.Is)) and isinstance(rhs, ast.Constant) and rhs.value is None and isinstance(e.left, ast.Name):
                flag = {"dates": "datesGiven", "step": "stepGiven"}.get(e.left.id)
                if flag:
                    return (flag if isinstance(op, ast.IsNot) else f"(!{flag})"), "B"
            sym = {ast.Lt: "<", ast.Gt: ">", ast.LtE: "≤", ast.GtE: "≥", ast.Eq: "=", ast.NotEq: "≠"}.get(type(op))
            if sym:
                (a, ta), (b, tb) = self.expr(e.left), self.expr(rhs)
                if ta == tb and ta in ("I", "N"):
                    return f"decide ({a} {sym} {b})", "B"
        if isinstance(e, ast.BinOp) and isinstance(e.op, (ast.Sub, ast.Add)):
            (a, ta), (b, tb) = self.expr(e.left), self.expr(e.right)
            if ta == tb == "N":
                # only used as the argument of `range(...)`: a negative count is an empty range = truncated subtraction
                return f"({a} {'-' if isinstance(e.op, ast.Sub) else '+'} {b})", "N"
        raise U("_iter expression " + ast.unparse(e)[:100])


def _int_expr(e, names):
    """date / span arithmetic over Int microseconds: names, `+`, `-`, unary minus"""
    U = py2lean.Untranslatable
    txt = ast.unparse(e)
    if txt in names:
        return names[txt]
    if isinstance(e, ast.BinOp) and isinstance(e.op, (ast.Add, ast.Sub)):
        return f"({_int_expr(e.left, names)} {'+' if isinstance(e.op, ast.Add) else '-'} {_int_expr(e.right, names)})"
    if isinstance(e, ast.UnaryOp) and isinstance(e.op, ast.USub):
        return f"(-{_int_expr(e.operand, names)})"
    raise U("request normalisation: expression " + txt[:80])


def translate_request(base_tree):
    """`NumericalPropagator.iter` / `.propagate` (base.py): what a relative `stop` (a timedelta) and a relative target are counted
    from, and which start an absent `start` means.  The statements are located by their shape; any other shape is refused."""
    U = py2lean.Untranslatable
    cls = next((n for n in base_tree.body if isinstance(n, ast.ClassDef) and n.name == "NumericalPropagator"), None)
    if cls is None:
        raise U("base.py: class NumericalPropagator")
    fns = {f.name: f for f in cls.body if isinstance(f, ast.FunctionDef)}
    if "iter" not in fns or "propagate" not in fns:
        raise U("NumericalPropagator.iter / propagate")
    it, pr = fns["iter"], fns["propagate"]
    # iter: `if "dates" not in kwargs:` block
    blk = [s for s in it.body if isinstance(s, ast.If) and ast.unparse(s.test) == "'dates' not in kwargs"]
    if len(blk) != 1:
        raise U("NumericalPropagator.iter: the `dates not in kwargs` block")
    body = blk[0].body
    st = [s for s in body if isinstance(s, ast.Assign) and ast.unparse(s.targets[0]) == "start"]
    if [ast.unparse(s.value) for s in st] != ["kwargs.setdefault('start', self.orbit.date)", "self.orbit.date if start is None else start"]:
        raise U("NumericalPropagator.iter: defaulting of `start`")
    rel = [s for s in body if isinstance(s, ast.If) and ast.unparse(s.test) == "isinstance(kwargs['stop'], timedelta)"]
    if len(rel) != 1 or len(rel[0].body) != 1 or rel[0].orelse or not isinstance(rel[0].body[0], ast.Assign) \
            or ast.unparse(rel[0].body[0].targets[0]) != "kwargs['stop']":
        raise U("NumericalPropagator.iter: relative `stop`")
    names = {"start": "start", "kwargs['stop']": "delta", "self.orbit.date": "epoch"}
    relstop = _int_expr(rel[0].body[0].value, names)
    fwd = [s for s in it.body if isinstance(s, ast.For)]
    if len(fwd) != 1 or ast.unparse(fwd[0].iter) != "self._iter(**kwargs)" or ast.unparse(fwd[0].body[0]) != "yield orb":
        raise U("NumericalPropagator.iter: forwarding to _iter")
    # propagate: `if isinstance(date, timedelta): date = <expr>` then `return next(self.iter(start=date, stop=date))`
    if len(pr.body) != 2 or not isinstance(pr.body[0], ast.If) or ast.unparse(pr.body[0].test) != "isinstance(date, timedelta)" \
            or len(pr.body[0].body) != 1 or ast.unparse(pr.body[0].body[0].targets[0]) != "date" \
            or ast.unparse(pr.body[1]) != "return next(self.iter(start=date, stop=date))":
        raise U("NumericalPropagator.propagate")
    reltarget = _int_expr(pr.body[0].body[0].value, {"date": "delta", "self.orbit.date": "epoch"})
    return ("/-- `kwargs[\"stop\"] = " + ast.unparse(rel[0].body[0].value) + "` — `NumericalPropagator.iter`, `stop` given as a timedelta (`delta`); "
            "`epoch` = `self.orbit.date` -/\n"
            f"def relStop (epoch start delta : Int) : Int := {relstop}\n\n"
            "/-- `date = " + ast.unparse(pr.body[0].body[0].value) + "` — `NumericalPropagator.propagate`, target given as a timedelta; the request is then "
            "`iter(start=date, stop=date)` -/\n"
            f"def relTarget (epoch delta : Int) : Int := {reltarget}\n\n")


def translate_iter(tree, ephem_tree, base_tree=None):
    """the padding rule of `KeplerNum._iter`: loop condition of the march, `interp`, padding count of the positioning phase,
    the `order` argument of the two `Ephem(...)` calls; `Ephem.DEFAULT_ORDER`"""
    U = py2lean.Untranslatable
    cls = next(n for n in ephem_tree.body if isinstance(n, ast.ClassDef) and n.name == "Ephem")
    order = [s.value.value for s in cls.body if isinstance(s, ast.Assign) and isinstance(s.targets[0], ast.Name) and s.targets[0].id == "DEFAULT_ORDER"
             and isinstance(s.value, ast.Constant) and isinstance(s.value.value, int)]
    # `self.order = order if isinstance(order, int) else self.DEFAULT_ORDER` in Ephem.__init__
    init = next(s for s in cls.body if isinstance(s, ast.FunctionDef) and s.name == "__init__")
    oas = [ast.unparse(s.value) for s in ast.walk(init) if isinstance(s, ast.Assign) and ast.unparse(s.targets[0]) == "self.order"]
    if len(order) != 1 or oas != ["order if isinstance(order, int) else self.DEFAULT_ORDER"]:
        raise U("Ephem.DEFAULT_ORDER / Ephem.__init__ order defaulting not recognised")
    fn = py2lean.find_function(tree, "KeplerNum._iter")
    calls_make_step = lambda node: any(isinstance(c, ast.Call) and py2lean.Tr().dotted(c.func) == "self._make_step" for c in ast.walk(node))
    pos_if = [s for s in fn.body if isinstance(s, ast.If) and ast.unparse(s.test) == "start != orb.date"]
    main_while = [s for s in fn.body if isinstance(s, ast.While) and calls_make_step(s)]
    interp = [s for s in fn.body if isinstance(s, ast.Assign) and isinstance(s.targets[0], ast.Name) and s.targets[0].id == "interp"]
    if len(pos_if) != 1 or len(main_while) != 1 or len(interp) > 1:
        raise U("_iter: positioning block / main loop not recognised")
    # the body of both loops is `real_step, orb = self._make_step(orb, _step); ephem.append(orb)[; date += real_step]`
    body_txt = "real_step, orb = self._make_step(orb, _step)\nephem.append(orb)"
    pos_while = [s for s in pos_if[0].body if isinstance(s, ast.While)]
    pos_for = [s for s in pos_if[0].body if isinstance(s, ast.For)]
    if (len(pos_while) != 1 or len(pos_for) != 1 or ast.unparse(pos_while[0].test) != "getattr(date, mname)(start)"
            or "\n".join(ast.unparse(s) for s in pos_while[0].body) != body_txt + "\ndate += real_step"
            or "\n".join(ast.unparse(s) for s in pos_for[0].body) != body_txt
            or "\n".join(ast.unparse(s) for s in main_while[0].body) != body_txt + "\ndate += real_step"
            or not (isinstance(pos_for[0].iter, ast.Call) and ast.unparse(pos_for[0].iter.func) == "range" and len(pos_for[0].iter.args) == 1)):
        raise U("_iter: loops of the positioning phase / the march not recognised")
    names = {"date": ("date", "I"), "stop": ("stop", "I"), "start": ("start", "I"), "backward": ("backward", "B"), "interp": ("interp", "B")}
    c = _Cond(names)
    cond, tcond = c.expr(main_while[0].test)
    if interp:
        itxt, _ = _Cond({}).expr(interp[0].value)
    else:
        itxt = "false"          # no `interp` flag in the source
        if "interp" in {n.id for n in ast.walk(main_while[0].test) if isinstance(n, ast.Name)}:
            raise U("_iter: `interp` used but not assigned")
    pad, tpad = c.expr(pos_for[0].iter.args[0])
    if tcond != "B" or tpad != "N":
        raise U("_iter: types of the loop condition / padding count")

    def order_arg(stmts, what):
        calls = [s.value for s in stmts if isinstance(s, ast.Assign) and isinstance(s.value, ast.Call) and ast.unparse(s.value.func) == "Ephem"]
        if len(calls) != 1 or [ast.unparse(a) for a in calls[0].args] != ["ephem"] or any(k.arg != "order" for k in calls[0].keywords):
            raise U("_iter: Ephem(...) call of " + what)
        if not calls[0].keywords:
            return "none"
        txt, t = c.expr(calls[0].keywords[0].value)
        if t != "N":
            raise U("_iter: order argument of " + what)
        return f"some {txt}"
    # the object handed to every yielded point: `for orb in ephem_iter: yield orb.as_orbit(<arg>)`
    loops = [s for s in fn.body if isinstance(s, ast.For) and ast.unparse(s.iter) == "ephem_iter"]
    if len(loops) != 1 or len(loops[0].body) != 1 or not (isinstance(loops[0].body[0], ast.Expr) and isinstance(loops[0].body[0].value, ast.Yield)):
        raise U("_iter: yield loop not recognised")
    yv = loops[0].body[0].value.value
    if not (isinstance(yv, ast.Call) and ast.unparse(yv.func) == loops[0].target.id + ".as_orbit" and len(yv.args) == 1 and not yv.keywords):
        raise U("_iter: yielded expression " + ast.unparse(yv)[:80])
    arg = yv.args[0]
    if ast.unparse(arg) == "self.copy()":
        where, ptxt, atxt = "inside the yield loop: one copy per point", "next + k", "n"
    elif ast.unparse(arg) == "self":
        where, ptxt, atxt = "the receiver itself", "recv", "0"
    elif isinstance(arg, ast.Name):
        defs = [s for s in ast.walk(fn) if isinstance(s, ast.Assign) and any(isinstance(t, ast.Name) and t.id == arg.id for t in s.targets)]
        in_loop = any(d in list(ast.walk(loops[0])) for d in defs)
        if len(defs) != 1 or in_loop or ast.unparse(defs[0].value) not in ("self.copy()", "self"):
            raise U("_iter: origin of the propagator handed to the yielded points")
        if ast.unparse(defs[0].value) == "self":
            where, ptxt, atxt = "the receiver itself", "recv", "0"
        else:
            where, ptxt, atxt = "outside the yield loop: one copy per call, shared by all points", "next", "1"
    else:
        raise U("_iter: propagator handed to the yielded points: " + ast.unparse(arg)[:80])
    oa_pos = order_arg(pos_if[0].body, "the positioning phase")
    oa_main = order_arg(fn.body, "the march")
    return ("/- GENERATED by harness/props/C06.py from beyond/propagators/keplernum.py (`KeplerNum._iter`) and beyond/orbits/ephem.py on every run -/\n"
            "namespace BeyondVerif.Generated.KNIterSrc\nset_option linter.unusedVariables false\n\n"
            f"/-- `Ephem.DEFAULT_ORDER` -/\ndef defaultOrder : Nat := {order[0]}\n\n"
            f"/-- `interp = {ast.unparse(interp[0].value) if interp else '(absent)'}` -/\n"
            f"def interpFlag (datesGiven stepGiven listening : Bool) : Bool := {itxt}\n\n"
            f"/-- `while {ast.unparse(main_while[0].test)}:` (the march over the requested span; `len` is `len(ephem)`) -/\n"
            f"def marchCond (backward interp : Bool) (date stop : Int) (len : Nat) : Bool := {cond}\n\n"
            f"/-- `for i in range({ast.unparse(pos_for[0].iter.args[0])}):` (padding of the positioning phase) -/\n"
            f"def padCount (len : Nat) : Nat := {pad}\n\n"
            "/-- the `order` argument of `Ephem(ephem, ...)` in the positioning phase, `len = len(ephem)`; `none` = not passed -/\n"
            f"def ephemOrderArgPos (len : Nat) : Option Nat := {oa_pos}\n\n"
            "/-- the `order` argument of `Ephem(ephem, ...)` over the requested span -/\n"
            f"def ephemOrderArg (len : Nat) : Option Nat := {oa_main}\n\n"
            f"/-- `yield {ast.unparse(yv)}` — `{ast.unparse(arg)}` is made {where}.  Identity of the propagator object carried by the `k`-th\n"
            "yielded point: `recv` = the receiver (`self`), `next` = first object identity not yet in use -/\n"
            f"def pointPropId (recv next k : Nat) : Nat := {ptxt}\n\n"
            "/-- number of propagator objects created for an output of `n` points -/\n"
            f"def propsAllocated (n : Nat) : Nat := {atxt}\n\n"
            + (translate_request(base_tree) if base_tree is not None else "") +
            "end BeyondVerif.Generated.KNIterSrc\n")


def extract(ctx):
    tree = ast.parse(open(KN_PY).read())
    btext, values = translate_butcher(tree)
    body = "namespace KN\n\n" + PRELUDE + "\n" + btext + translate_accel(tree) + "\n" + translate_step_scale(tree) + "\nend KN\n"
    ch = py2lean.instantiate(core.LEAN, "KeplerNum", body, "beyond/propagators/keplernum.py")
    itext = translate_iter(tree, ast.parse(open(os.path.join(core.REPO, "beyond", "orbits", "ephem.py")).read()),
                           ast.parse(open(os.path.join(core.REPO, "beyond", "propagators", "base.py")).read()))
    if core.write_if_changed(os.path.join(core.LEAN, "BeyondVerif", "Generated", "KNIterSrc.lean"), itext):
        ch.append("Generated/KNIterSrc.lean")
    ch += instantiate.main()
    # self-check of the reader against the live class attribute (bit-exact)
    from beyond.propagators.keplernum import KeplerNum
    for m, v in values.items():
        live = KeplerNum.BUTCHER[m]
        la = [list(map(float, r)) for r in live["a"]]
        if (la != v["a"] or list(map(float, live["b"])) != v["b"] or list(map(float, live["c"])) != v["c"]
                or (None if "b_star" not in live else list(map(float, live["b_star"]))) != v["b_star"]):
            raise RuntimeError(f"Butcher tableau {m}: AST reading differs from the live KeplerNum.BUTCHER")
    if set(values) != set(KeplerNum.BUTCHER):
        raise RuntimeError("Butcher methods: AST reading differs from the live KeplerNum.BUTCHER")
    ctx.butcher_values = values
    return ch


# ---------------------------------------------------------------- independent two-body reference

def _stumpff(z):
    if z > 1e-3:
        s = math.sqrt(z)
        return (1 - math.cos(s)) / z, (s - math.sin(s)) / s ** 3
    if z < -1e-3:
        s = math.sqrt(-z)
        return (math.cosh(s) - 1) / -z, (math.sinh(s) - s) / s ** 3
    # series (both signs)
    c = 1 / 2 - z / 24 + z * z / 720 - z ** 3 / 40320 + z ** 4 / 3628800
    s = 1 / 6 - z / 120 + z * z / 5040 - z ** 3 / 362880 + z ** 4 / 39916800
    return c, s


def kepler_ref(x0, dt, mu):
    """Analytical two-body solution (universal variables, Newton iteration to machine precision);
    written independently of beyond."""
    import numpy as np
    r0 = np.array(x0[:3], float)
    v0 = np.array(x0[3:], float)
    if dt == 0:
        return np.array(x0, float)
    rn = math.sqrt(r0 @ r0)
    vr = (r0 @ v0) / rn
    alpha = 2 / rn - (v0 @ v0) / mu
    sm = math.sqrt(mu)
    chi = sm * abs(alpha) * dt
    for _ in range(200):
        z = alpha * chi * chi
        C, S = _stumpff(z)
        F = rn * vr / sm * chi * chi * C + (1 - alpha * rn) * chi ** 3 * S + rn * chi - sm * dt
        dF = rn * vr / sm * chi * (1 - z * S) + (1 - alpha * rn) * chi * chi * C + rn
        d = F / dF
        chi -= d
        if abs(d) <= 4e-16 * max(1.0, abs(chi)):
            break
    z = alpha * chi * chi
    C, S = _stumpff(z)
    f = 1 - chi * chi / rn * C
    g = dt - chi ** 3 / sm * S
    r = f * r0 + g * v0
    rr = math.sqrt(r @ r)
    fd = sm / (rr * rn) * (z * S - 1) * chi
    gd = 1 - chi * chi / rr * C
    return np.concatenate([r, fd * r0 + gd * v0])


def energy(x, mu):
    return 0.5 * (x[3] ** 2 + x[4] ** 2 + x[5] ** 2) - mu / math.sqrt(x[0] ** 2 + x[1] ** 2 + x[2] ** 2)


def angmom(x):
    import numpy as np
    return np.cross(np.asarray(x[:3], float), np.asarray(x[3:], float))


# ---------------------------------------------------------------- real code adapters

def earth():
    from beyond.env.solarsystem import get_body
    return get_body("Earth")


def epoch():
    from beyond.dates import Date
    return Date(2020, 5, 24, 3, 0, 0)


def make(x0, step, method, tol=1e-3, date=None):
    from beyond.orbits import Orbit
    from beyond.dates import timedelta
    from beyond.propagators.keplernum import KeplerNum
    return Orbit(list(x0), date or epoch(), "cartesian", "EME2000",
                 KeplerNum(timedelta(seconds=step), earth(), method=method, tol=tol))


def vec(orb):
    import numpy as np
    return np.array([float(v) for v in orb.base])


def q(x, step=1e-3):
    """quantise a duration to whole milliseconds (timedelta keeps microseconds exactly)"""
    return round(x / step) * step


def gen_orbit(rng, mu, nu=None):
    """bound orbit with perigee above the surface: state at a random anomaly (or at the true anomaly `nu`), random orientation"""
    rp = R_EARTH + rng.choice([200e3, 400e3, 800e3, 1500e3, 8000e3, 20000e3, 35786e3]) * rng.uniform(0.9, 1.1)
    e = rng.choice([0.0, 1e-4, 0.01, 0.1, 0.3, 0.6, 0.74]) * rng.uniform(0.5, 1.0)
    a = rp / (1 - e)
    if nu is None:
        nu = rng.uniform(-math.pi, math.pi)
    p = a * (1 - e * e)
    r = p / (1 + e * math.cos(nu))
    rpf = [r * math.cos(nu), r * math.sin(nu), 0.0]
    k = math.sqrt(mu / p)
    vpf = [-k * math.sin(nu), k * (e + math.cos(nu)), 0.0]
    i, Om, w = rng.uniform(0, math.pi), rng.uniform(0, 2 * math.pi), rng.uniform(0, 2 * math.pi)

    def rot(v):
        x, y, z = v
        x, y = x * math.cos(w) - y * math.sin(w), x * math.sin(w) + y * math.cos(w)
        y, z = y * math.cos(i) - z * math.sin(i), y * math.sin(i) + z * math.cos(i)
        x, y = x * math.cos(Om) - y * math.sin(Om), x * math.sin(Om) + y * math.cos(Om)
        return [x, y, z]
    x0 = rot(rpf) + rot(vpf)
    period = 2 * math.pi * math.sqrt(a ** 3 / mu)
    n_p = math.sqrt(mu * (1 + e) / rp ** 3)  # angular rate at perigee
    return {"x0": x0, "a": a, "e": e, "rp": rp, "period": period, "n_p": n_p}


# ---------------------------------------------------------------- correspondence: compiled Lean model vs KeplerNum

def _tab_tokens(tb):
    row = lambda l: ",".join(f2b(float(v)) for v in l)
    return " ".join([";".join(row(r) for r in tb["a"]), row(tb["b"]), row(tb["c"]), row(tb["b_star"]) if "b_star" in tb else "none"])


def gen_state(rng, mu):
    o = gen_orbit(rng, mu)
    return o


def correspondence(ctx):
    import numpy as np
    from beyond.dates import timedelta, Date
    from beyond.orbits import Orbit
    from beyond.propagators.keplernum import KeplerNum
    from beyond.env.solarsystem import get_body
    out = Outcome()
    rng = ctx.rng
    E = earth()
    mu = float(E.µ)
    reqs, meta = [], []
    # 1. the tableaux as the driver holds them, against the live class attribute (bit-exact)
    for m in list(KeplerNum.BUTCHER) + ["rk5", "RK4", ""]:
        if m == "":
            continue
        try:
            tb = KeplerNum(timedelta(seconds=60), E, method=m).butcher
            real = _tab_tokens(tb)
        except KeyError:
            real = "unknown-name"
        reqs.append("c06tab " + m.lower())        # __init__ lower-cases the method
        meta.append(("tab", real, {"method": m}))
        out.count(key=reqs[-1], kind="tableau", known=real != "unknown-name")
    # 2. _accel
    moon, sun = get_body("Moon"), get_body("Sun")
    for _ in range(ctx.n(800, 20000)):
        o = gen_orbit(rng, mu)
        date = epoch() + timedelta(seconds=q(rng.uniform(0, 3e7)))
        bodies = rng.choice([[E], [E], [E, moon], [E, moon, sun], [moon], [sun, E]])
        orb = Orbit(o["x0"], date, "cartesian", "EME2000", None)
        prop = KeplerNum(timedelta(seconds=60), bodies)
        prop.orbit = orb
        real = [float(v) for v in prop._accel(prop.orbit)]
        toks = ["c06accel", str(len(bodies))]
        for b in bodies:
            ob = b.propagate(date)
            ob.frame = orb.frame
            toks += [f2b(float(b.µ))] + [f2b(float(v)) for v in ob.base]
        toks += [f2b(v) for v in o["x0"]]
        reqs.append(" ".join(toks))
        a_scale = mu / o["rp"] ** 2
        meta.append(("accel", real, {"x0": o["x0"], "bodies": [b.name for b in bodies], "scales": [np.linalg.norm(o["x0"][3:])] * 3 + [a_scale] * 3}))
        out.count(key=reqs[-1], kind="accel", bodies="+".join(b.name for b in bodies))
    # 3. _make_step
    for _ in range(ctx.n(3200, 100000)):
        o = gen_orbit(rng, mu)
        m = rng.choice(METHODS)
        r_ = rng.random()
        # reference steps of the property's range, its end points, and (adaptive methods: the reference step is only an upper
        # bound) coarse ones up to half an hour, where several shrinking passes are needed
        maxstep = q(rng.uniform(5, 120)) if r_ < 0.8 else rng.choice([5.0, 120.0]) if r_ < 0.88 else q(math.exp(rng.uniform(math.log(120), math.log(1800))))
        if maxstep > 120:
            m = rng.choice(ADAPTIVE)
        h = maxstep * rng.choice([1, 1, 1, -1, -1, 0.5])
        h = timedelta(seconds=h).total_seconds()     # what the timedelta holds (whole microseconds)
        tol = 10 ** rng.uniform(-9, -2) if rng.random() < 0.8 else 1e-3
        prop = KeplerNum(timedelta(seconds=maxstep), E, method=m, tol=tol)
        prop.orbit = Orbit(o["x0"], epoch(), "cartesian", "EME2000", None)
        try:
            hs, y1 = prop._make_step(prop.orbit, timedelta(seconds=h))
            real = [hs.total_seconds()] + [float(v) for v in y1.base]
            kind = "shrunk" if abs(hs.total_seconds()) < abs(h) else "full"
        except RuntimeError:
            real = "runtime-error"
            kind = "no-convergence"
        reqs.append(" ".join(["c06step", m, f2b(maxstep), f2b(h), f2b(tol), f2b(mu)] + [f2b(v) for v in o["x0"]]))
        r, v = np.linalg.norm(o["x0"][:3]), np.linalg.norm(o["x0"][3:])
        meta.append(("step", real, {"method": m, "maxstep": maxstep, "h": h, "tol": tol, "x0": o["x0"], "scales": [r] * 3 + [v] * 3}))
        out.count(key=reqs[-1], nontrivial=h != 0, kind="step-" + m, outcome=kind, direction="back" if h < 0 else "fwd")
    replies = core.Driver().run(reqs)
    for req, (kind, real, inp), rep in zip(reqs, meta, replies):
        errs = []
        if kind == "step" and " | " in rep + " ":
            rep, _, e = rep.partition(" |")
            errs = [b2f(t) for t in e.split()]
        if kind == "step":
            # p_error is a difference of nearly equal terms (sum(b - b*) = 0): its rounding noise is ~ 2e-17 |h| |v|, and the
            # summation order of numpy's matmul is not the model's.  A pass whose estimate is within that noise of tol can
            # be accepted by one side and shrunk by the other: incomparable, counted, not compared.
            noise = 2e-16 * abs(inp["h"]) * inp["scales"][3]
            if any(abs(e - inp["tol"]) <= noise for e in errs):
                out.tally("step-borderline-skipped")
                continue
        if kind == "tab" or isinstance(real, str) or not rep[:1].isdigit():
            if rep != real:
                out.fail("c06-" + kind, "model and implementation disagree (exact comparison)", {k: v for k, v in inp.items() if k != "scales"},
                         observed=real if isinstance(real, str) else real[:7], expected=rep[:200])
            continue
        model = [b2f(t) for t in rep.split()]
        if len(model) != len(real):
            out.fail("c06-" + kind, "reply length", inp, observed=real, expected=model)
            continue
        dh = 0.0
        if kind == "step":
            dh = abs(model[0] - real[0])
            shrunk = abs(real[0]) < abs(inp["h"])
            # a full step must be exact; a shrunk one inherits the relative noise of p_error (divided by s-1, per pass)
            allowed = (1e-6 + abs(real[0]) * (1e-9 + 2e-16 * abs(inp["h"]) * inp["scales"][3] / inp["tol"])) if shrunk else 0.0
            if dh > allowed:
                out.fail("c06-step-size", "accepted step size differs between _make_step and the Lean model", {k: v for k, v in inp.items() if k != "scales"},
                         observed=real[0], expected=model[0], p_errors=errs)
                continue
            real, model = real[1:], model[1:]
        for i, (a, b) in enumerate(zip(real, model)):
            rate = 0.0 if kind != "step" else (inp["scales"][3] if i < 3 else mu / inp["scales"][0] ** 2)
            if not core.close(a, b, rtol=1e-11, atol=1e-11 * inp["scales"][i] + 2 * dh * rate, scale=max(abs(a), abs(b))):
                out.fail("c06-" + kind, f"component {i} differs between KeplerNum and the Lean model", {k: v for k, v in inp.items() if k != "scales"},
                         observed=real, expected=model)
                break
        out.sample({"request": req[:100] + "…", "impl": real, "model": model}, limit=3)
    # 4. histories on one object (attribute assignments, copy, calls)
    corr_histories(ctx, out, mu)
    # 5. the tabulations `_iter` builds
    corr_iter(ctx, out, mu)
    # 6. propagator identities of the outputs, interleaved requests on sibling points
    corr_graph(ctx, out, mu)
    return out


# ---------------------------------------------------------------- correspondence: histories on one KeplerNum object

class _FixedBody:
    """a point mass in UNIFORM MOTION in the frame of the orbit (duck-typed body: `µ`, `propagate(date)`): position `pos` at `epoch()`,
    velocity `vel` (zero for most bodies: at rest)"""

    def __init__(self, name, mu, pos, vel=(0.0, 0.0, 0.0)):
        self.name = name
        setattr(self, "μ", mu)      # `body.µ`: the identifier is NFKC-normalised by the parser to U+03BC
        self.pos = list(pos)
        self.vel = list(vel)

    def propagate(self, date):
        # `_accel` does `orb_body.frame = orb.frame` and reads `orb_body[:3]`: the body moves IN THE FRAME OF THE ORBIT, whatever
        # that frame is (the assignment is a plain attribute here, no conversion).  `date` is the date of the stage.
        import numpy as np
        t = (date - epoch()).total_seconds()
        return np.array([p_ + t * v_ for p_, v_ in zip(self.pos, self.vel)] + self.vel, float).view(_FrameFree)

    def tokens(self):
        return [f2b(float(getattr(self, "μ")))] + [f2b(float(v)) for v in self.pos + self.vel]

    def desc(self):
        return [getattr(self, "μ")] + self.pos + self.vel


class _FrameFree(__import__("numpy").ndarray):
    """six numbers with a freely assignable `frame` attribute"""


HIST_FRAMES = ["EME2000", "TOD", "MOD"]


def views_of(y):
    """the caller's orbit (cartesian, EME2000, at `epoch()`) as cartesian state in every candidate frame: what
    `orbit.copy(form="cartesian", frame=f)` returns (the conversion is C02's; here it is an input of the model)"""
    from beyond.orbits import Orbit
    orb = Orbit(list(y), epoch(), "cartesian", "EME2000", None)
    return [(f, [float(v) for v in orb.copy(form="cartesian", frame=f)]) for f in HIST_FRAMES]


def gen_history(rng, mu):
    """(initial configuration, operations) of one history; operations as dicts"""
    def far():
        # Moon-like, Sun-like, and a heavier nearby mass: perturbations of 1e-6 .. 1e-3 of the central attraction
        m_, d_ = rng.choice([(4.9e12, 3.8e8), (1.3e20, 1.5e11), (3.0e13, 1.0e9)])
        u = [rng.uniform(-1, 1) for _ in range(3)]
        n = math.sqrt(sum(x * x for x in u)) or 1.0
        if rng.random() < 0.5:
            # a heavy mass passing by: its displacement within one step changes the attraction by ~1 %, so the DATE at which each
            # stage evaluates the bodies (`y_n_prime.date += step * c`) is visible in the result
            w = [rng.uniform(-1, 1) for _ in range(3)]
            return _FixedBody("passing", 1.0e14, [6.0e7 * x / n for x in u], [1.0e4 * x for x in w])
        return _FixedBody("far", m_, [d_ * x / n for x in u])
    central = _FixedBody("central", mu, [0.0, 0.0, 0.0])
    name = lambda: rng.choice(METHODS + METHODS + ["RK4", "Dopri54", "rk5", "EULER"])
    init = {"method": name(), "step": q(rng.uniform(5, 120)), "tol": 10 ** rng.uniform(-8, -2), "bodies": [central] + ([far()] if rng.random() < 0.3 else []),
            "frame": rng.choice(["EME2000", "EME2000", "TOD", "MOD"])}
    nb = len(init["bodies"])
    step = init["step"]
    ops = []
    o = gen_orbit(rng, mu)
    for _ in range(rng.randint(3, 9)):
        r = rng.random()
        if ops and rng.random() < 0.35:
            # the `frame` attribute and the bound orbit
            r2 = rng.random()
            if r2 < 0.25:
                ops.append({"op": "sf", "f": rng.choice(HIST_FRAMES + ["TOD", "NOPE"])})
            elif r2 < 0.6:
                if rng.random() < 0.6:
                    o = gen_orbit(rng, mu)
                ops.append({"op": "bd", "y": o["x0"], "views": views_of(o["x0"])})
            elif r2 < 0.85:
                from datetime import timedelta as _td
                ops.append({"op": "sd", "h": _td(seconds=step * rng.choice([1, 1, -1, 0.5])).total_seconds()})
            else:
                ops.append({"op": "ro"})
            continue
        if r < 0.45 or not ops:
            h = step * rng.choice([1, 1, -1, 0.5, -0.25])
            from datetime import timedelta as _td
            ops.append({"op": "mk", "h": _td(seconds=h).total_seconds(), "y": o["x0"], "rv": (math.sqrt(sum(v * v for v in o["x0"][:3])), math.sqrt(sum(v * v for v in o["x0"][3:])))})
            if rng.random() < 0.5:
                o = gen_orbit(rng, mu)
        elif r < 0.52:
            ops.append({"op": "rb"})
        elif r < 0.68:
            ops.append({"op": "sm", "m": name()})
        elif r < 0.76:
            step = q(rng.uniform(5, 120))
            ops.append({"op": "ss", "h": step})
        elif r < 0.84:
            ops.append({"op": "st", "t": 10 ** rng.uniform(-8, -2)})
        elif r < 0.88:
            bs = [central] + ([far()] if rng.random() < 0.5 else [])
            nb = len(bs)
            ops.append({"op": "sb", "bodies": bs})
        elif r < 0.92:
            nb += 1
            ops.append({"op": "ab", "body": far()})
        elif r < 0.95 and nb >= 2:
            nb -= 1
            ops.append({"op": "db"})
        else:
            ops.append({"op": "cp"})
    if ops[-1]["op"] in ("sf", "bd"):
        ops.append({"op": "bd", "y": o["x0"], "views": views_of(o["x0"])})
        ops.append({"op": "sd", "h": step})
    if ops[-1]["op"] not in ("mk", "rb", "sd", "ro"):
        ops.append({"op": "mk", "h": step, "y": o["x0"], "rv": (math.sqrt(sum(v * v for v in o["x0"][:3])), math.sqrt(sum(v * v for v in o["x0"][3:])))})
    return init, ops


def _seq_request(init, ops):
    toks = ["c06seq", init["method"], init.get("frame", "EME2000"), f2b(init["step"]), f2b(init["tol"]), str(len(init["bodies"]))]
    for b in init["bodies"]:
        toks += b.tokens()
    for op in ops:
        k = op["op"]
        if k == "mk":
            toks += ["mk", f2b(op["h"])] + [f2b(v) for v in op["y"]]
        elif k == "sm":
            toks += ["sm", op["m"]]
        elif k == "ss":
            toks += ["ss", f2b(op["h"])]
        elif k == "st":
            toks += ["st", f2b(op["t"])]
        elif k == "sb":
            toks += ["sb", str(len(op["bodies"]))] + [t for b in op["bodies"] for t in b.tokens()]
        elif k == "ab":
            toks += ["ab"] + op["body"].tokens()
        elif k == "sf":
            toks += ["sf", op["f"]]
        elif k == "bd":
            toks += ["bd", str(len(op["views"]))] + [t for f, v in op["views"] for t in [f] + [f2b(x) for x in v]]
        elif k == "sd":
            toks += ["sd", f2b(op["h"])]
        else:
            toks.append(k)
    return " ".join(toks)


def _real_call(prop, op):
    """one observable call on a real object -> reply in the driver's vocabulary (floats as a list)"""
    from beyond.dates import timedelta
    from beyond.orbits import Orbit
    try:
        if op["op"] == "rb":
            return _tab_tokens(prop.butcher)
        if op["op"] == "ro":
            b = prop.orbit
            return "none" if b is None else b.frame.name + " " + " ".join(f2b(float(v)) for v in b)
        if op["op"] == "sd":
            hs, y1 = prop._make_step(prop.orbit, timedelta(seconds=op["h"]))
            return [hs.total_seconds()] + [float(v) for v in y1.base]
        # `mk`: `_make_step(orb, h)` on a state given by the caller, as it is (no frame conversion), leaving the object's own
        # binding as it was — `_make_step` reads the maneuvers of the bound orbit, so one is bound for the duration of the call
        keep, had = prop.frame, prop.__dict__.get("_orbit", None)
        prop.frame = "EME2000"
        try:
            prop.orbit = Orbit(list(op["y"]), epoch(), "cartesian", "EME2000", None)
            prop.frame = keep
            hs, y1 = prop._make_step(prop.orbit, timedelta(seconds=op["h"]))
        finally:
            prop.frame = keep
            if had is None:
                prop.__dict__.pop("_orbit", None)
            else:
                prop._orbit = had
        return [hs.total_seconds()] + [float(v) for v in y1.base]
    except KeyError:
        return "unknown-name"
    except RuntimeError:
        return "runtime-error"
    except IndexError:
        return "index-error"
    except AttributeError:
        return "attribute-error"


def _date_noise(bodies, op):
    """the real code rounds every stage date to whole microseconds (`y_n_prime.date += step * c` is timedelta arithmetic), the model
    uses t + c h exactly: a body moving at speed w is displaced by up to w x 0.5 us, its attraction mu/d^2 changes by 2 mu w 0.5e-6 / d^3,
    the stage positions by h^2 times that.  Bound (x10) of the resulting change of the embedded estimate, in metres."""
    y = op.get("y")
    if y is None:
        return 0.0
    tot = 0.0
    for b in bodies:
        w = math.sqrt(sum(x * x for x in getattr(b, "vel", (0.0, 0.0, 0.0))))
        if w:
            d = max(1e5, math.sqrt(sum((p_ - q_) ** 2 for p_, q_ in zip(b.pos, y[:3]))))
            tot += 2 * float(getattr(b, "μ")) * w * 0.5e-6 / d ** 3
    return 10 * tot * op["h"] ** 2


def _step_agree(real, model, errs, op, tol, mu, extra=0.0):
    """None = agree, "skip" = incomparable (estimate within rounding noise of tol), else a description.
    `extra`: further absolute noise of the estimate (`_date_noise`)"""
    r_, v_ = op["rv"]
    noise = 2e-16 * abs(op["h"]) * v_ + extra
    if any(abs(e - tol) <= noise for e in errs):
        return "skip"
    if isinstance(real, str) or isinstance(model, str):
        return None if real == model else "outcome"
    dh = abs(model[0] - real[0])
    shrunk = abs(real[0]) < abs(op["h"])
    allowed = (1e-6 + abs(real[0]) * (1e-9 + (2e-16 * abs(op["h"]) * v_ + extra) / tol)) if shrunk else 0.0
    if dh > allowed:
        return "accepted step size"
    for i, (a, b) in enumerate(zip(real[1:], model[1:])):
        sc = r_ if i < 3 else v_
        rate = v_ if i < 3 else mu / r_ ** 2
        if not core.close(a, b, rtol=1e-11, atol=1e-11 * sc + 2 * dh * rate + (extra if i < 3 else extra / max(abs(op["h"]), 1.0)),
                          scale=max(abs(a), abs(b))):
            return f"component {i}"
    return None


def corr_histories(ctx, out, mu):
    """ONE real KeplerNum object driven through a random history of attribute assignments, `copy()` and calls, against the
    model's state machine (`KN.runOps`); a call whose reply also differs from that of a fresh real object carrying the same
    attribute values violates the property itself (re-use clause)"""
    from beyond.dates import timedelta
    from beyond.propagators.keplernum import KeplerNum
    rng = ctx.rng
    reqs, hist = [], []
    for _ in range(ctx.n(260, 6000)):
        init, ops = gen_history(rng, mu)
        reqs.append(_seq_request(init, ops))
        hist.append((init, ops))
    replies = core.Driver().run(reqs)
    for req, (init, ops), rep in zip(reqs, hist, replies):
        model = rep.split(" ; ")
        desc = {"initial": {"method": init["method"], "step": init["step"], "tol": init["tol"], "frame": init["frame"],
                            "bodies": [b.desc() for b in init["bodies"]]},
                "ops": [{k: (x.desc() if isinstance(x, _FixedBody) else [b.desc() for b in x] if k == "bodies" else x)
                         for k, x in op.items() if k != "rv"} for op in ops]}
        if len(model) != len(ops):
            out.fail("c06-seq", "reply length of a history", desc, observed=len(ops), expected=rep[:200])
            continue
        prop = KeplerNum(timedelta(seconds=init["step"]), list(init["bodies"]), method=init["method"], tol=init["tol"], frame=init["frame"])
        since = []          # assignments since the previous observable call
        ncall = 0
        last_bind = None    # (EME2000 state of the orbit of the last successful binding, frame at that moment)
        for k, (op, mrep) in enumerate(zip(ops, model)):
            kind = op["op"]
            if kind == "ro":
                real = _real_call(prop, op)
                ncall += 1
                out.count(key=(req[:60], k, len(req)), nontrivial=bool(since), kind="history-ro", after="+".join(sorted(set(since))) or "call",
                          bound=real != "none")
                if real != mrep:
                    out.fail("c06-seq-bound-orbit", f"history on one object: `prop.orbit` (frame name, stored state) differs from the model at operation {k}",
                             dict(desc, at=k), observed=real[:80], expected=mrep[:80])
                    break
                continue
            if kind == "sd":
                b = prop.orbit
                if b is not None:
                    op = dict(op, y=[float(v) for v in b], rv=(math.sqrt(sum(float(v) ** 2 for v in b[:3])), math.sqrt(sum(float(v) ** 2 for v in b[3:]))))
                else:
                    op = dict(op, rv=(1.0, 1.0))
            if kind in ("mk", "rb", "sd"):
                real = _real_call(prop, op)
                ncall += 1
                out.count(key=(req[:60], k, len(req)), nontrivial=ncall > 1 or bool(since), kind="history-" + kind,
                          after="+".join(sorted(set(since))) or ("first-call" if ncall == 1 else "call"))
                mtxt, _, e = mrep.partition(" | ")
                errs = [b2f(t) for t in e.split()] if kind == "mk" else []
                mval = mtxt if (kind == "rb" or not mtxt[:1].isdigit()) else [b2f(t) for t in mtxt.split()]
                why = (None if real == mval else "tableau") if kind == "rb" else _step_agree(real, mval, errs, op, prop.tol, mu, extra=_date_noise(prop.bodies, op))
                if why == "skip":
                    out.tally("step-borderline-skipped")
                elif why is not None:
                    # what does a FRESH real object carrying the same attribute values return?
                    f = KeplerNum(prop.step, list(prop.bodies), tol=prop.tol, frame=prop.frame)
                    f.method = prop.method
                    if kind == "sd" and last_bind is not None:
                        from beyond.orbits import Orbit
                        f.frame = last_bind[1]
                        f.orbit = Orbit(list(last_bind[0]), epoch(), "cartesian", "EME2000", None)
                        f.frame = prop.frame
                    fresh = _real_call(f, op)
                    stale = (fresh != real) if (isinstance(fresh, str) or isinstance(real, str)) else any(
                        not core.close(a, b, rtol=1e-12, atol=1e-9) for a, b in zip(fresh, real))
                    fam = "reuse-history-after-" + ("+".join(sorted(set(since))) or "call") if stale else "c06-seq-" + kind
                    out.fail(fam, ("a re-used KeplerNum object does not return what a fresh object with the same attribute values returns (" if stale else
                                   "history on one object: model and implementation disagree (") + why + f") at operation {k}",
                             dict(desc, at=k), observed=real if isinstance(real, str) else real[:7], expected=(fresh if stale else mval),
                             violates_property=bool(stale))
                    break
                since = []
                continue
            since.append({"sm": "method", "ss": "step", "st": "tol", "sb": "bodies", "ab": "bodies-append", "db": "bodies-pop", "cp": "copy",
                          "sf": "frame", "bd": "bind"}[kind])
            real = "q"
            try:
                if kind == "sf":
                    prop.frame = op["f"]
                elif kind == "bd":
                    from beyond.orbits import Orbit
                    from beyond.errors import UnknownFrameError
                    try:
                        prop.orbit = Orbit(list(op["y"]), epoch(), "cartesian", "EME2000", None)
                        last_bind = (list(op["y"]), prop.frame)
                    except UnknownFrameError:
                        real = "unknown-frame"
                elif kind == "sm":
                    prop.method = op["m"]
                elif kind == "ss":
                    prop.step = timedelta(seconds=op["h"])
                elif kind == "st":
                    prop.tol = op["t"]
                elif kind == "sb":
                    prop.bodies = list(op["bodies"])
                elif kind == "ab":
                    prop.bodies.append(op["body"])
                elif kind == "db":
                    prop.bodies.pop()
                elif kind == "cp":
                    old_ = prop
                    prop = prop.copy()
                    lost = [a for a in ("method", "step", "tol", "bodies", "frame")
                            if (getattr(prop, a) != (getattr(old_, a).lower() if a == "method" else getattr(old_, a)))]
                    if lost:
                        out.fail("copy-loses-" + "+".join(lost), "KeplerNum.copy() (the propagator attached to every orbit returned by propagate / iter) does not "
                                 "carry the settings of the object it copies: a continued or split request integrates with other settings", dict(desc, at=k),
                                 observed={a: str(getattr(prop, a)) for a in lost}, expected={a: str(getattr(old_, a)) for a in lost},
                                 violates_property=old_.method in KeplerNum.BUTCHER)
                        break
            except KeyError:
                real = "unknown-name"
            except IndexError:
                real = "index-error"
            except (AttributeError, TypeError, ValueError) as e:
                real = "raises-" + type(e).__name__
            if mrep != real:
                out.fail("c06-seq-" + kind, f"history on one object: an assignment / copy() at operation {k} is silent on one side and raises on the other",
                         dict(desc, at=k), observed=real, expected=mrep)
                break
        out.sample({"history": [op["op"] for op in ops], "model": [m[:40] for m in model]}, limit=2)


# ---------------------------------------------------------------- correspondence: the tabulations `_iter` builds

def _us(d, e):
    return int(round(((d.d - e.d) * 86400 + (d.s - e.s)) * 1e6))


def observe_iter(orb, call):
    """run `call(orb)` (which consumes an iteration of `orb`) and report what `KeplerNum._iter` did: its keyword arguments,
    the accepted step sizes, the `Ephem` objects it built (dates, order)"""
    import beyond.propagators.keplernum as KM
    prop = orb.propagator
    steps, kws, ephems = [], [], []
    real_ephem = KM.Ephem

    class RecEphem(real_ephem):
        def __init__(self, orbits, method=None, order=None):
            super().__init__(orbits, method=method, order=order)
            ephems.append(([o.date for o in self._orbits], self.order, self.method))

    orig_ms, orig_it = prop._make_step, prop._iter

    def ms(o, s_):
        r = orig_ms(o, s_)
        steps.append(r[0])
        return r

    def it(**kwargs):
        kws.append(dict(kwargs, _step_is_self=kwargs.get("step") is prop.step, _epoch=prop.orbit.date))
        return orig_it(**kwargs)
    KM.Ephem = RecEphem
    prop._make_step, prop._iter = ms, it
    try:
        res = call(orb)
    finally:
        KM.Ephem = real_ephem
        del prop._make_step, prop._iter
    return res, kws, steps, ephems


def corr_iter(ctx, out, mu):
    """the tabulations (dates, interpolation order) `KeplerNum._iter` builds for a request, against `KNIter.iterTab` fed with
    the accepted step sizes `_make_step` reported"""
    from beyond.dates import timedelta, Date
    from beyond.propagators.listeners import ApsideListener, NodeListener
    rng = ctx.rng
    td = lambda x: timedelta(seconds=x)
    cases = []
    norm_cases = []
    for k in range(ctx.n(160, 3000)):
        o = gen_orbit(rng, mu)
        h = q(rng.uniform(5, 120))
        m = METHODS[k % 4]
        tol = 10 ** rng.uniform(-6, -2)
        form = rng.choice(SHORT_FORMS + ["propagate", "propagate", "native-step", "native-backward", "listeners", "step-is-self"])
        plan = plan_short(rng, o, h, m, tol=tol, form=form if form in SHORT_FORMS else "step-smaller")
        span, outs = plan["span"], plan["out_step"]
        orb = make(o["x0"], h, m, tol=tol)
        d0 = orb.date
        ureq = None      # the request as the caller wrote it (start given?, start, stop relative?, stop), where `stop` is a timedelta
        if form.startswith("step-"):
            call = lambda ob: list(ob.iter(stop=td(span), step=td(outs)))
            ureq = ("c06norm", 0, 0.0, 1, span)
        elif form == "ephem":
            call = lambda ob: list(ob.ephem(stop=td(span), step=td(outs)))
            ureq = ("c06norm", 0, 0.0, 1, span)
        elif form in ("dates-list", "dates-before-epoch", "dates-across-epoch"):
            call = lambda ob: list(ob.iter(dates=[d0 + td(x) for x in plan["offsets"]]))
        elif form == "dates-range":
            call = lambda ob: list(ob.iter(dates=Date.range(d0, d0 + td(span), td(outs), inclusive=True)))
        elif form == "backward-step":
            call = lambda ob: list(ob.iter(stop=-td(span), step=td(outs)))
            ureq = ("c06norm", 0, 0.0, 1, -span)
        elif form == "backward-explicit":
            call = lambda ob: list(ob.iter(start=d0, stop=d0 - td(span), step=-td(outs)))
            ureq = ("c06norm", 1, 0.0, 0, -span)
        elif form == "start-offset":
            call = lambda ob: list(ob.iter(start=d0 + td(plan["start"]), stop=d0 + td(plan["start"] + span), step=td(outs)))
            ureq = ("c06norm", 1, plan["start"], 0, plan["start"] + span)
        elif form == "start-offset-rel":
            call = lambda ob: list(ob.iter(start=d0 + td(plan["start"]), stop=td(span), step=td(outs)))
            ureq = ("c06norm", 1, plan["start"], 1, span)
        elif form == "propagate":
            T = q(rng.uniform(-12, 12) * h) if rng.random() < 0.8 else h * rng.randint(-9, 9)
            plan["T"] = T
            call = lambda ob: [ob.propagate(td(T))]
            ureq = ("c06target", T)
        elif form == "native-step":
            call = lambda ob: list(ob.iter(stop=td(span)))
        elif form == "native-backward":
            call = lambda ob: list(ob.iter(stop=-td(span)))
        elif form == "step-is-self":
            call = lambda ob: list(ob.iter(stop=td(span), step=ob.propagator.step))
        else:
            L = [ApsideListener(), NodeListener()][k % 2]
            call = lambda ob: list(ob.iter(stop=td(span), listeners=[L]))
        plan["form"] = form
        inp = dict(case_inp(o, h, span), **{k_: v for k_, v in plan.items() if k_ not in ("step", "span")})
        try:
            with _Budget(20):
                res, kws, steps, ephems = observe_iter(orb, call)
        except Exception as e:      # the oracle reports failing requests; here they cannot be compared
            out.tally("iter-request-raised=" + type(e).__name__)
            continue
        if len(kws) != 1:
            out.fail("c06-iter", "one request, several `_iter` calls", inp, observed=len(kws), expected=1)
            continue
        kw = kws[0]
        e0 = kw["_epoch"]
        dates = kw.get("dates")
        if dates is not None:
            if hasattr(dates, "start"):
                start, stop = dates.start, dates.stop
            else:
                ds = [d0 + td(x) for x in plan["offsets"]]
                start, stop = min(ds), max(ds)
            sg = False
        else:
            start, stop = kw.get("start", e0), kw.get("stop")
            sg = kw.get("step") is not None and not kw["_step_is_self"]
        ls = bool(kw.get("listeners", []))
        req = " ".join(["c06iter", "0", str(_us(start, e0)), str(_us(stop, e0)), str(int(dates is not None)), str(int(sg)), str(int(ls))]
                       + [str(int(round(s_.total_seconds() * 1e6))) for s_ in steps])
        cases.append((req, inp, e0, ephems, len(steps), form, m))
        if ureq is not None:
            us = lambda x: str(int(round(x * 1e6)))
            nreq = (" ".join(["c06norm", "0", str(ureq[1]), us(ureq[2]), str(ureq[3]), us(ureq[4])]) if ureq[0] == "c06norm"
                    else " ".join(["c06target", "0", us(ureq[1])]))
            norm_cases.append((nreq, inp, f"{_us(start, e0)} {_us(stop, e0)}", form))
    nrep = core.Driver().run([c[0] for c in norm_cases])
    for (nreq, inp, real, form), rep in zip(norm_cases, nrep):
        out.count(key=nreq, kind="request-normalisation-" + form)
        if rep != real:
            out.fail("c06-request-" + form, "the (start, stop) `KeplerNum._iter` receives for a request differ from the model of NumericalPropagator.iter / propagate "
                     "(relative stop counted from the start, relative target from the epoch)", inp, observed=real, expected=rep)
    replies = core.Driver().run([c[0] for c in cases])
    for (req, inp, e0, ephems, ncalls, form, m), rep in zip(cases, replies):
        obs = [(sorted(_us(d, e0) for d in ds), order) for ds, order, _ in ephems]
        toks = rep.split()
        if len(toks) != 6:
            out.fail("c06-iter", "the model runs out of step sizes or rejects the request: `_iter` made fewer `_make_step` calls than the model needs",
                     inp, observed={"make_step_calls": ncalls, "ephems": [(len(d), o_) for d, o_ in obs]}, expected=rep[:100])
            continue
        pos = None if toks[0] == "none" else sorted(int(x) for x in toks[0].split(","))
        main = sorted(int(x) for x in toks[1].split(","))
        want = ([(pos, int(toks[3]))] if pos is not None else []) + [(main, int(toks[4]))]
        out.count(key=req, nontrivial=ncalls > 0, kind="iter-tabulation-" + form, method=m, interpolated=toks[2] == "1", points=len(main),
                  positioning=pos is not None)
        if obs != want or ncalls != int(toks[5]):
            out.fail("c06-iter-" + form, "the tabulations (dates, interpolation order) built by `KeplerNum._iter`, or its number of `_make_step` calls, differ from the model",
                     inp, observed={"ephems": [(len(d), o_, d[:1], d[-1:]) for d, o_ in obs], "make_step_calls": ncalls},
                     expected={"ephems": [(len(d), o_, d[:1], d[-1:]) for d, o_ in want], "make_step_calls": int(toks[5])})
        out.sample({"request": req[:120], "impl": [(len(d), o_) for d, o_ in obs], "model": [(len(d), o_) for d, o_ in want]}, limit=2)


# ---------------------------------------------------------------- sibling points of one output: object graph and interleaved requests

SIB_MODES = ["zip", "create-all-consume-reversed", "create-then-other-propagates", "random-next", "settings-leak"]


def plan_siblings(rng, o, mode=None):
    """points of ONE output of a KeplerNum propagation used as starts of further, interleaved requests"""
    method = rng.choice(METHODS[1:])
    h = q(rng.uniform(20, 120))
    source = rng.choice(["iter", "iter-step", "ephem", "propagate"])
    nsib = rng.choice([2, 2, 3])
    mode = mode or rng.choice(SIB_MODES)
    sib = []
    for k in range(nsib):
        req = rng.choice(["iter", "iter-step", "propagate"]) if mode != "zip" else "iter"
        sib.append({"index": rng.randint(0, 11), "kick": [rng.uniform(-30, 30) for _ in range(3)], "req": req, "T": q(h * rng.uniform(2, 12)) * rng.choice([1, 1, -1]),
                    "out_step": q(h * rng.choice([0.5, 1.7, 3.0]))})
    if source == "propagate":
        for k, s_ in enumerate(sib):
            s_["index"] = k       # k-th propagate() result
    else:
        idx = rng.sample(range(12), nsib)
        for s_, i_ in zip(sib, idx):
            s_["index"] = i_
    # events: ("create", i) / ("next", i) / ("propagate", i) / ("set", i, attr, value); well formed by construction
    ev = []
    iters = [k for k, s_ in enumerate(sib) if s_["req"] != "propagate"]
    props = [k for k, s_ in enumerate(sib) if s_["req"] == "propagate"]
    if mode == "settings-leak":
        j = rng.randrange(nsib)
        attr = rng.choice(["method", "step", "tol"])
        val = {"method": rng.choice([m for m in METHODS if m != method]), "step": q(h * rng.choice([0.5, 2.0])), "tol": 10 ** rng.uniform(-7, -5)}[attr]
        ev.append(("set", j, attr, val))
    if mode in ("zip",):
        ev += [("create", k) for k in iters] + [("next", k) for _ in range(4) for k in iters]
    elif mode == "create-all-consume-reversed":
        ev += [("create", k) for k in iters] + [("propagate", k) for k in props] + [("next", k) for k in reversed(iters) for _ in range(3)]
    elif mode == "create-then-other-propagates":
        if not iters:
            sib[0]["req"] = "iter"
            iters, props = [0], [k for k in props if k != 0]
        a = iters[0]
        others = [k for k in range(nsib) if k != a]
        ev += [("create", a)]
        for k in others:
            ev += [("propagate", k)] if sib[k]["req"] == "propagate" else [("create", k), ("next", k)]
        ev += [("next", a), ("next", a), ("next", a)]
    else:
        ev += [("create", k) for k in iters]
        pool = [("next", k) for k in iters for _ in range(3)] + [("propagate", k) for k in props]
        rng.shuffle(pool)
        ev += pool
    return {"method": method, "step": h, "tol": 10 ** rng.uniform(-5, -3), "source": source, "mode": mode, "siblings": sib, "events": [list(e) for e in ev]}


def _sib_request(orb, s_, consume=None):
    """the request of one sibling: an iterator (not started) or, for propagate, the result"""
    from beyond.dates import timedelta
    td = lambda x: timedelta(seconds=x)
    if s_["req"] == "iter":
        return orb.iter(stop=td(s_["T"]))
    if s_["req"] == "iter-step":
        return orb.iter(stop=td(s_["T"]), step=td(s_["out_step"]))
    return orb.propagate(td(s_["T"]))


def run_siblings(out, o, mu, plan, driver_trace=None):
    import numpy as np
    from beyond.orbits import Orbit
    from beyond.dates import timedelta
    from beyond.propagators.keplernum import KeplerNum
    td = lambda x: timedelta(seconds=x)
    h, sib = plan["step"], plan["siblings"]
    orb0 = make(o["x0"], h, plan["method"], tol=plan["tol"])
    recv = orb0.propagator
    # --- outputs of the receiver; every object is kept alive so that identities are comparable
    outputs = []
    if plan["source"] == "propagate":
        outputs = [[orb0.propagate(td(h * (2.5 + 3 * k)))] for k in range(len(sib))]
        pts = [o_[0] for o_ in outputs]
    else:
        if plan["source"] == "iter":
            pts = list(orb0.iter(stop=td(11 * h)))
        elif plan["source"] == "iter-step":
            pts = list(orb0.iter(stop=td(7.7 * h), step=td(0.7 * h)))
        else:
            pts = list(orb0.ephem(stop=td(11 * h), step=td(h)))
        outputs = [pts, [orb0.propagate(td(3.3 * h))], list(orb0.iter(stop=td(2 * h)))]
    inp = case_inp(o, h, 0.0, method=plan["method"], tol=plan["tol"], plan=plan)
    out.count(key=("siblings", plan["mode"], plan["source"], repr(plan["events"]), h, o["rp"]), kind="siblings-" + plan["mode"], source=plan["source"],
              method=plan["method"])
    # --- (1) object graph: every point of every output carries its own propagator, none is the receiver's
    allp = [(oi, pi, p_.propagator) for oi, o_ in enumerate(outputs) for pi, p_ in enumerate(o_)]
    graph = Outcome()
    seen = {}
    for oi, pi, pr in allp:
        if pr is recv or pr is orb0.propagator:
            graph.fail("output-carries-receiver-propagator", "a point returned by KeplerNum carries the propagator object of the orbit it was computed from",
                       inp, observed=(oi, pi))
            break
        if id(pr) in seen:
            fam = "output-points-share-propagator" if seen[id(pr)][0] == oi else "outputs-share-propagator"
            graph.fail(fam, "two points returned by KeplerNum carry the SAME propagator object (a propagator is bound to one orbit at a time: requests on the two "
                            "points interfere)", inp, observed={"first": seen[id(pr)], "second": (oi, pi)}, expected="one propagator object per point")
            break
        seen[id(pr)] = (oi, pi)
    ids = {id(recv): "R"}
    part = [[ids.setdefault(id(pr), len(ids) - 1) for oi2, _, pr in allp if oi2 == oi] for oi in range(len(outputs))]
    if driver_trace is not None:
        driver_trace["partition"] = part
        driver_trace["sizes"] = [len(o_) for o_ in outputs]
    try:
        _siblings_behaviour(out, o, mu, plan, inp, pts, driver_trace, part)
    finally:
        out.failures.extend(graph.failures)      # reported after the behavioural failing input, if any


def _siblings_behaviour(out, o, mu, plan, inp, pts, driver_trace, part):
    import numpy as np
    from beyond.orbits import Orbit
    from beyond.dates import timedelta
    from beyond.propagators.keplernum import KeplerNum
    td = lambda x: timedelta(seconds=x)
    h, sib = plan["step"], plan["siblings"]
    if driver_trace is not None:
        # position (output, point) of every sibling in the outputs
        driver_trace["where"] = [((k, 0) if plan["source"] == "propagate" else (0, s_["index"] % len(pts))) for k, s_ in enumerate(sib)]
    # --- (2) behaviour: interleaved requests on sibling points against each point's own fresh propagation
    S = []
    for s_ in sib:
        pt = pts[s_["index"] % len(pts)]
        pt[3:] = np.asarray(pt[3:]) + np.asarray(s_["kick"])        # in place: a different trajectory for each sibling
        S.append(pt)
    cfg = [{"method": plan["method"], "step": h, "tol": plan["tol"]} for _ in sib]
    for e in plan["events"]:
        if e[0] == "set":
            cfg[e[1]][e[2]] = e[3]

    def reference(k, c):
        f = Orbit([float(v) for v in S[k].base], S[k].date, "cartesian", "EME2000",
                  KeplerNum(td(c["step"]), earth(), method=c["method"], tol=c["tol"]))
        r = _sib_request(f, sib[k])
        return [r] if sib[k]["req"] == "propagate" else list(r)
    refs = [reference(k, cfg[k]) for k in range(len(sib))]
    its, got = {}, {k: [] for k in range(len(sib))}
    for e in plan["events"]:
        k = e[1]
        if e[0] == "set":
            setattr(S[k].propagator, e[2], td(e[3]) if e[2] == "step" else e[3])
        elif e[0] == "create":
            its[k] = _sib_request(S[k], sib[k])
        elif e[0] == "propagate":
            got[k].append(_sib_request(S[k], sib[k]))
        else:
            try:
                got[k].append(next(its[k]))
            except StopIteration:
                pass
    trace = []
    for k in range(len(sib)):
        for n, g in enumerate(got[k]):
            want = refs[k][n] if n < len(refs[k]) else None
            ok = want is not None and g.date == want.date and float(np.linalg.norm(vec(g)[:3] - vec(want)[:3])) <= 1e-6
            who = k
            if not ok:
                # whose trajectory / whose settings is it?
                who = None
                for j in range(len(sib)):
                    alt = refs[j]
                    if j != k and n < len(alt) and alt[n].date == g.date and float(np.linalg.norm(vec(g)[:3] - vec(alt[n])[:3])) <= 1e-6:
                        who = j
                leak = None
                if who is None:
                    for j in range(len(sib)):
                        if j != k and cfg[j] != cfg[k]:
                            alt = reference(k, cfg[j])
                            if n < len(alt) and alt[n].date == g.date and float(np.linalg.norm(vec(g)[:3] - vec(alt[n])[:3])) <= 1e-6:
                                leak = [a for a in cfg[j] if cfg[j][a] != cfg[k][a]]
                fam = ("sibling-returns-other-points-trajectory" if who is not None else
                       "sibling-settings-leak-" + "+".join(leak) if leak else "sibling-request-differs-from-own-propagation")
                d = None if want is None else float(np.linalg.norm(vec(g)[:3] - vec(want)[:3]))
                out.fail(fam + "-" + plan["mode"], "requests on two points of one KeplerNum output, interleaved: a point's iterator / propagate() does not return what "
                         "the same request returns when the point is propagated on its own"
                         + (f" (it returns the trajectory of sibling {who})" if who is not None else f" (it integrates with the {', '.join(leak)} set on a sibling)" if leak else ""),
                         dict(inp, sibling=k, item=n), observed={"date": str(g.date), "dpos": d}, expected={"date": None if want is None else str(want.date), "dpos": 0.0})
                return
            trace.append((k, n, who))
    if driver_trace is not None:
        driver_trace["replies"] = trace


def corr_graph(ctx, out, mu):
    """object identities of the propagators of real outputs, and which trajectory interleaved sibling requests return, against
    `KNIter.outputsProps` / `KNIter.runReqs` (built on `pointPropId`, read from the position of `self.copy()` in `_iter`)"""
    rng = ctx.rng
    cases = []
    for k in range(ctx.n(30, 400)):
        o = gen_orbit(rng, mu)
        plan = plan_siblings(rng, o, mode=SIB_MODES[k % 4])        # settings changes are not in the model
        tr = {}
        sink = Outcome()
        try:
            with _Budget(20):
                run_siblings(sink, o, mu, plan, driver_trace=tr)
        except Exception as e:
            out.tally("siblings-request-raised=" + type(e).__name__)
            continue
        if "partition" not in tr:
            continue
        # model requests: first consumption of an iterator = `n`, creation = `c`, propagate = `p`
        started, toks = set(), []
        for e in plan["events"]:
            if e[0] == "create":
                toks.append(f"c{e[1]}")
            elif e[0] == "propagate":
                toks.append(f"p{e[1]}")
            elif e[0] == "next" and e[1] not in started:
                started.add(e[1])
                toks.append(f"n{e[1]}")
        cases.append((plan, tr, "c06graph 0 1 " + " ".join(str(n) for n in tr["sizes"]), "c06reqs 0 1 " + " ".join(toks), sink, o))
    g_rep = core.Driver().run([c[2] for c in cases])
    # the model's identities of the siblings' propagators, from the model's own object graph
    rq2s = []
    for (plan, tr, rq1, rq2, sink, o), gr in zip(cases, g_rep):
        parts = [[t for t in part.split(",") if t] for part in gr.split(" ; ")]
        try:
            pof = [parts[oi][pi] for oi, pi in tr["where"]]
        except (IndexError, KeyError):
            pof = []
        rq2s.append("c06reqs " + str(len(pof)) + " " + " ".join(pof) + " " + " ".join(rq2.split()[3:]))
    replies = g_rep + core.Driver().run(rq2s)
    for n, (plan, tr, rq1, rq2, sink, o) in enumerate(cases):
        inp = case_inp(o, plan["step"], 0.0, method=plan["method"], plan=plan)
        # partition of identities, canonical: first occurrence; the receiver is object 0 in the model
        ids = {"0": "R"}
        model = [[ids.setdefault(t, len(ids) - 1) for t in part.split(",") if t] for part in replies[n].split(" ; ")]
        out.count(key=rq1 + plan["source"] + str(n), kind="output-propagator-identities", source=plan["source"])
        if model != tr["partition"]:
            out.fail("c06-graph", "which points of KeplerNum outputs share a propagator object differs between the implementation and the model", inp,
                     observed=tr["partition"], expected=model)
            continue
        rep = replies[len(cases) + n].split()
        out.count(key=rq2 + str(n), kind="sibling-requests-" + plan["mode"])
        if "replies" in tr:
            # first reply of every iterator / every propagate: which sibling's trajectory
            first = {}
            for k, i_, who in tr["replies"]:
                first.setdefault((k, i_ if plan["siblings"][k]["req"] == "propagate" else 0), who)
            real = []
            cnt = {}
            for t in rq2.split()[3:]:
                k = int(t[1:])
                if t[0] == "n":
                    real.append(str(first.get((k, 0), "?")))
                elif t[0] == "p":
                    real.append(str(first.get((k, cnt.get(k, 0)), "?")))
                    cnt[k] = cnt.get(k, 0) + 1
            if "?" not in real and real != rep:
                out.fail("c06-reqs", "which point's trajectory interleaved requests return differs between the implementation and the model", inp, observed=real, expected=rep)
        else:
            # the real run failed its own references: does the model predict interference too?
            own = [t[1:] for t in rq2.split()[3:] if t[0] in "np"]
            if rep == own:
                out.fail("c06-reqs", "interleaved requests on sibling points interfere in the implementation but not in the model", inp,
                         observed=[f["family"] for f in sink.failures[:1]], expected=rep)


# ---------------------------------------------------------------- oracle on the real API

MJD_ULP_S = 7.275957614183426e-12 * 86400  # resolution of Date._mjd (the interpolation abscissa) around MJD 59000, in seconds


class _Budget:
    """wall-clock guard around one group of propagations: an integrator whose step collapses (thousands of times more
    steps than requested) is reported as a failing input instead of hanging the check"""

    def __init__(self, seconds):
        self.seconds = seconds

    def __enter__(self):
        import signal

        def _raise(signum, frame):
            raise TimeoutError("propagation exceeded its time budget")
        self.old = signal.signal(signal.SIGALRM, _raise)
        signal.setitimer(signal.ITIMER_REAL, self.seconds)

    def __exit__(self, *a):
        import signal
        signal.setitimer(signal.ITIMER_REAL, 0)
        signal.signal(signal.SIGALRM, self.old)
        return False


def guarded(out, budget, fam, inp, fn, *args):
    try:
        with _Budget(budget):
            return fn(*args)
    except TimeoutError:
        out.fail(fam + "-no-progress", f"propagation did not finish within {budget} s (a run of this size takes < 2 s): the step size collapses or the loop does not advance",
                 inp)
    except (RuntimeError, ValueError, TypeError, KeyError, OverflowError, ZeroDivisionError) as e:
        out.fail(fam + "-raises-" + type(e).__name__, "the propagator raises inside the property's domain: " + str(e)[:120], inp)


def _finite(out, fam, what, inp, arr):
    import numpy as np
    if not np.all(np.isfinite(arr)):
        out.fail(fam + "-non-finite", "non-finite state returned inside the property's domain: " + what, inp, observed=[float(v) for v in arr])
        return False
    return True


def interp_tol(o, h, vmax):
    """difference allowed between two resamplings of the same integration grid.  Ephem interpolates over the float MJD
    (resolution 0.63 us): every node is displaced by up to half an ulp along the orbit and the edge interval of the
    8-point Lagrange formula amplifies that (Lebesgue constant ~ 3-6), so the floor is a few mm in the centre and up to
    ~15 mm observed at perigee speed in the edge interval: 6 ulp x speed.  Added to it the Lagrange-8 remainder
    h^8 f^(8)/8! * prod: for eccentric orbits the harmonics k n_p carry (k n_p)^8, observed up to 1.5 rp (n_p h)^8
    (edge interval, which is where propagate() always interpolates): 5 rp (n_p h)^8 — below 1.3 mm for n_p h <= 0.05,
    decimetres to metres for the coarsest steps in low eccentric orbits."""
    return 6 * vmax * MJD_ULP_S + 5 * o["rp"] * (o["n_p"] * h) ** 8 + 1e-4


def case_inp(o, h, T, **kw):
    d = {"x0": o["x0"], "step": h, "T": T, "e": o["e"], "rp": o["rp"]}
    d.update(kw)
    return d


def check_rk4(out, o, h, T, mu, deep):
    import numpy as np
    from beyond.dates import timedelta
    ref = kepler_ref(o["x0"], T, mu)
    es = []
    last = None
    # the order is read off the finest pair (h/2, h/4): the pair (h, h/2) is still pre-asymptotic for coarse steps in low
    # orbits and for eccentric orbits (observed 4.66 at n_p h = 0.14, 4.99 at e = 0.52, n_p h = 0.066)
    for hh in (h, h / 2, h / 4):
        r = vec(make(o["x0"], hh, "rk4").propagate(timedelta(seconds=T)))
        if not _finite(out, "rk4", "propagate", case_inp(o, hh, T), r):
            return
        es.append(float(np.linalg.norm(r[:3] - ref[:3])))
        if last is None:
            last = r
    nh = o["n_p"] * h
    nT = o["n_p"] * abs(T)
    N = abs(T) / h
    bound = 0.012 + 0.5 * o["rp"] * nh ** 4 * (1 + nT) ** 2
    out.count(key=("rk4-bound", h, T, o["rp"]), kind="rk4-error-bound", direction="back" if T < 0 else "fwd")
    if es[0] > bound:
        out.fail("rk4-error-bound", "RK4 result is farther from the analytical two-body solution than C*rp*(n h)^4*(1+nT)^2",
                 case_inp(o, h, T, method="rk4"), observed=es[0], expected=bound)
    # the finest pair whose errors are above the interpolation floor (propagate interpolates the target date: up to 15 mm)
    pair = (es[1], es[2]) if es[2] > 0.05 else (es[0], es[1])
    assessable = pair[1] > 0.05 and es[0] < 1e-3 * o["rp"]
    out.count(key=("rk4-order", h, T, o["rp"]), nontrivial=assessable, kind="rk4-order", rk4_order_assessable=assessable)
    if assessable:
        p = math.log2(pair[0] / pair[1])
        # one-sided: over whole numbers of revolutions the h^4 term of the global error nearly cancels and the observed
        # order approaches 5 (4.90 on both pairs at e = 0.46, T = 2.9 periods); faster than 4 is not a violation
        if not (3.5 <= p <= 6.5):
            out.fail("rk4-order", "observed convergence order of RK4 under step halving is below 4 (-0.5) (or implausibly high)",
                     case_inp(o, h, T, method="rk4"), observed={"errors": es, "order": p}, expected=4)
    elif es[-1] > es[0] + 0.012:
        out.fail("rk4-converge", "halving the step increased the error", case_inp(o, h, T, method="rk4"), observed=es)
    # first integrals
    dE = abs(energy(last, mu) / energy(o["x0"], mu) - 1)
    L0 = angmom(o["x0"])
    dL = float(np.linalg.norm(angmom(last) - L0) / np.linalg.norm(L0))
    b = 1e-11 + 0.05 * nh ** 5 * (N + 8)
    out.count(key=("rk4-drift", h, T, o["rp"]), kind="rk4-energy-momentum")
    if dE > b or dL > b:
        out.fail("rk4-drift", "relative energy / angular momentum drift of RK4 exceeds 0.05 (n h)^5 N",
                 case_inp(o, h, T, method="rk4"), observed={"dE": dE, "dL": dL}, expected=b)


def check_euler(out, o, h, T, mu):
    import numpy as np
    from beyond.dates import timedelta
    Te = q(math.copysign(min(abs(T), 30 * h), T))
    if Te == 0:
        Te = h
    ref = kepler_ref(o["x0"], Te, mu)
    es = []
    for hh in (h / 4, h / 8):
        r = vec(make(o["x0"], hh, "euler").propagate(timedelta(seconds=Te)))
        if not _finite(out, "euler", "propagate", case_inp(o, hh, Te), r):
            return
        es.append(float(np.linalg.norm(r[:3] - ref[:3])))
    assessable = es[0] < 0.05 * o["rp"] and es[1] > 0.05
    out.count(key=("euler", h, Te, o["rp"]), nontrivial=assessable, kind="euler-order", euler_order_assessable=assessable, direction="back" if T < 0 else "fwd")
    if assessable:
        p = math.log2(es[0] / es[1])
        if not (0.7 <= p <= 2.5):
            out.fail("euler-order", "observed convergence order of Euler under step halving is below 1 (-0.3) (or implausibly high)",
                     case_inp(o, h, Te, method="euler"), observed={"errors": es, "order": p}, expected=1)
    nh = o["n_p"] * h / 4
    bound = 0.012 + 2.0 * o["rp"] * nh * (o["n_p"] * abs(Te)) * (1 + o["n_p"] * abs(Te)) * math.exp(o["n_p"] * abs(Te))
    if es[0] > bound:
        out.fail("euler-error-bound", "Euler result is farther from the analytical solution than first-order accuracy allows",
                 case_inp(o, h / 4, Te, method="euler"), observed=es[0], expected=bound)


def check_adaptive(out, o, h, T, mu, method, tol):
    import numpy as np
    from beyond.dates import timedelta
    ref = kepler_ref(o["x0"], T, mu)
    orb = make(o["x0"], h, method, tol=tol)
    res = orb.propagate(timedelta(seconds=T))
    r = vec(res)
    inp = case_inp(o, h, T, method=method, tol=tol)
    if not _finite(out, method, "propagate", inp, r):
        return
    N = abs(T) / h
    nT = o["n_p"] * abs(T)
    err = float(np.linalg.norm(r[:3] - ref[:3]))
    bound = 0.012 + 10 * (N + 8) * tol * (1 + nT)
    out.count(key=(method, h, T, tol, o["rp"]), kind=method + "-global-error", direction="back" if T < 0 else "fwd", tol="%.0e" % tol)
    if err > bound:
        out.fail(method + "-global-error", "adaptive result is farther from the analytical solution than 10 tol per step (x along-track growth) + 12 mm",
                 inp, observed=err, expected=bound)
    dE = abs(energy(r, mu) / energy(o["x0"], mu) - 1)
    L0 = angmom(o["x0"])
    dL = float(np.linalg.norm(angmom(r) - L0) / np.linalg.norm(L0))
    # a position error d at radius r changes the energy by (mu/r^2) d, i.e. relatively by 2 a d / r^2 = 2 d / (rp (1 - e)) at perigee: the
    # natural scale of the drift per accepted step is tol / (rp (1 - e)) (observed 5.1e-10 at e = 0.69, perigee 214 km, 12 steps, tol 1.5e-6)
    b = 1e-11 + 100 * (N + 8) * tol / (o["rp"] * (1 - o["e"]))
    if dE > b or dL > b:
        out.fail(method + "-drift", "relative energy / angular momentum drift exceeds 100 N tol / (rp (1 - e))", inp, observed={"dE": dE, "dL": dL}, expected=b)
    # one step of the integrator itself, from a state on the exact orbit
    p = orb.propagator
    hs, y1 = p._make_step(p.orbit, timedelta(seconds=math.copysign(h, T if T else 1.0)))
    hs = hs.total_seconds()
    y1 = vec(y1)
    e1 = float(np.linalg.norm(y1[:3] - kepler_ref(o["x0"], hs, mu)[:3]))
    out.count(key=(method, "step", h, tol, o["rp"]), kind=method + "-one-step", shrunk=abs(hs) < h)
    if not (0 < abs(hs) <= h and (hs > 0) == (T >= 0)):
        out.fail(method + "-step-size", "accepted step is not in (0, step] with the sign of the request", inp, observed=hs, expected=h)
    elif e1 > 2 * tol + 1e-9 * o["rp"] / 6e6:
        out.fail(method + "-one-step", "local error of one accepted step exceeds 2 tol", inp, observed=e1, expected=2 * tol)
    return res


def check_accepted_steps(out, o, h, T, mu, method, tol):
    """every step an adaptive method accepts, over a whole request (the property's clause "stay within a small multiple of
    their tolerance per step"), for any reference step: `KeplerNum.step` is only the size the adaptive methods start from and
    may not exceed, so the clause does not depend on it — reference steps far above what the orbit needs (minutes to half an
    hour) are part of the family.  The accepted steps are observed on the real object during `Orbit.propagate` (both
    directions); nothing is interpolated: the last integration point is compared with the analytical solution at its own date."""
    import numpy as np
    from beyond.dates import timedelta
    orb = make(o["x0"], h, method, tol=tol)
    p = orb.propagator
    rec = []
    orig = p._make_step

    def ms(y, s_):
        r = orig(y, s_)
        rec.append((vec(y), s_.total_seconds(), r[0].total_seconds(), vec(r[1])))
        return r
    p._make_step = ms
    try:
        res = orb.propagate(timedelta(seconds=T))
    finally:
        del p._make_step
    inp = case_inp(o, h, T, method=method, tol=tol)
    if not _finite(out, method, "propagate", inp, vec(res)):
        return
    # round-off floor of the comparison with the analytical solution (universal-variable Kepler solver): 1e-9 m per 6000 km
    worst = None
    for k, (y0, asked, hs, y1) in enumerate(rec):
        out.count(key=(method, "acc", h, tol, T, k, o["rp"]), kind=method + "-accepted-step", shrunk=abs(hs) < abs(asked),
                  reference_step="<=120 s" if h <= 120 else "120-600 s" if h <= 600 else "> 600 s")
        if not (0 < abs(hs) <= abs(asked) and (hs > 0) == (asked > 0) and abs(abs(asked) - h) <= 1e-6):
            out.fail(method + "-step-size", "a step accepted during propagate is not in (0, reference step] with the sign of the request", dict(inp, step_index=k),
                     observed={"asked": asked, "accepted": hs}, expected=h)
            return
        if not _finite(out, method, "accepted step", dict(inp, step_index=k), y1):
            return
        e1 = float(np.linalg.norm(y1[:3] - kepler_ref(list(y0), hs, mu)[:3]))
        fl = 1e-9 * float(np.linalg.norm(y0[:3])) / 6e6
        if worst is None or e1 - fl > worst[0]:
            worst = (e1 - fl, k, hs, e1, [float(v) for v in y0])
    if worst and worst[0] > 2 * tol:
        out.fail(method + "-accepted-step-error", "a step accepted by the adaptive method during propagate has a local error (against the analytical two-body "
                 "solution from the state it started from) above 2 tol", dict(inp, step_index=worst[1], accepted_step=worst[2], from_state=worst[4]),
                 observed=worst[3], expected=2 * tol)
    if rec:
        tt = sum(r[2] for r in rec)
        end = rec[-1][3]
        err = float(np.linalg.norm(end[:3] - kepler_ref(o["x0"], tt, mu)[:3]))
        bound = 1e-8 * o["rp"] / 6e6 * (1 + o["n_p"] * abs(tt)) + 10 * (len(rec) + 8) * tol * (1 + o["n_p"] * abs(tt))
        out.count(key=(method, "acc-end", h, tol, T, o["rp"]), kind=method + "-integration-point-error")
        if err > bound:
            out.fail(method + "-integration-point-error", "the last integration point of the request is farther from the analytical solution than 10 tol per accepted "
                     "step (x along-track growth)", dict(inp, accepted_steps=len(rec), span=tt), observed=err, expected=bound)
    return res


def plan_accepted(rng, mu, k, max_steps):
    """orbit, reference step, tolerance and span for `check_accepted_steps`: reference steps from the property's 5-120 s up to half an
    hour (log-uniform), start at a random anomaly or shortly before perigee (where the step the tolerance needs is smallest),
    forward and backward, spans up to 1.3 revolutions within the step budget of the tier"""
    o = gen_orbit(rng, mu, nu=None if k % 3 else rng.uniform(-0.6, 0.1) * (1 if k % 2 else -1))
    lo, hi = ((5.0, 120.0), (120.0, 600.0), (600.0, 1800.0))[(k // 3) % 3 if rng.random() < 0.8 else rng.randrange(3)]
    h = q(math.exp(rng.uniform(math.log(lo), math.log(hi))))
    tol = 1e-3 if k % 4 == 0 else 10 ** rng.uniform(-6, -2)
    # an adaptive method needs about period / 60 .. period / 200 per step around perigee: the span is cut to the budget
    T = q((1 if k % 2 else -1) * min(rng.uniform(0.15, 1.3) * o["period"], max_steps * min(h, o["period"] / 120)))
    if T == 0:
        T = h
    return o, h, tol, T


def check_independence(out, o, h, mu, method, rng, tol=1e-3):
    """same integration grid, different requests: iter with two output steps, iter over explicit dates, propagate(date)"""
    import numpy as np
    from beyond.dates import timedelta, Date
    nsteps = rng.randint(9, 60)
    span = q(nsteps * h * rng.uniform(0.9, 1.0))
    outs = q(rng.choice([0.37, 0.5, 1.0, 2.3]) * h * rng.uniform(0.8, 1.2))
    orb = make(o["x0"], h, method, tol=tol)
    d0 = orb.date
    inp = case_inp(o, h, span, method=method, out_step=outs)
    pts = list(orb.iter(stop=timedelta(seconds=span), step=timedelta(seconds=outs)))
    pts2 = list(orb.iter(stop=timedelta(seconds=span), step=timedelta(seconds=2 * outs)))
    pts3 = list(orb.iter(dates=Date.range(d0, d0 + timedelta(seconds=span), timedelta(seconds=outs), inclusive=True)))
    vmax = math.sqrt(mu * (1 + o["e"]) / o["rp"])
    tolr = interp_tol(o, h, vmax)
    out.count(key=("indep", method, h, span, outs, o["rp"]), kind="independence-" + method)
    if len(pts) < 2 or len(pts3) < 2:
        out.fail("iter-empty", "iteration over a span of >= 8 steps yields fewer than two points", inp, observed=[len(pts), len(pts3)])
        return
    for name, A, B in (("output-step", pts[::2], pts2), ("dates-vs-step", pts, pts3)):
        for a, b in zip(A, B):
            if a.date != b.date:
                out.fail("iter-dates-" + name, "two iterations with commensurate output steps do not yield the same dates", inp,
                         observed=str(a.date), expected=str(b.date))
                break
            d = float(np.linalg.norm(vec(a)[:3] - vec(b)[:3]))
            if not d <= tolr:
                out.fail("independence-" + name, "state returned for a date depends on the output step / request form by more than the interpolation error",
                         dict(inp, date_offset=(a.date - d0).total_seconds()), observed=d, expected=tolr)
                break
    idx = sorted({1, len(pts) // 2, len(pts) - 1})
    for i in idx:
        pt = pts[i]
        single = orb.propagate(pt.date)
        d = float(np.linalg.norm(vec(single)[:3] - vec(pt)[:3]))
        dv = float(np.linalg.norm(vec(single)[3:] - vec(pt)[3:]))
        out.count(key=("prop-vs-iter", method, h, outs, i, o["rp"]), kind="propagate-vs-iterate")
        if not (d <= tolr and dv <= tolr * o["n_p"] * 10 + 1e-6):
            out.fail("independence-propagate-vs-iterate", "propagate(date) and iterate disagree at the same date by more than the interpolation error",
                     dict(inp, date_offset=(pt.date - d0).total_seconds()), observed={"dpos": d, "dvel": dv}, expected=tolr)
            break
    # the iterated states themselves are the two-body solution (within the integrator's accuracy)
    pt = pts[len(pts) // 2]
    dt = (pt.date - d0).total_seconds()
    err = float(np.linalg.norm(vec(pt)[:3] - kepler_ref(o["x0"], dt, mu)[:3]))
    nh = o["n_p"] * h
    nT = o["n_p"] * dt
    bound = (0.012 + 0.5 * o["rp"] * nh ** 4 * (1 + nT) ** 2) if method == "rk4" else (0.012 + 10 * (dt / h + 8) * tol * (1 + nT))
    if method == "euler":
        bound = 0.012 + 2.0 * o["rp"] * nh * nT * (1 + nT) * math.exp(nT)
    if err > bound:
        out.fail(method + "-iter-error", "iterated state is farther from the analytical solution than the integrator's accuracy bound",
                 dict(inp, date_offset=dt), observed=err, expected=bound)


def check_chained(out, o, h, T, mu, method, tol):
    """a request split in two propagate calls keeps the chosen integrator settings"""
    import numpy as np
    from beyond.dates import timedelta
    T1 = q(T * 0.4)
    orb = make(o["x0"], h, method, tol=tol)
    mid = orb.propagate(timedelta(seconds=T1))
    inp = case_inp(o, h, T, method=method, tol=tol, T1=T1)
    out.count(key=("chained", method, h, T, tol, o["rp"]), kind="chained-" + method)
    p2 = mid.propagator
    adaptive = method in ADAPTIVE
    got = {"method": p2.method, "step": p2.step.total_seconds(), "tol": getattr(p2, "tol", None) if adaptive else None}
    want = {"method": method, "step": orb.propagator.step.total_seconds(), "tol": tol if adaptive else None}
    lost = [k for k in ("method", "step", "tol") if got[k] != want[k]]
    if lost:
        # family = which settings are lost: a different lost setting is a different defect
        out.fail("propagate-result-settings-" + "+".join(lost),
                 "the orbit returned by propagate carries a propagator whose integrator settings differ from the chosen ones: a split request continues with other settings",
                 inp, observed=got, expected=want)
    end = vec(mid.propagate(timedelta(seconds=q(T - T1))))
    if not _finite(out, method, "chained propagate", inp, end):
        return
    ref = kepler_ref(o["x0"], q(T1) + q(T - T1), mu)
    N = abs(T) / h
    nT = o["n_p"] * abs(T)
    nh = o["n_p"] * h
    bound = (0.03 + 1.0 * o["rp"] * nh ** 4 * (1 + nT) ** 2) if method == "rk4" else (0.03 + 10 * (N + 16) * tol * (1 + nT))
    err = float(np.linalg.norm(end[:3] - ref[:3]))
    if err > bound:
        fam = "chained-propagate-error"
        if lost:
            # is the excess explained by the lost settings?  continue once more from the same intermediate state with the chosen
            # settings restored on the returned propagator
            mid2 = orb.propagate(timedelta(seconds=T1))
            for k_ in lost:
                setattr(mid2.propagator, k_, {"method": method, "step": orb.propagator.step, "tol": tol}[k_])
            end2 = vec(mid2.propagate(timedelta(seconds=q(T - T1))))
            if float(np.linalg.norm(end2[:3] - ref[:3])) <= bound:
                fam = "propagate-result-settings-" + "+".join(lost)
        out.fail(fam, "a request split in two propagate calls ends farther from the analytical solution than the accuracy bound of the chosen settings",
                 inp, observed=err, expected=bound)


# ---------------------------------------------------------------- short spans and output grids (the padding rule of _iter)

SHORT_FORMS = ["step-smaller", "step-equal", "step-larger", "step-incommensurate", "dates-list", "dates-range", "backward-step",
               "backward-explicit", "dates-before-epoch", "dates-across-epoch", "start-offset", "ephem", "start-offset-rel"]


def plan_short(rng, o, h, method, tol=1e-3, form=None):
    """a request over a span of 1..10 integration steps whose outputs are (mostly) not integration points; everything drawn
    here is recorded so that a failure replays exactly"""
    n = rng.randint(1, 10)
    span = q(h * (n - rng.choice([0.0, 0.0, rng.uniform(0.05, 0.95)])))
    if span <= 0:
        span = q(h * n)
    form = form or rng.choice(SHORT_FORMS)
    ratio = {"step-smaller": rng.choice([0.1, 0.25, 1 / 3, 0.5, 0.77]), "step-equal": 1.0, "step-larger": rng.choice([1.5, 2.0, 3.0, 4.4]),
             "step-incommensurate": rng.choice([1 / math.pi, math.sqrt(2) / 2, math.sqrt(2), math.e / 2])}.get(form, rng.choice([0.25, 0.37, 0.5, 1.0, 1.3]))
    outs = max(q(ratio * h), 1e-3)
    plan = {"form": form, "method": method, "tol": tol, "step": h, "nsteps": n, "span": span, "out_step": outs}
    if form in ("dates-list", "dates-before-epoch", "dates-across-epoch"):
        k = rng.randint(1, 5)
        offs = [q(rng.uniform(0, span)) for _ in range(k)]
        if form == "dates-before-epoch":
            offs = [-x - q(rng.uniform(0, h)) for x in offs]
        elif form == "dates-across-epoch":
            offs = [x - q(span * rng.uniform(0.2, 0.8)) for x in offs]
        plan["offsets"] = offs            # in the drawn (arbitrary) order
    if form in ("start-offset", "start-offset-rel"):
        plan["start"] = q(h * rng.uniform(-3, 3))
    return plan


def run_short(out, o, mu, plan):
    import numpy as np
    from beyond.dates import timedelta, Date
    form, method, tol, h, span, outs = plan["form"], plan["method"], plan["tol"], plan["step"], plan["span"], plan["out_step"]
    orb = make(o["x0"], h, method, tol=tol)
    d0 = orb.date
    td = lambda x: timedelta(seconds=x)
    inp = case_inp(o, h, span, **{k: v for k, v in plan.items() if k not in ("step", "span")})
    same_grid = True          # the request integrates from the epoch itself: iterate and propagate share their integration points
    if form.startswith("step-"):
        pts = list(orb.iter(stop=td(span), step=td(outs)))
        want_dates = [d0 + td(outs) * i for i in range(int(math.floor(span / outs + 1e-9)) + 1)]
    elif form == "ephem":
        pts = list(orb.ephem(stop=td(span), step=td(outs)))
        want_dates = [d0 + td(outs) * i for i in range(int(math.floor(span / outs + 1e-9)) + 1)]
    elif form in ("dates-list", "dates-before-epoch", "dates-across-epoch"):
        want_dates = [d0 + td(x) for x in plan["offsets"]]
        pts = list(orb.iter(dates=list(want_dates)))
        same_grid = min(plan["offsets"]) == 0
    elif form == "dates-range":
        want_dates = list(Date.range(d0, d0 + td(span), td(outs), inclusive=True))
        pts = list(orb.iter(dates=Date.range(d0, d0 + td(span), td(outs), inclusive=True)))
    elif form == "backward-step":
        pts = list(orb.iter(stop=-td(span), step=td(outs)))
        want_dates = [d0 - td(outs) * i for i in range(int(math.floor(span / outs + 1e-9)) + 1)]
    elif form == "backward-explicit":
        pts = list(orb.iter(start=d0, stop=d0 - td(span), step=-td(outs)))
        want_dates = [d0 - td(outs) * i for i in range(int(math.floor(span / outs + 1e-9)) + 1)]
    elif form == "start-offset":
        s0 = d0 + td(plan["start"])
        pts = list(orb.iter(start=s0, stop=s0 + td(span), step=td(outs)))
        want_dates = [s0 + td(outs) * i for i in range(int(math.floor(span / outs + 1e-9)) + 1)]
        same_grid = plan["start"] == 0
    elif form == "start-offset-rel":
        # an explicit start with a RELATIVE stop (a timedelta): the span is counted from the start
        s0 = d0 + td(plan["start"])
        pts = list(orb.iter(start=s0, stop=td(span), step=td(outs)))
        want_dates = [s0 + td(outs) * i for i in range(int(math.floor(span / outs + 1e-9)) + 1)]
        same_grid = plan["start"] == 0
    else:
        raise ValueError(form)
    out.count(key=("short", form, method, h, span, outs, o["rp"]), kind="short-span-" + form, method=method, nsteps=plan["nsteps"])
    got_dates = [p.date for p in pts]
    if got_dates != want_dates:
        # more dates than requested after `stop` belong to the iteration contract (C08); fewer, or other dates, are reported here
        if got_dates[:len(want_dates)] != want_dates:
            out.fail("short-span-dates-" + form, "iteration over a short span does not yield the requested dates", inp,
                     observed=[(d - d0).total_seconds() for d in got_dates], expected=[(d - d0).total_seconds() for d in want_dates])
            return
        out.tally("short-span-extra-dates-after-stop(C08)")
        pts = pts[:len(want_dates)]
    vmax = math.sqrt(mu * (1 + o["e"]) / o["rp"])
    tight = interp_tol(o, h, vmax)
    nh = o["n_p"] * h
    worst = (0.0, None)
    for pt in pts:
        dt = (pt.date - d0).total_seconds()
        a = vec(pt)
        if not _finite(out, "short-span-" + form, "iter", dict(inp, date_offset=dt), a):
            return
        nT = o["n_p"] * (abs(dt) + (0 if same_grid else abs(plan.get("start", 0.0)) + span))
        N = abs(dt) / h + 8
        acc = {"rk4": 0.5 * o["rp"] * nh ** 4 * (1 + nT) ** 2, "euler": 2.0 * o["rp"] * nh * (nT + 8 * nh) * (1 + nT) * math.exp(nT + 8 * nh)}.get(method, 10 * (N + 8) * tol * (1 + nT))
        # (1) the same date by propagate(): same integration points when the request starts at the epoch (interpolation error
        # only); otherwise the integration restarts from an interpolated state: within the accuracy of the integrator
        single = vec(orb.propagate(pt.date))
        d = float(np.linalg.norm(single[:3] - a[:3]))
        lim = tight if same_grid else tight + 2 * acc
        if not d <= lim:
            out.fail("short-span-iter-vs-propagate-" + form, "over a short span, iterate and propagate(date) disagree at the same date by more than the interpolation error"
                     + ("" if same_grid else " and the accuracy of the integrator"), dict(inp, date_offset=dt), observed=d, expected=lim)
            return
        # (2) the analytical solution
        err = float(np.linalg.norm(a[:3] - kepler_ref(o["x0"], dt, mu)[:3]))
        lim2 = 0.012 + tight + acc
        if err > worst[0]:
            worst = (err, dt)
        if not err <= lim2:
            out.fail("short-span-vs-analytical-" + form, "over a short span, the iterated state is farther from the analytical two-body solution than the accuracy of the "
                     "integrator plus the interpolation error", dict(inp, date_offset=dt), observed=err, expected=lim2)
            return


# ---------------------------------------------------------------- one propagator object re-used with changed attributes

REUSE_ATTRS = ["method", "step", "tol", "bodies", "bodies-inplace", "frame", "maneuvers", "orbit", "state-inplace"]


def plan_reuse(rng, o, first=None):
    """a history on ONE KeplerNum object: legs of (attribute changes, one call); every drawn value is recorded"""
    cfg = {"method": rng.choice(METHODS), "step": q(rng.uniform(5, 120)), "tol": 10 ** rng.uniform(-6, -2), "bodies": ["Earth"], "frame": "EME2000",
           "maneuvers": []}
    legs = []
    for k in range(rng.randint(2, 4)):
        sets = {}
        if k > 0:
            attrs = [first] if (first and k == 1) else rng.sample(REUSE_ATTRS, rng.choice([1, 1, 2]))
            for a in attrs:
                if a == "method":
                    sets["method"] = rng.choice([m for m in METHODS if m != cfg["method"]])
                elif a == "step":
                    sets["step"] = q(cfg["step"] * rng.choice([0.25, 0.5, 2.0, 0.37])) if rng.random() < 0.7 else q(rng.uniform(5, 120))
                    sets["step"] = min(max(sets["step"], 5.0), 240.0)
                elif a == "tol":
                    sets["tol"] = cfg["tol"] * rng.choice([1e-3, 1e-2, 1e2, 1e3])
                elif a == "bodies":
                    sets["bodies"] = ["Earth", "Moon"] if cfg["bodies"] == ["Earth"] else ["Earth"]
                elif a == "bodies-inplace":
                    sets["bodies-inplace"] = "append-Moon" if "Moon" not in cfg["bodies"] else "remove-Moon"
                elif a == "frame":
                    sets["frame"] = "TOD" if cfg["frame"] == "EME2000" else "EME2000"
                elif a == "maneuvers":
                    sets["maneuvers"] = [] if cfg["maneuvers"] else [{"at": q(cfg["step"] * rng.uniform(0.5, 3)), "dv": [rng.uniform(-5, 5) for _ in range(3)]}]
                elif a == "orbit":
                    sets["orbit"] = 1 - legs[-1]["orbit"]
                elif a == "state-inplace":
                    # the calling orbit object itself is modified in place between two calls (a hand-made velocity increment)
                    sets["state-inplace"] = [rng.uniform(-2, 2) for _ in range(3)]
        for a, v in sets.items():
            if a == "bodies-inplace":
                cfg["bodies"] = cfg["bodies"] + ["Moon"] if v == "append-Moon" else [b for b in cfg["bodies"] if b != "Moon"]
            elif a not in ("orbit", "state-inplace"):
                cfg[a] = v
        n = rng.uniform(1, 25) if "Moon" not in cfg["bodies"] else rng.uniform(1, 6)
        T = q(math.copysign(cfg["step"] * n, rng.choice([1, 1, -1])))
        call = rng.choice(["propagate", "propagate", "iter-step", "iter-dates"])
        outs_ = q(abs(T) / rng.choice([1.0, 2.5, 4.0])) or 1e-3
        if ("orbit" in sets or "state-inplace" in sets) and legs and rng.random() < 0.7:
            # the SAME request (same dates) for the other satellite
            T, call, outs_ = legs[-1]["T"], legs[-1]["call"], legs[-1]["out_step"]
        legs.append({"set": sets, "call": call, "T": T, "out_step": outs_,
                     "orbit": sets.get("orbit", legs[-1]["orbit"] if legs else 0), "cfg": dict(cfg)})
    c0 = dict(legs[0]["cfg"])
    # the second orbit object sharing the propagator object: half of the time ANOTHER satellite (same epoch, other state) — one
    # propagator object serving several orbits is the constellation use; anything the object keeps from the previous call
    # (a tabulation, a stage derivative, a bound state) then belongs to the wrong satellite
    ob = None
    if rng.random() < 0.5 or first == "orbit":
        mu_ = float(earth().µ)
        ob = gen_orbit(rng, mu_)
    return {"initial": c0, "legs": legs, "orbit_b": ob}


def _bodies(names):
    from beyond.env.solarsystem import get_body
    return [get_body(n) for n in names]


def _mans(orb, specs):
    from beyond.orbits.man import ImpulsiveMan
    from beyond.dates import timedelta
    return [ImpulsiveMan(orb.date + timedelta(seconds=m["at"]), list(m["dv"]), frame="TNW") for m in specs]


def _reuse_call(orb, leg):
    """the call of one leg -> list of (date, state in EME2000 cartesian)"""
    import numpy as np
    from beyond.dates import timedelta
    td = lambda x: timedelta(seconds=x)
    if leg["call"] == "propagate":
        res = [orb.propagate(td(leg["T"]))]
    elif leg["call"] == "iter-step":
        res = list(orb.iter(stop=td(leg["T"]), step=td(leg["out_step"])))
    else:
        res = list(orb.iter(dates=[orb.date + td(leg["T"]), orb.date + td(leg["T"] / 2), orb.date + td(leg["T"] / 3)]))
    return [(r.date, np.array([float(v) for v in r.copy(frame="EME2000", form="cartesian").base])) for r in res]


def run_reuse(out, o, mu, plan):
    import numpy as np
    from beyond.orbits import Orbit
    from beyond.dates import timedelta
    from beyond.propagators.keplernum import KeplerNum
    c0 = plan["initial"]
    prop = KeplerNum(timedelta(seconds=c0["step"]), _bodies(c0["bodies"]), method=c0["method"], frame=c0["frame"], tol=c0["tol"])
    # two orbit objects may share the propagator object: the same state at the same date (so that the reference is the same)
    os_ = [dict(o), dict(plan.get("orbit_b") or o)]
    orbs = [Orbit(list(oo["x0"]), epoch(), "cartesian", "EME2000", prop) for oo in os_]

    def fresh(cfg, override=None, which=0):
        c = dict(cfg)
        c.update(override or {})
        f = Orbit(list(os_[which]["x0"]), epoch(), "cartesian", "EME2000",
                  KeplerNum(timedelta(seconds=c["step"]), _bodies(c["bodies"]), method=c["method"], frame=c["frame"], tol=c["tol"]))
        f.maneuvers = _mans(f, c["maneuvers"])
        return f

    prev = dict(c0)
    changed = {}        # attribute -> value it had before its last change
    for k, leg in enumerate(plan["legs"]):
        cfg = leg["cfg"]
        for a, v in leg["set"].items():
            if a == "method":
                prop.method = v
            elif a == "step":
                prop.step = timedelta(seconds=v)
            elif a == "tol":
                prop.tol = v
            elif a == "bodies":
                prop.bodies = _bodies(v)
            elif a == "bodies-inplace":
                if v == "append-Moon":
                    prop.bodies.append(_bodies(["Moon"])[0])
                else:
                    prop.bodies[:] = [b for b in prop.bodies if b.name != "Moon"]
            elif a == "frame":
                prop.frame = v
            elif a == "maneuvers":
                for ob in orbs:
                    ob.maneuvers = _mans(ob, v)
        for a in ("method", "step", "tol", "bodies", "frame", "maneuvers"):
            if cfg[a] != prev[a]:
                changed[a] = prev[a]
        prev = dict(cfg)
        orb = orbs[leg["orbit"]]
        w = leg["orbit"]
        x0_before = None
        if "state-inplace" in leg["set"]:
            dv = leg["set"]["state-inplace"]
            x0_before = list(os_[w]["x0"])
            orb[3:] = [float(orb[3 + i_]) + dv[i_] for i_ in range(3)]          # in place, on the caller's object
            os_[w]["x0"] = list(os_[w]["x0"][:3]) + [os_[w]["x0"][3 + i_] + dv[i_] for i_ in range(3)]
        oo = os_[w]
        inp = case_inp(o, cfg["step"], leg["T"], method=cfg["method"], tol=cfg["tol"], plan=plan, leg=k)
        got = _reuse_call(orb, leg)
        want = _reuse_call(fresh(cfg, which=w), leg)
        out.count(key=("reuse", k, repr(leg["set"]), cfg["method"], cfg["step"], leg["T"], o["rp"]), nontrivial=k > 0, kind="reuse-" + leg["call"],
                  changed="+".join(sorted(leg["set"])) or "nothing", method=cfg["method"])
        bad = None
        if [d for d, _ in got] != [d for d, _ in want]:
            bad = ("dates", [str(d) for d, _ in got], [str(d) for d, _ in want])
        else:
            for (d, a), (_, b) in zip(got, want):
                if not np.all(np.isfinite(a)):
                    bad = ("non-finite state", [float(v) for v in a], [float(v) for v in b])
                    break
                dd = float(np.linalg.norm(a[:3] - b[:3]))
                if not dd <= 1e-6:
                    bad = ("position differs by %.6g m at %s" % (dd, d), [float(v) for v in a], [float(v) for v in b])
                    break
        if bad:
            # which attribute does the re-used object still see with its former value?
            stale = []
            for a, old in changed.items():
                try:
                    alt = _reuse_call(fresh(cfg, {a: old}, which=w), leg)
                    if len(alt) == len(got) and all(float(np.linalg.norm(x[1][:3] - y[1][:3])) <= 1e-6 for x, y in zip(alt, got)):
                        stale.append(a)
                except Exception:
                    pass
            fam = ("reuse-stale-" + "+".join(sorted(stale))) if stale else ("reuse-differs-after-set-" + ("+".join(sorted(changed)) or "nothing"))
            if not stale and x0_before is not None:
                # does the propagator still integrate from the state the caller's orbit had BEFORE it was modified in place?
                try:
                    keep = os_[w]["x0"]
                    os_[w]["x0"] = x0_before
                    old_ = _reuse_call(fresh(cfg, which=w), leg)
                    os_[w]["x0"] = keep
                    if len(old_) == len(got) and all(float(np.linalg.norm(x[1][:3] - y[1][:3])) <= 1e-6 for x, y in zip(old_, got)):
                        fam = "reuse-stale-bound-orbit-state"
                except Exception:
                    os_[w]["x0"] = keep
            if not stale and plan.get("orbit_b") and k > 0 and fam.startswith("reuse-differs"):
                # does the shared object answer for the OTHER satellite?
                try:
                    other = _reuse_call(fresh(cfg, which=1 - w), leg)
                    if len(other) == len(got) and all(float(np.linalg.norm(x[1][:3] - y[1][:3])) <= 1e-6 for x, y in zip(other, got)):
                        fam = "reuse-shared-propagator-other-orbit"
                except Exception:
                    pass
            out.fail(fam, "a KeplerNum object whose public attributes were changed between two calls does not return what a fresh propagator configured with the "
                          "current values returns (" + bad[0] + ")" + (": it still integrates with the former " + ", ".join(stale) if stale else ""),
                     inp, observed=bad[1], expected=bad[2])
            return
        # the result is the two-body solution within the accuracy of the CURRENT configuration
        if cfg["bodies"] == ["Earth"] and not cfg["maneuvers"] and cfg["method"] != "euler" and cfg["frame"] == "EME2000":
            h, T = cfg["step"], leg["T"]
            nh, vmax = oo["n_p"] * h, math.sqrt(mu * (1 + oo["e"]) / oo["rp"])
            for d, a in got:
                dt = (d - orb.date).total_seconds()
                nT = oo["n_p"] * abs(dt)
                acc = (0.5 * oo["rp"] * nh ** 4 * (1 + nT) ** 2) if cfg["method"] == "rk4" else 10 * (abs(dt) / h + 16) * cfg["tol"] * (1 + nT)
                err = float(np.linalg.norm(a[:3] - kepler_ref(oo["x0"], dt, mu)[:3]))
                lim = 0.012 + acc + interp_tol(oo, h, vmax)
                if not err <= lim:
                    out.fail("reuse-error-" + cfg["method"], "after its attributes were changed, the propagator's result is farther from the analytical solution than the "
                             "accuracy of the configuration now set", dict(inp, date_offset=dt), observed=err, expected=lim)
                    return


def oracle(ctx, widened):
    out = Outcome()
    rng = ctx.rng
    mu = float(earth().µ)
    big = widened or ctx.thorough
    ncases = 120 if big else 24
    cap = 900 if big else 130     # integration steps per run (the +-3 orbit quantifier is reached in the thorough tier)
    t_start = time.time()
    stuck = {}
    known = core.load_known()
    B = 40 if big else 20

    def run(fam, inp_, fn, *args):
        # a family that made no progress twice is not tried again (each attempt costs the whole budget B)
        if stuck.get(fam, 0) >= 2:
            out.tally("skipped-after-no-progress=" + fam)
            return
        n0 = len(out.failures)
        guarded(out, B, fam, inp_, fn, *args)
        if any(f["family"].endswith("-no-progress") for f in out.failures[n0:]):
            stuck[fam] = stuck.get(fam, 0) + 1

    def found():
        # something no longer checks (widened sweep, quick tier): the sweep has done its job as soon as it holds a failing input
        # that is not a listed open finding
        return widened and not ctx.thorough and any(core.match_known(ID, f, known) is None for f in out.failures)

    def draw():
        o = gen_orbit(rng, mu)
        h = q(rng.uniform(5, 120)) if rng.random() < 0.8 else rng.choice([5.0, 120.0, 60.0])
        T = q(rng.uniform(-3, 3) * o["period"])
        if abs(T) > cap * h:
            T = q(math.copysign(cap * h * rng.uniform(0.3, 1.0), T))
        if rng.random() < 0.1:
            T = math.copysign(h * rng.randint(1, 12), T)   # on a node, short spans included
        if T == 0:
            T = h
        return o, h, T

    # ---- phase A0: every accepted step of the adaptive methods over a request, reference steps from 5 s to half an hour
    nA0 = 240 if big else 36
    for k in range(nA0):
        if found():
            break
        if time.time() - t_start > (90 if ctx.thorough else 40 if widened else 6):
            out.notes.append(f"oracle phase A0 stopped after {k} of {nA0} orbits: time budget of the tier reached")
            break
        o, h, tol, T = plan_accepted(rng, mu, k, 120 if big else 25)
        ma = ADAPTIVE[(k // 2) % 2]
        run("accepted-" + ma, dict(case_inp(o, h, T), method=ma, tol=tol), check_accepted_steps, out, o, h, T, mu, ma, tol)
    t_start = time.time()   # the budgets of the phases below count from here
    # ---- phase A: the cheap families (a few dozen integration steps each), every method, both directions
    nA = ncases * 2
    for k in range(nA):
        if found():
            break
        if time.time() - t_start > (120 if ctx.thorough else 60 if widened else 12):
            out.notes.append(f"oracle phase A stopped after {k} of {nA} orbits: time budget of the tier reached")
            break
        o, h, T = draw()
        tol = 10 ** rng.uniform(-6, -2)
        m = METHODS[k % 4]
        plan = plan_short(rng, o, h, m, tol=tol if k % 2 else 1e-3, form=SHORT_FORMS[(k // 4) % len(SHORT_FORMS)] if k % 3 else None)
        run("short-span-" + plan["form"], dict(case_inp(o, h, plan["span"]), **plan), run_short, out, o, mu, plan)
        # adaptive integrators over at most 30 steps, forward and backward in turn, coarse steps included
        Ts = q(math.copysign(min(abs(T), h * rng.uniform(1, 30)), 1 if k % 2 else -1))
        ma = ADAPTIVE[(k // 2) % 2]
        t_ = 1e-3 if k % 4 < 2 else tol
        run(ma, dict(case_inp(o, h, Ts), method=ma, tol=t_), check_adaptive, out, o, h, Ts, mu, ma, t_)
        if k % 3 == 0:
            ps_ = plan_siblings(rng, o, mode=SIB_MODES[(k // 3) % len(SIB_MODES)])
            run("siblings", dict(case_inp(o, ps_["step"], 0.0), plan=ps_), run_siblings, out, o, mu, ps_)
        if k % 2 == 0:
            rp_ = plan_reuse(rng, o, first=REUSE_ATTRS[(k // 4) % len(REUSE_ATTRS)] if k % 4 == 0 else None)
            run("reuse", dict(case_inp(o, rp_["initial"]["step"], 0.0), plan=rp_), run_reuse, out, o, mu, rp_)
        else:
            m2 = METHODS[1 + (k // 2) % 3]
            Tc = q(math.copysign(min(abs(T), h * rng.uniform(2, 40)), T))
            run("chained-" + m2, dict(case_inp(o, h, Tc), method=m2, tol=tol), check_chained, out, o, h, Tc, mu, m2, tol)
    # ---- phase B: convergence order by step halving, long spans
    for k in range(ncases):
        if found():
            break
        o, h, T = draw()
        out.tally("full-3-orbit-horizon" if abs(T) >= 0.99 * 3 * o["period"] else "horizon<3 orbits")
        inp = case_inp(o, h, T)
        if time.time() - t_start > (480 if ctx.thorough else 330 if widened else 34):
            out.notes.append(f"oracle stopped after {k} of {ncases} orbits: time budget of the tier reached")
            break
        run("rk4", inp, check_rk4, out, o, h, T, mu, big and k % 4 == 0)
        run("euler", inp, check_euler, out, o, h, T, mu)
        tol = 10 ** rng.uniform(-6, -2)
        method = ADAPTIVE[k % 2]
        t_ = 1e-3 if k % 4 < 2 else tol
        run(method, dict(inp, method=method, tol=t_), check_adaptive, out, o, h, T, mu, method, t_)
        m = METHODS[k % 4]
        run("independence-" + m, dict(inp, method=m), check_independence, out, o, h, mu, m, rng)
        m2 = METHODS[1 + (k + 1) % 3]
        run("chained-" + m2, dict(inp, method=m2, tol=tol), check_chained, out, o, h, T, mu, m2, tol)
    out.sample({"checks": "short spans (1..10 integration steps; output step smaller / equal / larger / incommensurate, date lists, ranges, backward, "
                          "offset start, Orbit.ephem) iterate vs propagate vs analytical, every method; one KeplerNum object re-used after changes of "
                          "method / step / tol / bodies / frame / maneuvers / bound orbit vs a fresh propagator; rk4 order by step halving + error bound + "
                          "first integrals; euler order; rkf54/dopri54 global error, drift, one-step error <= 2 tol, every accepted step of a request (reference step 5 s .. 30 min) <= 2 tol; independence of output step, dates vs "
                          "step, propagate vs iterate; chained propagate keeps settings"})
    return out


def replay_history(out, i):
    """a recorded history on one real object: at every call, the re-used object against a fresh one with the same attribute values"""
    from beyond.dates import timedelta
    from beyond.propagators.keplernum import KeplerNum
    mk = lambda b: _FixedBody("b", b[0], b[1:4], b[4:7] if len(b) >= 7 else (0.0, 0.0, 0.0))
    init = i["initial"]
    prop = KeplerNum(timedelta(seconds=init["step"]), [mk(b) for b in init["bodies"]], method=init["method"], tol=init["tol"],
                     frame=init.get("frame", "EME2000"))
    last_bind = None
    for k, op in enumerate(i["ops"]):
        kind = op["op"]
        if kind in ("mk", "rb", "sd"):
            real = _real_call(prop, op)
            fr = KeplerNum(prop.step, list(prop.bodies), tol=prop.tol, frame=prop.frame)
            fr.method = prop.method
            if kind == "sd" and last_bind is not None:
                from beyond.orbits import Orbit
                fr.frame = last_bind[1]
                fr.orbit = Orbit(list(last_bind[0]), epoch(), "cartesian", "EME2000", None)
                fr.frame = prop.frame
            fresh = _real_call(fr, op)
            stale = (fresh != real) if (isinstance(fresh, str) or isinstance(real, str)) else any(
                not core.close(a, b, rtol=1e-12, atol=1e-9) for a, b in zip(fresh, real))
            if stale:
                out.fail("reuse-history", f"a re-used KeplerNum object does not return what a fresh object with the same attribute values returns at operation {k}",
                         i, observed=real if isinstance(real, str) else real[:7], expected=fresh if isinstance(fresh, str) else fresh[:7])
                break
        elif kind == "sm":
            prop.method = op["m"]
        elif kind == "ss":
            prop.step = timedelta(seconds=op["h"])
        elif kind == "st":
            prop.tol = op["t"]
        elif kind == "sb":
            prop.bodies = [mk(b) for b in op["bodies"]]
        elif kind == "ab":
            prop.bodies.append(mk(op["body"]))
        elif kind == "db":
            prop.bodies.pop()
        elif kind == "cp":
            prop = prop.copy()
        elif kind == "sf":
            prop.frame = op["f"]
        elif kind == "bd":
            from beyond.orbits import Orbit
            try:
                prop.orbit = Orbit(list(op["y"]), epoch(), "cartesian", "EME2000", None)
                last_bind = (list(op["y"]), prop.frame)
            except Exception:
                pass
    return out


def replay(f):
    """re-run the oracle family on the recorded input"""
    out = Outcome()
    mu = float(earth().µ)
    i = f["input"]
    if f["family"].startswith("reuse-history"):
        return replay_history(out, i)
    e, rp = i["e"], i["rp"]
    o = {"x0": i["x0"], "e": e, "rp": rp, "a": rp / (1 - e), "period": 2 * math.pi * math.sqrt((rp / (1 - e)) ** 3 / mu),
         "n_p": math.sqrt(mu * (1 + e) / rp ** 3)}
    fam = f["family"]
    import random
    B = 120
    if fam.startswith("short-span"):
        plan = {k_: i[k_] for k_ in ("form", "method", "tol", "nsteps", "out_step", "offsets", "start") if k_ in i}
        plan.update(step=i["step"], span=i["T"])
        guarded(out, B, "short-span-" + plan["form"], i, run_short, out, o, mu, plan)
    elif fam.startswith("reuse"):
        guarded(out, B, "reuse", i, run_reuse, out, o, mu, i["plan"])
    elif fam.startswith("sibling") or fam.startswith("output"):
        guarded(out, B, "siblings", i, run_siblings, out, o, mu, i["plan"])
    elif fam.startswith("rk4"):
        guarded(out, B, "rk4", i, check_rk4, out, o, i["step"], i["T"], mu, False)
    elif fam.startswith("euler"):
        guarded(out, B, "euler", i, check_euler, out, o, i["step"] * (4 if fam in ("euler-order", "euler-error-bound") else 1), i["T"], mu)
    elif fam.startswith("chained") or fam.startswith("propagate-result"):
        guarded(out, B, "chained-" + i["method"], i, check_chained, out, o, i["step"], i["T"], mu, i["method"], i["tol"])
    elif fam.startswith("independence") or fam.startswith("iter"):
        for s_ in range(20):
            guarded(out, B, "independence-" + i["method"], i, check_independence, out, o, i["step"], mu, i["method"], random.Random(s_))
    elif "accepted-step" in fam or "integration-point" in fam or fam.startswith("accepted-") or (fam.endswith("-step-size") and "step_index" in i):
        guarded(out, B, "accepted-" + i["method"], i, check_accepted_steps, out, o, i["step"], i["T"], mu, i["method"], i.get("tol", 1e-3))
    elif "method" in i:
        guarded(out, B, i["method"], i, check_adaptive, out, o, i["step"], i["T"], mu, i["method"], i.get("tol", 1e-3))
    return out
