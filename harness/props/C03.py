"""C03 — time scales: one instant, exact offsets, lawful date arithmetic, date ranges."""
import ast
import datetime as _dt
import logging
import math
import os

from harness import core
from harness.core import Outcome

ID = "C03"
LEAN_TARGETS = ["BeyondVerif.Props.C03", "BeyondVerif.Props.C03b", "BeyondVerif.Props.C03c", "BeyondVerif.Props.C03d", "BeyondVerif.Props.C03e", "BeyondVerif.Witness.C03"]
THEOREMS = [
    "BeyondVerif.C03.coef_table",
    "BeyondVerif.C03.offset_defined",
    "BeyondVerif.C03.offset_antisymm",
    "BeyondVerif.C03.offset_compose",
    "BeyondVerif.C03.offset_TT_TAI",
    "BeyondVerif.C03.offset_TAI_GPS",
    "BeyondVerif.C03.offset_TAI_UTC",
    "BeyondVerif.C03.offset_UT1_UTC",
    "BeyondVerif.C03.offset_TDB_TT",
    "BeyondVerif.C03.tdb_tt_bound",
    "BeyondVerif.C03.leap_table_facts",
    "BeyondVerif.C03.normalise_spec",
    "BeyondVerif.C03.toScale_mk",
    "BeyondVerif.C03.changeScale_instant",
    "BeyondVerif.C03.changeScale_instant_half",
    "BeyondVerif.C03.changeScale_same_instant",
    "BeyondVerif.C03.changeScale_roundtrip",
    "BeyondVerif.C03.drift_zero",
    "BeyondVerif.C03.changeScale_instant_bound",
    "BeyondVerif.C03.changeScale_instant_bound_half",
    "BeyondVerif.C03.records_agree",
    "BeyondVerif.C03.mk_record_of_utc_day",
    "BeyondVerif.C03.changeScale_instant_bound_partial",
    "BeyondVerif.C03.changeScale_eq_hash",
    "BeyondVerif.C03.eop_policy_spec",
    "BeyondVerif.C03.eop_lookup_day",
    "BeyondVerif.C03.tai_utc_lookup_spec",
    "BeyondVerif.C03.tai_utc_at_entry",
    "BeyondVerif.C03.tai_utc_between",
    "BeyondVerif.C03.tai_utc_after_last",
    "BeyondVerif.C03.tai_utc_before_first",
    "BeyondVerif.C03.last_next_spec",
    "BeyondVerif.C03.tai_utc_of_day",
    "BeyondVerif.C03.eop_record_of_day",
    "BeyondVerif.C03.eop_record_spec",
    "BeyondVerif.C03.leap_table_lookup",
    "BeyondVerif.C03.leap_table_is_parsed_file",
    "BeyondVerif.C03.add_clock",
    "BeyondVerif.C03.add_sub",
    "BeyondVerif.C03.add_sub_const_scales",
    "BeyondVerif.C03.add_assoc_clock",
    "BeyondVerif.C03.add_assoc_instant",
    "BeyondVerif.C03.cmp_consistent",
    "BeyondVerif.C03.eq_iff_sub_zero",
    "BeyondVerif.C03.cmp_exact_us",
    "BeyondVerif.C03.label_irrelevant",
    "BeyondVerif.C03.range_make_spec",
    "BeyondVerif.C03.range_iter_is_progression",
    "BeyondVerif.C03.range_len_eq_length_iter",
    "BeyondVerif.C03.range_mem_of_iter",
    "BeyondVerif.C03.range_contains_iff",
    "BeyondVerif.C03.changeScale_decomp",
    "BeyondVerif.C03.tdb_pattern",
    "BeyondVerif.C03.changeScale_drift_tdb",
    "BeyondVerif.C03.changeScale_drift_le_one",
    "BeyondVerif.C03.changeScale_instant_bound_all",
    "BeyondVerif.C03.changeScale_observed_us",
    "BeyondVerif.C03.to_ut1_record",
    "BeyondVerif.C03.to_ut1_step",
    "BeyondVerif.C03.to_ut1_same_day",
    "BeyondVerif.C03.to_ut1_second_reading",
    "BeyondVerif.C03.to_ut1_safe_zone",
    "BeyondVerif.C03.from_ut1_keeps_instant",
    "BeyondVerif.C03.range_iter_terminates",
    "BeyondVerif.C03.range_fuel_irrelevant",
    "BeyondVerif.C03.range_iter_total",
    "BeyondVerif.C03.tdb_lipschitz",
    "BeyondVerif.C03.tdbTicksR_slow",
    "BeyondVerif.C03.changeScale_tdb_formula",
    "BeyondVerif.C03.day_of_double_own",
    "BeyondVerif.C03.day_of_double_utc",
    "BeyondVerif.C03.eopGetR_of_day",
    "BeyondVerif.C03.eopRawR_eq_exact",
    "BeyondVerif.C03.eopForF_record_of_utc_day",
    "BeyondVerif.C03.src_normalise",
    "BeyondVerif.C03.src_toScale",
    "BeyondVerif.C03.src_add",
    "BeyondVerif.C03.src_cmp",
    "BeyondVerif.C03.src_contains",
    "BeyondVerif.C03.src_cond",
    "BeyondVerif.C03.src_len",
    "BeyondVerif.C03.src_range_agree",
    "BeyondVerif.C03W.label_day_keeps_instant",
    "BeyondVerif.C03W.noon_keeps_instant",
    "BeyondVerif.C03W.utc_midnight_band_changes_instant",
    "BeyondVerif.C03W.band_edge_is_sharp",
    "BeyondVerif.C03W.three_roundings_exceed_1us",
    "BeyondVerif.C03W.sub_microsecond_band_differs",
]
LEVEL_TEXT = ("Lean theorems over an exact integer model (ticks of 1e-7 s) of Date / Timescale.offset / EopDb.get / DateRange, instantiated with the scale graph "
              "(execution order), the _scale_*_minus_* method table (AST) and the IERS tables regenerated from /repo on each run; the arithmetic of the Date methods (constructor "
              "normalisation, _convert_to_scale, the divmod and the single constructor call of __add__, the five comparisons, __hash__) and DateRange.__contains__ / __iter__ / __len__ "
              "are translated from the AST on every run (Generated/DateSrc.lean, a dedicated translator that refuses every other shape) and proved equal to the model (src_*). "
              "Offsets defined, antisymmetric and composable for all 36 pairs with the exact constants (decide on coefficient vectors); the constructor and _convert_to_scale keep the instant "
              "(omega); change_scale: exact error budget (changeScale_decomp: three timedelta roundings + the disagreement of the offsets), nothing between UTC/TAI/TT/GPS; for ALL 36 pairs, "
              "TDB included, when both dates carry the same record: at most 1.6 us in the internal (_d,_s) and at most ONE microsecond in what the API observes (date2 - date1, ==, <, hash: "
              "changeScale_observed_us) - the TDB-TT term enters through one difference of its values at two mjd arguments < 200 s apart, <= 1 tick, proved of the translated formula over R "
              "(slope < 2.9e-5 s/day: tdb_lipschitz, tdbTicksR_slow); the record of a date is the one tabulated for its UTC reading; the open finding is quantified: a conversion to UT1 carries the record "
              "found at the constructor's second reading and moves by exactly UT1-UTC(own day) - UT1-UTC(that day) +- 1 us (to_ut1_step), by nothing outside the band around UTC midnight whose width is "
              "that difference (to_ut1_safe_zone; the band is sharp to the microsecond: Witness band_edge_is_sharp), a conversion from UT1 never moves (from_ut1_keeps_instant); the day number from a "
              "double: Model/DateDbl.lean is Date.__init__'s mjd / mjd_utc in exact binary64 arithmetic (fl = round-to-nearest-even on rationals, fl_err: half an ulp), int(mjd) is the exact day "
              "0.4 us away from own midnight, int(mjd_utc) 0.7 us away from UTC midnight, hence outside those bands the code carries the record of the UTC day (eopForF_record_of_utc_day); "
              "d+t moves the clock reading by exactly t in every scale, (d+t)-d=t and associativity in TAI/TT/GPS unconditionally; comparisons/hash are those of the microsecond-exact "
              "`_datetime`, agree with `-` and are functions of the instant; DateRange: every accepted range iterates in at most len+1 evaluations of its condition (range_iter_terminates: no fuel "
              "hypothesis) over exactly len dates start+k*step, all `in` the range, both step signs; |TDB-TT| < 1.7 ms over R. 'As tabulated for that day': for every sorted table and every mjd the "
              "TAI-UTC lookup returns the entry with the greatest date <= mjd, the record is a function of the day number - tied to the real lookups at every entry date exactly and +-1 us, and to the "
              "readers on the text of the files. Exact differential correspondence of the compiled model with the real classes.")
LEVEL_NOTE = ("Python keeps seconds of day in a double: the integer model is tied on microsecond-exact inputs by exact correspondence (1-4 us slack only where UT1's 0.1-us column or "
              "the float TDB term enter); the day decision is additionally modelled in exact binary64 arithmetic and tied EXACTLY on the 0.1-us grid within 2 us of UTC midnight and on the neighbouring "
              "doubles of midnight. 'Same instant within 1 us' holds of the observable difference for all pairs (theorem) but the internal representation moves by up to 1.5 us (three separate roundings; "
              "kernel-checked witness, and 1.49 us measured on the real Date at the ties of the 0.1-us column): a statement about the property's tolerance, not a defect; it is still false by ~1 ms within one day's "
              "change of UT1-UTC of UTC midnight (open finding, now quantified); DateRange is modelled on instants")
TECHNIQUE = "Lean 4 proof (omega / induction / kernel decide on regenerated tables / real analysis for the TDB bound and slope / rational error analysis of binary64 rounding) + exact model-implementation correspondence"
TRUSTED = [
    "harness/props/C03.py extract: Timescale method table and Date constants from the AST, TDB formula through harness/py2lean.py, the Date / DateRange method bodies through the dedicated translator "
    "`date_src` (refuses unknown shapes), IERS tables through an independent fixed-column decimal parser (checked on every run against the Lean column parsers of Model/EopFile.lean fed the text of the "
    "three files and against the real readers TaiUtc / Finals / Finals2000A, every line; against EopDb.get for every day in the thorough tier, at every table abscissa and a sample of days in the quick tier)",
    "harness/extract_graphs.py: the scale graph in execution order (shared with C20)",
    "correspondence: real Date / DateRange / Timescale.offset / EopDb.get / SimpleEopDatabase.tai_utc / .finals / TaiUtc / Finals / Finals2000A vs the compiled Lean model through microsecond observables "
    "(_datetime, datetime, _offset, eop, d/s, -, comparisons, hash, len/iter/in, the readers' data); the record picked by Date(d, s) / Date(mjd) / Date(datetime) vs Model/DateDbl.lean exactly",
    "Model/DateDbl.lean `fl`: IEEE-754 binary64 round-to-nearest-even on exact rationals, normal range (CPython float arithmetic is binary64 with that rounding; float('decimal') and literals are correctly rounded)",
]
ASSUMPTIONS = [
    "Model/Date.lean is exact integer arithmetic (its method bodies proved equal to the translation of the source, Props/C03e.lean); the code computes in doubles. Tied by exact correspondence on "
    "microsecond-exact inputs in 1973-2017 (float error of `_s` about 1e-11 s)",
    "CPython datetime/timedelta microsecond rounding (half to even) is modelled by roundUs; at exact ties of the 0.1-us UT1-UTC column the float value decides in the code (the bounds proved use |rounding| <= 0.5 us only, "
    "so they hold for either direction)",
    "DateRange is modelled on instants: `date += step` is `inst + step` by add_clock when the offset does not change along the range (TAI, TT, GPS always; UTC without leap second); "
    "correspondence runs the real DateRange on Date objects of the four uniform scales",
    "the TDB-TT term enters the integer model as a parameter; `TdbSlow` (<= 1.7 ms, <= 1 tick between arguments < 200 s apart) is proved of the translated formula rounded to ticks over R; that numpy's float "
    "evaluation is within 1e-12 s of it is checked by correspondence, not proved",
    "the exact-binary64 day model leaves out routes through TDB (numpy.sin has no exact model): for TDB dates the day decision within 0.7 us of UTC midnight is tied by the tolerant correspondence only",
]
NOT_COVERED = [
    "'same instant within 1 us when UT1 is involved' is false of the current code when the UTC reading lies within one day's change of UT1-UTC (a few ms) of UTC midnight: UT1-UTC is a step "
    "function of the UTC day (open finding C03-ut1-step-at-utc-midnight; quantified by to_ut1_step / to_ut1_safe_zone; Witness/C03.lean utc_midnight_band_changes_instant, band_edge_is_sharp)",
    "UT1/TDB round trip 'within 2 us' and 'UT1: within one day's change of UT1-UTC': oracle only (one leg is bounded by changeScale_instant_bound_all)",
    "x, y, lod, dx, dy, dpsi, deps columns of the EOP record (used by frames, not by time scales)",
    "the error of the double offset `scale.offset(mjd, 'UTC', eop)` against the exact tick offset (a few 1e-14 s) is not carried through eopForF_record_of_utc_day: the theorem is about the code's own UTC reading "
    "`d + s/86400 + o/86400` with `o` the double",
    "leap-second windows (documented limitation of the library) except the statements that are unambiguous there: a UTC date from 00:00:00.000000 of the day an entry of tai-utc.dat takes effect "
    "carries the new TAI-UTC, up to 23:59:59.999999 of the eve the old one (oracle family leap-day:*); Date.now, strptime, pickling, tz-aware datetimes, Date - datetime",
    "Model/EopFile.lean reads plain decimal literals in fixed columns (what the IERS files contain); exponents, inf/nan, underscores, tabs — which Python's float()/split() also accept — are rejected by the model; "
    "the dX/dY/LOD fall-back of the finals readers to the previous day is not modelled (not time-scale columns)",
    "the linear term of the pre-1972 entries of tai-utc.dat, `(MJD - 37300.) X 0.001296 S`, is ignored by the reader (field 6 only) and so by the model: TAI-UTC before 1972 is the constant term (outside the "
    "property's 1973-2017 anyway)",
]
OPEN = [
    "changeScale_instant_bound_partial stays as the internal-representation statement (1.5 us + drift); the property's 'within one microsecond' is proved of the observable difference (changeScale_observed_us) and "
    "refuted for the internal (_d,_s) (Witness three_roundings_exceed_1us: 1.2 us in exact arithmetic; 1.49 us measured on the real Date) - judged a matter of the property's tolerance",
    "the hypothesis 'both dates carry the same EOP record' is discharged by to_ut1_safe_zone only for UTC sources; for TAI/TT/GPS sources mk_record_of_utc_day + records_agree give it case by case",
]
RULE = ("correspondence: per scale / ordered pair random clock readings 1973-2017 (one third within 75 s of midnight, 12 % around leap seconds), constructors incl. seconds outside [0,86400) "
        "and dates outside the tables under the three policies, change_scale on all 36 pairs, +/- timedelta, compare/hash/difference of close instants, Timescale.offset with random EOP values, "
        "TDB formula, EopDb.get per day (every day in thorough), DateRange with both step signs / inclusive / incoherent / null plus a deterministic grid of range boundaries (exact multiples, +-1 us, whole-day and "
        "sub-second remainders, steps > 1 day); the lookups tai_utc / finals / EopDb.get AT the tables' abscissae in every tier: each of the 41 entries of tai-utc.dat exactly, +-1 us, +-1 s, +-12 h, the day before "
        "the first entry, first/last day of the finals files and their neighbours, holes, 150-200 random day boundaries (all in thorough); Date constructors / change_scale / + at every leap-second day of the finals "
        "range exactly at 00:00:00 UTC, +-1 us, +-1 s (UTC) and +-5 us, +-1 s (other scales), Date(int mjd); the readers on every line of the three files and on perturbed copies; the day decision: Date(d, s) / Date(mjd) / "
        "Date(datetime) in UTC, TAI, TT, GPS, UT1 with the UTC reading on the 0.1-us grid within 2 us of UTC midnight, +-2 ulps of the double at midnight, negative seconds, seconds = 86400, vs the exact binary64 model (exactly), "
        "and binary64 model vs exact-day model (may differ only within 0.7 us); distinct = distinct request line. "
        "oracle: the property's predicates on the real API with the IERS tables of tests/data/pole; tolerances 0 (uniform), 1 us (instant, UT1/TDB), 2 us (clock readings, UT1/TDB offsets), 1.5 us + 4e-8 s on the internal (_d,_s); "
        "change_scale also from clock readings that are not whole microseconds (Date(d, s)); every constructor form against the datetime form; dates DERIVED by +, -, two additions, DateRange steps from operands in the band "
        "after own-scale midnight (own day != UTC day), on every leap-second day and random days, sums staying in / leaving the own-scale day, and the mirror: EOP record, offset, ==, hash, UTC/UT1/TAI readings equal to those of "
        "the directly constructed date, record = the IERS columns of its UTC day, TAI-UTC off the clocks, (d+t)-d=t")
SCALES = ["UT1", "GPS", "TDB", "UTC", "TAI", "TT"]
UNIFORM = ("UTC", "TAI", "TT", "GPS")
T0 = _dt.datetime(1858, 11, 17)
US = _dt.timedelta(microseconds=1)
DAY_US = 86400 * 10**6
TICK = 10          # model ticks (1e-7 s) per microsecond
DAY_T = DAY_US * TICK


def pole_dir():
    return os.path.join(core.REPO, "tests", "data", "pole")


# ---------------------------------------------------------------- independent reading of the IERS files

_tables = {}


def tables():
    """(leap, ut1, first, last): leap = [(mjd, ticks)], ut1 = {mjd: ticks}; read by an independent fixed-column
    parser (decimal strings -> integers of 1e-7 s, no float), stopping like the real reader at the first line
    without x / y / UT1-UTC"""
    key = pole_dir()
    if key in _tables:
        return _tables[key]
    leap = []
    for line in open(os.path.join(key, "tai-utc.dat"), encoding="ascii").read().splitlines():
        if not line.strip():
            continue
        f = line.split()
        leap.append((int(dec_to_int(f[4], 1) - 24000005) // 10, dec_to_int(f[6], 7)))
    cols = {}
    for fn in ("finals.all", "finals2000A.all"):
        cols[fn] = {}
        for line in open(os.path.join(key, fn), encoding="ascii").read().splitlines():
            line = line.rstrip()
            try:
                mjd = dec_to_int(line[7:15], 2) // 100
                float(line[18:27]); float(line[37:46])
                cols[fn][mjd] = dec_to_int(line[58:68], 7)
            except ValueError:
                break
    # SimpleEopDatabase: the days of finals.<type>, each record updated with (overridden by) finals2000A.<type>
    if not set(cols["finals.all"]) <= set(cols["finals2000A.all"]):
        raise RuntimeError("finals2000A lacks days of finals: the real database cannot be instantiated")
    ut1 = {d: cols["finals2000A.all"][d] for d in cols["finals.all"]}
    _tables[key] = (leap, ut1, min(ut1), max(ut1))
    return _tables[key]


def dec_to_int(txt, places):
    """decimal literal -> integer number of 10**-places (exact; ValueError when not a plain decimal)"""
    t = txt.strip()
    if not t:
        raise ValueError("empty")
    sign = -1 if t[0] == "-" else 1
    if t[0] in "+-":
        t = t[1:]
    ip, _, fp = t.partition(".")
    if not (ip + fp).isdigit():
        raise ValueError(txt)
    if len(fp) > places and set(fp[places:]) - {"0"}:
        raise ValueError("too many decimals: " + txt)
    fp = (fp + "0" * places)[:places]
    return sign * (int(ip or "0") * 10**places + int(fp or "0"))


def leap_at(day):
    """TAI-UTC in ticks for a UTC day number (independent table)"""
    v = None
    for mjd, val in tables()[0]:
        if mjd <= day:
            v = val
    return v


def leap_days():
    return [m for m, _ in tables()[0] if m >= 41317]


def table_abscissae(rng=None, all_days=False, n_days=150):
    """tick numerators (mjd * D) AT the tables' own abscissae — the places where a lookup changes its answer:
    every entry of tai-utc.dat exactly at 00:00:00, one microsecond (10 ticks) and one tick-of-the-double (1 tick is below the
    resolution of a float mjd, so 10 ticks) before and after, half a day before/after; the first and last entry, the day
    before the first entry; the first / last day of the finals files and their neighbours; the day boundaries of the
    finals files (all of them when `all_days`, else a random sample plus every leap-second day).
    Returned as a sorted list of distinct integers; whole days are `num % DAY_T == 0`."""
    leap, ut1, first, last = tables()
    days = {m for m, _ in leap}
    days |= {leap[0][0] - 1, leap[0][0] + 1, leap[-1][0] + 1, leap[-1][0] + 400}
    days |= {first - 1, first, first + 1, first + 2, last - 1, last, last + 1, last + 2}
    holes = [d for d in range(first, last + 1) if d not in ut1]
    days |= set(holes[:5]) | {d + 1 for d in holes[:5]}
    if all_days:
        days |= set(range(first - 2, last + 3))
    elif rng is not None:
        days |= {rng.randint(first, last) for _ in range(n_days)}
    nums = set()
    for d in days:
        for off in (-DAY_T // 2, -10**7, -10, 0, 10, 10**7, DAY_T // 2):
            nums.add(d * DAY_T + off)
    return sorted(nums)


def leap_before(day):
    """the table entry in force on `day` as (entry mjd, ticks), None before the first entry"""
    e = None
    for mjd, val in tables()[0]:
        if mjd <= day:
            e = (mjd, val)
    return e


def setup(policy="pass"):
    from beyond.config import config
    config.update({"eop": {"folder": pole_dir(), "type": "all", "missing_policy": policy}})
    log = logging.getLogger("beyond.dates.eop")
    if not any(isinstance(h, logging.NullHandler) for h in log.handlers):
        log.addHandler(logging.NullHandler())
    log.propagate = False


def set_policy(policy):
    from beyond.config import config
    config["eop"]["missing_policy"] = policy


# ---------------------------------------------------------------- helpers on real dates

def us_of(dt):
    """datetime -> integer microseconds since the MJD origin"""
    d = dt - T0
    return (d.days * 86400 + d.seconds) * 10**6 + d.microseconds


def td_us(td):
    return (td.days * 86400 + td.seconds) * 10**6 + td.microseconds


def dt_of(us):
    return T0 + _dt.timedelta(microseconds=us)


# label clock minus UTC clock, microseconds, good to 1 s (only used to place instants relative to leap seconds)
def approx_minus_utc(scale, day):
    tai = (leap_at(day) or 0) // TICK
    return {"UTC": 0, "UT1": 0, "TAI": tai, "TT": tai + 32184000, "TDB": tai + 32184000, "GPS": tai - 19000000}[scale]


def in_leap_window(scale, us, margin_s=120):
    """True when the instant is within the documented 2-minute window around a leap second"""
    day = us // DAY_US
    utc = us - approx_minus_utc(scale, day)
    for ld in leap_days():
        if abs(utc - ld * DAY_US) <= (margin_s + 2) * 10**6:
            return True
    return False


def gen_label(rng, scale, lo=None, hi=None):
    """random clock reading (integer microseconds since MJD origin) inside the IERS tables, outside leap windows;
    one third close to a day boundary (where the day-indexed lookup changes)"""
    _, _, first, last = tables()
    lo = first + 2 if lo is None else lo
    hi = last - 2 if hi is None else hi
    while True:
        day = rng.randint(lo, hi)
        r = rng.random()
        if r < 0.15:
            s = rng.randint(0, 75 * 10**6)
        elif r < 0.30:
            s = DAY_US - 1 - rng.randint(0, 75 * 10**6)
        elif r < 0.36:
            s = rng.choice([0, 1, DAY_US - 1, DAY_US // 2, 10**6, DAY_US - 10**6])
        else:
            s = rng.randrange(DAY_US)
        us = day * DAY_US + s
        if not in_leap_window(scale, us):
            return us


def gen_td(rng):
    """random timedelta as integer microseconds (mixed magnitudes, both signs)"""
    r = rng.random()
    if r < 0.1:
        v = rng.choice([0, 1, -1, 10**6, -10**6, DAY_US, -DAY_US, DAY_US - 1, 1 - DAY_US])
    elif r < 0.4:
        v = rng.randint(-10**7, 10**7)
    elif r < 0.7:
        v = rng.randint(-3 * DAY_US, 3 * DAY_US)
    else:
        v = rng.randint(-400 * DAY_US, 400 * DAY_US)
    return v


def mkdate(us, scale):
    from beyond.dates import Date
    return Date(dt_of(us), scale=scale)


def no_leap_between(scale, us1, us2, margin_s=120):
    lo, hi = min(us1, us2), max(us1, us2)
    for ld in leap_days():
        a = ld * DAY_US
        if lo - (margin_s + 100) * 10**6 <= a <= hi + (margin_s + 100) * 10**6:
            return False
    return True


def tdb_minus_tt_ref(mjd):
    """the periodic term, written independently from the documented formula (Vallado 3-53 as used by beyond)"""
    jd = mjd + 2400000.5
    jj = (jd - 2451545.0) / 36525.0
    m = math.radians(357.5277233 + 35999.05034 * jj)
    dl = math.radians(246.11 + 0.90251792 * (jd - 2451545.0))
    return 0.001657 * math.sin(m) + 0.000022 * math.sin(dl)


def utc_day_of(date):
    """UTC day number of a real Date, through its TAI reference and the independent leap table"""
    tai_us = us_of(date._datetime)
    day = tai_us // DAY_US
    for _ in range(2):
        utc = tai_us - (leap_at(day) or 0) // TICK
        day = utc // DAY_US
    return day


# ---------------------------------------------------------------- oracle

def family_scale_pair(a, b, sa, sb, err_us=0):
    """family of a same-instant / offset / round-trip failure, computed from the failing input itself.
    * `ut1-step-at-utc-midnight` (open finding): UT1 involved, the UTC reading of the instant lies within one day's
      change of UT1-UTC of UTC midnight, and the error is no larger than that change;
    * `eop-record-by-label-day:UT1` (fixed by fc514f7; reported as a violation if it returns): UT1 involved, the day
      number of one of the two clock readings differs from the UTC day, outside that band, error <= one day's change;
    * otherwise the scale pair class."""
    inv = {sa, sb} & {"UT1", "TDB"}
    ud = utc_day_of(a)
    label_days = {int(a.mjd), int(b.mjd)}
    ut1 = tables()[1]
    if "UT1" in {sa, sb} and all(ud + k in ut1 for k in (-2, -1, 0, 1, 2)):
        day_change = max(abs(ut1[ud + k + 1] - ut1[ud + k]) for k in (-2, -1, 0, 1)) // TICK + 3
        utc_us = us_of(a._datetime) - (leap_at(ud) or 0) // TICK
        tod = utc_us % DAY_US
        if abs(err_us) <= day_change and min(tod, DAY_US - tod) <= day_change + 2:
            return "ut1-step-at-utc-midnight"
        if abs(err_us) <= day_change and label_days != {ud}:
            return "eop-record-by-label-day:UT1"
    if label_days != {ud} and a.eop.tai_utc != b.eop.tai_utc:
        return "eop-record-by-label-day:leap"
    return f"scale-pair:{'+'.join(sorted(inv)) or 'uniform'}"


def float_last_bit(a, b):
    """the two dates are the same microsecond (a - b == 0) and their float `_mjd` are adjacent doubles"""
    return td_us(a - b) == 0 and a._mjd != b._mjd and abs(a._mjd - b._mjd) <= 2 * math.ulp(a._mjd)


# inputs on which the same instant compared unequal before fix d8c716a (found by the correspondence run; kept so that
# the defect is exercised on every run, whatever the seed, and reported as a violation if it returns)
PINNED_EQ = [("TT", "GPS", 4853951976994573), ("GPS", "TT", 4661881960568707)]


# inputs of Witness/C03.lean label_day_keeps_instant (before fix fc514f7: label_day_changes_instant), replayed on the real Date
PINNED_EOP = [("TAI", "UT1", 4932144010000000), ("TT", "UT1", 4932144050000000), ("UT1", "TAI", 4932143999900000)]
# the input of the counter-witness utc_midnight_band_changes_instant (open finding ut1-step-at-utc-midnight)
PINNED_BAND = [("UTC", "UT1", 4932144000000000)]


def check_pair(out, rng, sa, sb, us):
    a = mkdate(us, sa)
    b = a.change_scale(sb)
    inp = {"scale": sa, "to": sb, "clock_us": us, "clock": str(dt_of(us))}
    uniform = sa in UNIFORM and sb in UNIFORM
    near = min(us % DAY_US, DAY_US - us % DAY_US) < 80 * 10**6
    out.count(key=(sa, sb, us), kind="pair", pair=f"{sa}>{sb}", near_midnight=near)
    diff = td_us(b - a)
    if b.scale.name != sb:
        out.fail("change-scale-label", "change_scale result carries the wrong scale", inp, observed=b.scale.name, expected=sb)
    # one instant
    if uniform:
        flags = (a == b, hash(a) == hash(b), diff == 0, a <= b, a >= b, not (a < b), not (a > b))
        if not all(flags) and float_last_bit(a, b):
            out.fail("eq-float-last-bit", "same instant in two uniform scales (difference 0 us) does not compare equal: `_mjd` differs in its last bit", inp,
                     observed=[bool(x) for x in flags] + [repr(a._mjd), repr(b._mjd)], expected="all True")
        elif not all(flags):
            out.fail(family_scale_pair(a, b, sa, sb), "converted date is not the same instant (==, hash, -, <=, >=, <, >)", inp,
                     observed=[bool(x) for x in flags] + [diff], expected="all True, 0 us")
    elif abs(diff) > 1:
        out.fail(family_scale_pair(a, b, sa, sb, diff), "converted date differs from the original instant by more than 1 us", inp,
                 observed=f"{diff} us", expected="<= 1 us")
    check_internal(out, a, b, sa, sb, inp, diff)
    # back to the same clock reading
    c = b.change_scale(sa)
    back = td_us(c.datetime - a.datetime)
    tol = 2
    if "UT1" in (sa, sb):
        ud = utc_day_of(a)
        ut1 = tables()[1]
        tol = 2 + max(abs(ut1[ud + k + 1] - ut1[ud + k]) for k in (-2, -1, 0, 1)) // TICK + 1
    if abs(back) > tol:
        out.fail(family_scale_pair(a, b, sa, sb, back), "there-and-back conversion changes the clock reading", inp, observed=f"{back} us", expected=f"<= {tol} us")
    # offsets
    off = td_us(b.datetime - a.datetime)     # clock(sb) - clock(sa), microseconds
    exp, tol = expected_offset(a, sa, sb)
    if exp is not None and abs(off * TICK - exp) > tol:
        out.fail(family_scale_pair(a, b, sa, sb, (off * TICK - exp) // TICK), f"{sb}-{sa} is not the tabulated/defined offset", inp, observed=f"{off} us",
                 expected=f"{exp / TICK} us +- {tol / TICK}")
    if {sa, sb} == {"TDB", "TT"} and abs(off) >= 1700:
        out.fail("tdb-tt-bound", "|TDB-TT| >= 1.7 ms", inp, observed=off)


INTERNAL_TOL = 1.5e-6 + 4e-8      # three roundings of half a microsecond + the TDB term over ~70 s (2.4e-8 s) + float noise of `_s`


def check_internal(out, a, b, sa, sb, inp, diff):
    """the internal instant `(_d, _s)` — finer than a microsecond — moves by at most the three `timedelta` roundings of
    `change_scale` (Props/C03b.lean changeScale_instant_bound_all: 1.6 us; exactly 0 between uniform scales from a whole-microsecond
    reading).  Only where the whole-microsecond difference is within the property's limit (larger shifts are reported there)"""
    if abs(diff) > 1:
        return
    sh = (b._d - a._d) * 86400.0 + (b._s - a._s)
    lim = INTERNAL_TOL
    if abs(sh) > lim:
        out.fail(f"instant-internal:{'+'.join(sorted({sa, sb} & {'UT1', 'TDB'})) or 'uniform'}", "the internal instant (_d, _s) of the converted date differs from the original by more than the three roundings of change_scale allow",
                 inp, observed=f"{sh * 1e6:.4f} us", expected=f"<= {lim * 1e6:.3f} us")


def check_pair_float(out, rng, sa, sb, day, sec):
    """the constructor form `Date(d, s)` with a clock reading that is NOT a whole number of microseconds, converted to another
    scale: same instant within 1 us as `-` measures it (exactly, with ==, hash, between uniform scales), within 1.5 us internally"""
    from beyond.dates import Date
    a = Date(day, sec, scale=sa)
    b = a.change_scale(sb)
    inp = {"pair_float": [sa, sb], "day": day, "seconds": repr(sec)}
    out.count(key=("pairf", sa, sb, day, sec), kind="pair-float-seconds", pair=f"{sa}>{sb}")
    diff = td_us(b - a)
    uniform = sa in UNIFORM and sb in UNIFORM
    if uniform:
        flags = (a == b, hash(a) == hash(b), diff == 0, a <= b, a >= b, not (a < b), not (a > b))
        if not all(flags):
            out.fail(family_scale_pair(a, b, sa, sb), "converted date (from a sub-microsecond clock reading) is not the same instant (==, hash, -, <=, >=, <, >)", inp,
                     observed=[bool(x) for x in flags] + [diff], expected="all True, 0 us")
            return
    elif abs(diff) > 1:
        out.fail(family_scale_pair(a, b, sa, sb, diff), "converted date (from a sub-microsecond clock reading) differs from the original instant by more than 1 us", inp,
                 observed=f"{diff} us", expected="<= 1 us")
        return
    check_internal(out, a, b, sa, sb, inp, diff)
    # the seconds of day read back are the ones given (to the float noise of `(_s - _offset) % 86400`)
    if a.d != day or abs(a.s - sec) > 1e-9:
        out.fail(f"ctor-day-seconds-readback:{sa}", "Date(d, s).d / .s are not the values given", inp, observed=(a.d, a.s), expected=(day, sec))


def gen_day_sec(rng, scale):
    us = gen_label(rng, scale)
    return us // DAY_US, (us % DAY_US) / 1e6 + rng.choice([rng.uniform(0, 1e-6), rng.choice([0.5e-6, 0.25e-6, 0.49999e-6, 0.50001e-6, 1e-7])])


def expected_offset(a, sa, sb):
    """clock(sb) - clock(sa) in ticks for the instant of `a`, from the independent tables, and its tolerance (ticks)"""
    ud = utc_day_of(a)
    leap, ut1, first, last = tables()
    if not (first <= ud <= last):
        return None, None
    mjd_tt = (us_of(a._datetime) + 32184000) / DAY_US
    rel = {"UTC": 0, "TAI": leap_at(ud), "TT": leap_at(ud) + 321840000, "GPS": leap_at(ud) - 190000000, "UT1": ut1[ud],
           "TDB": leap_at(ud) + 321840000 + round(tdb_minus_tt_ref(mjd_tt) * 1e7)}
    # a clock reading is a whole number of microseconds; UT1-UTC has 0.1 us resolution and TDB-TT is irrational:
    # 2 us is the resolution the property grants to a clock reading
    tol = 20 if {sa, sb} & {"UT1", "TDB"} else 0
    return rel[sb] - rel[sa], tol


def check_arith(out, rng, scale, us, ts=None):
    from beyond.dates import timedelta
    d = mkdate(us, scale)
    t1, t2 = ts if ts is not None else (gen_td(rng), gen_td(rng))
    e = d + timedelta(microseconds=t1)
    inp = {"scale": scale, "clock_us": us, "t1_us": t1, "t2_us": t2}
    out.count(key=("arith", scale, us, t1), kind="arith", scale=scale, sign=(t1 > 0) - (t1 < 0))
    _, _, first, last = tables()
    lo = min(us, us + t1, us + t1 + t2, us + t2) // DAY_US
    hi = max(us, us + t1, us + t1 + t2, us + t2) // DAY_US
    if lo < first + 1 or hi > last - 1:
        return
    clean = scale != "UTC" or no_leap_between(scale, min(us, us + t1, us + t1 + t2), max(us, us + t1, us + t1 + t2))
    if scale in ("UT1", "TDB"):
        return
    if any(in_leap_window(scale, x) for x in (us + t1, us + t1 + t2, us + t2)):
        return
    if clean:
        got = td_us(e - d)
        if got != t1:
            out.fail(f"add-sub:{scale}", "(d+t)-d != t", inp, observed=got, expected=t1)
        back = e - timedelta(microseconds=t1)
        if td_us(back - d) != 0 or td_us(back.datetime - d.datetime) != 0:
            out.fail(f"add-then-sub:{scale}", "(d+t)-t is not d", inp, observed=str(back), expected=str(d))
        x = d + (timedelta(microseconds=t1) + timedelta(microseconds=t2))
        y = e + timedelta(microseconds=t2)
        if abs(td_us(x - y)) > 1 or abs(td_us(x.datetime - y.datetime)) > 1:
            out.fail(f"add-assoc:{scale}", "d+(t1+t2) != (d+t1)+t2", inp, observed=str(x), expected=str(y))
        if td_us(e.datetime - d.datetime) != t1:
            out.fail(f"add-clock:{scale}", "clock reading of d+t is not clock(d)+t", inp, observed=str(e), expected=str(dt_of(us + t1)))
        if e.scale.name != scale:
            out.fail("add-label", "d+t changes the scale", inp, observed=e.scale.name)


def check_order(out, rng, sa, sb, us, delta=None):
    from beyond.dates import timedelta
    a = mkdate(us, sa)
    if delta is None:
        delta = rng.choice([0, 0, 1, -1, 2, -2, 10**6, -10**6, rng.randint(-10**9, 10**9)])
    if in_leap_window(sa, us + delta):
        return
    b0 = a + timedelta(microseconds=delta)
    b = b0.change_scale(sb)
    inp = {"scale_a": sa, "scale_b": sb, "clock_us": us, "delta_us": delta}
    out.count(key=("order", sa, sb, us, delta), kind="order", delta=("0" if delta == 0 else "+" if delta > 0 else "-"))
    if td_us(b - b0) != 0:
        return   # not the same instant: reported by check_pair
    exact = sa in UNIFORM and sb in UNIFORM
    if not exact and abs(delta) < 5:
        # UT1 / TDB readings carry fractions of a microsecond: only the mutual consistency of the operators is required
        tri = (a < b) + (a == b) + (a > b)
        if tri != 1 or (a <= b) != ((a < b) or (a == b)) or (a >= b) != ((a > b) or (a == b)):
            out.fail("ordering-trichotomy", "<, ==, > are not mutually exclusive / exhaustive", inp, observed=(a < b, a == b, a > b))
        if (a == b) and (hash(a) != hash(b) or len({a, b}) != 1):
            out.fail("eq-hash", "equal dates hash differently", inp)
        return
    sign = (delta > 0) - (delta < 0)
    if sign == 0 and not (a == b) and float_last_bit(a, b):
        out.fail("eq-float-last-bit", "same instant in two uniform scales (difference 0 us) does not compare equal: `_mjd` differs in its last bit", inp,
                 observed=[repr(a._mjd), repr(b._mjd)])
        return
    got = (a < b, a <= b, a == b, a >= b, a > b, a != b if hasattr(a, "__ne__") else None)
    exp = (sign > 0, sign >= 0, sign == 0, sign <= 0, sign < 0, sign != 0)
    if tuple(got[:5]) != exp[:5]:
        out.fail(f"ordering:{'uniform' if sa in UNIFORM and sb in UNIFORM else 'nonuniform'}", "comparison operators disagree with the order of the instants", inp, observed=got, expected=exp)
    if (a == b) and hash(a) != hash(b):
        out.fail("eq-hash", "equal dates hash differently", inp, observed=(hash(a), hash(b)))
    if (a == b) != (b == a) or (a < b) != (b > a) or (a <= b) != (b >= a):
        out.fail("ordering-symmetry", "a<b / b>a disagree", inp)
    if (a == b) and len({a, b}) != 1:
        out.fail("eq-hash-set", "two equal dates are two members of a set", inp)


def check_range(out, rng, scale, us, replay=None):
    from beyond.dates import Date, timedelta
    if replay is None:
        step = rng.choice([1, -1]) * rng.choice([1, 10**6, 60 * 10**6, rng.randint(1, 10**7), rng.randint(1, 10**10)])
        r = rng.random()
        if r < 0.35:
            n = rng.randint(0, 40)
            dur = n * step
        elif r < 0.45:
            dur = 0
        else:
            dur = int(step * rng.uniform(0, 40))
        if rng.random() < 0.12:
            dur = -dur if dur else -step   # incoherent
        inclusive = rng.random() < 0.5
        stop_as_td = rng.random() < 0.5
    else:
        step, dur, inclusive, stop_as_td = replay
    inp = {"scale": scale, "clock_us": us, "step_us": step, "dur_us": dur, "inclusive": inclusive, "stop_as_timedelta": stop_as_td}
    if in_leap_window(scale, us + dur) or not no_leap_between(scale, us, us + dur + step):
        return
    start = mkdate(us, scale)
    stop = timedelta(microseconds=dur) if stop_as_td else mkdate(us + dur, scale)
    coherent = (dur >= 0) == (step >= 0)
    out.count(key=("range", scale, us, step, dur, inclusive), kind="range", step=("+" if step > 0 else "-"), inclusive=inclusive,
              divides=(dur % step == 0), coherent=coherent)
    try:
        rg = Date.range(start, stop, timedelta(microseconds=step), inclusive=inclusive)
    except ValueError:
        if coherent:
            out.fail("range-rejects-valid", "coherent range rejected", inp, observed="ValueError")
        return
    if not coherent:
        out.fail("range-accepts-incoherent", "start/stop order not coherent with step accepted", inp)
        return
    items = list(rg)
    q, rem = divmod(dur, step)
    n_exp = q + (1 if (rem != 0 or inclusive) else 0)
    if len(rg) != len(items):
        out.fail(f"range-len:{'neg' if step < 0 else 'pos'}:{'incl' if inclusive else 'excl'}", "len(range) != number of yielded dates", inp, observed=len(rg), expected=len(items))
    if len(items) != n_exp:
        out.fail(f"range-count:{'neg' if step < 0 else 'pos'}:{'incl' if inclusive else 'excl'}", "number of yielded dates is not that of the arithmetic progression", inp, observed=len(items), expected=n_exp)
    for k, x in enumerate(items):
        if td_us(x - start) != k * step:
            out.fail(f"range-progression:{'neg' if step < 0 else 'pos'}", "k-th yielded date is not start + k*step", dict(inp, k=k), observed=td_us(x - start), expected=k * step)
            break
    for k, x in enumerate(items):
        if x not in rg:
            out.fail(f"range-contains-yielded:{'neg' if step < 0 else 'pos'}:{'incl' if inclusive else 'excl'}", "a yielded date is not `in` the range", dict(inp, k=k), observed=False, expected=True)
            break
    stopd = rg.stop
    for x in items:
        beyond = (x > stopd) if step > 0 else (x < stopd)
        if beyond or (not inclusive and x == stopd):
            out.fail("range-beyond-stop", "a yielded date lies beyond stop", inp, observed=str(x))
            break
    # membership of probes
    for probe in (us - 1, us, us + dur, us + dur + (1 if step > 0 else -1), us + dur // 2):
        p = mkdate(probe, scale)
        lo, hi = min(us, us + dur), max(us, us + dur)
        if step > 0:
            exp = lo <= probe and (probe <= hi if inclusive else probe < hi)
        else:
            exp = probe <= hi and (probe >= lo if inclusive else probe > lo)
        if (p in rg) != exp:
            out.fail(f"range-membership:{'neg' if step < 0 else 'pos'}:{'incl' if inclusive else 'excl'}", "membership disagrees with the interval", dict(inp, probe_us=probe), observed=(p in rg), expected=exp)
            break


# ---------------------------------------------------------------- dates derived by arithmetic carry the record of their own instant

DERIVED_VIAS = ("add", "sub", "chain", "range")


def own_midnight_band(scale, us):
    """the clock reading `us` in `scale` lies on another UTC day than its own day number says (the first TAI-UTC / +32.184 /
    -19 s after own-scale midnight for TAI / TT / GPS, |UT1-UTC| for UT1): where a record chosen by own-scale day is wrong"""
    day = us // DAY_US
    utc = us - approx_minus_utc(scale, day)
    if scale in ("UT1",):
        u = tables()[1].get(day)
        utc = us - (u or 0) // TICK
    return utc // DAY_US != day


def derive(a, via, t, k=3):
    """the date `t` microseconds after `a`, obtained by arithmetic on `a` (never by the constructor on a clock reading)"""
    from beyond.dates import Date, timedelta
    if via == "add":
        return a + timedelta(microseconds=t)
    if via == "sub":
        return a - timedelta(microseconds=-t)
    if via == "chain":
        t1 = t // 3
        return (a + timedelta(microseconds=t1)) + timedelta(microseconds=t - t1)
    if via == "range":
        # the k-th date yielded by a DateRange of step t / k (t a multiple of k)
        step = t // k
        rg = Date.range(a, timedelta(microseconds=step * (k + 1)), timedelta(microseconds=step))
        for i, x in enumerate(rg):
            if i == k:
                return x
        raise RuntimeError("range too short")
    raise ValueError(via)


def check_derived(out, scale, us, t, via):
    """a date obtained from `Date(us, scale)` by `+` / `-` / two additions / DateRange steps is, in every observable, the date
    constructed directly at the clock reading `us + t`: same instant (==, hash, -), same EOP record and offset, same UTC and
    UT1 readings; and (outside leap windows) its record is the one the IERS files tabulate for the UTC day of that instant,
    TAI-UTC read off the clocks is that column, and (d+t)-d = t"""
    if via == "range":
        t -= t % 3
        if t == 0:
            t = 3
    a = mkdate(us, scale)
    band_a, band_r = own_midnight_band(scale, us), own_midnight_band(scale, us + t)
    where = "operand-in-own-midnight-band" if band_a else "result-in-own-midnight-band" if band_r else "plain"
    same_day = us // DAY_US == (us + t) // DAY_US
    inp = {"derived_scale": scale, "clock_us": us, "t_us": t, "via": via, "clock": str(dt_of(us)), "where": where, "same_own_day": same_day}
    out.count(key=("derived", scale, us, t, via), kind="derived", via=via, scale=scale, where=where, same_own_day=same_day)
    r = derive(a, via, t)
    direct = mkdate(us + t, scale)
    fam = f"derived-date:{{}}:{scale}:{where}"
    uniform = scale in UNIFORM
    rec = lambda x: (round(x.eop.tai_utc * 1e7), round(x.eop.ut1_utc * 1e7))   # noqa: E731
    if rec(r) != rec(direct) or vars(r.eop) != vars(direct.eop):
        out.fail(fam.format("record"), "a date obtained by arithmetic does not carry the EOP record of the date constructed directly at the same clock reading", inp,
                 observed={"tai_utc": r.eop.tai_utc, "ut1_utc": r.eop.ut1_utc}, expected={"tai_utc": direct.eop.tai_utc, "ut1_utc": direct.eop.ut1_utc})
        return
    if abs(r._offset - direct._offset) > 1e-9:
        out.fail(fam.format("offset"), "a date obtained by arithmetic does not carry the offset to TAI of the date constructed directly at the same clock reading", inp,
                 observed=r._offset, expected=direct._offset)
        return
    di = td_us(r - direct)
    flags = (r == direct, hash(r) == hash(direct), di == 0, len({r, direct}) == 1, r.scale.name == scale)
    if uniform and not all(flags) or abs(di) > 1:
        out.fail(fam.format("instant"), "a date obtained by arithmetic is not the instant of the date constructed directly at the same clock reading (==, hash, -, set, scale)", inp,
                 observed=[bool(x) for x in flags] + [di], expected="all True, 0 us")
        return
    for sb in ("UTC", "UT1", "TAI"):
        x, y = r.change_scale(sb), direct.change_scale(sb)
        dd = td_us(x.datetime - y.datetime)
        if abs(dd) > (0 if uniform and sb != "UT1" else 2) or rec(x) != rec(y):
            out.fail(fam.format("reading-" + sb), f"the {sb} reading of a date obtained by arithmetic differs from that of the date constructed directly at the same clock reading", inp,
                     observed=[str(x.datetime), rec(x)], expected=[str(y.datetime), rec(y)])
            return
    # against the IERS columns read independently
    _, ut1, first, last = tables()
    if in_leap_window(scale, us + t) or in_leap_window(scale, us) or not (first + 1 <= (us + t) // DAY_US <= last - 1):
        return
    ud = utc_day_of(r)
    utc_tod = (us_of(r._datetime) - (leap_at(ud) or 0) // TICK) % DAY_US
    if min(utc_tod, DAY_US - utc_tod) <= 3 or ud not in ut1:
        return      # the day number comes from a double within 3 us of UTC midnight
    if rec(r) != (leap_at(ud), ut1[ud]):
        out.fail(fam.format("tabulated"), "the EOP record of a date obtained by arithmetic is not the one tabulated for its UTC day", inp,
                 observed=rec(r), expected=(leap_at(ud), ut1[ud]))
        return
    if uniform:
        tu = td_us(r.change_scale("TAI").datetime - r.change_scale("UTC").datetime) * TICK
        if tu != leap_at(ud):
            out.fail(fam.format("tai-utc"), "TAI-UTC read off the clocks of a date obtained by arithmetic is not the tabulated value of its UTC day", inp, observed=tu, expected=leap_at(ud))
            return
        if scale != "UTC" or no_leap_between(scale, min(us, us + t), max(us, us + t)):
            if td_us(r - a) != t:
                out.fail(fam.format("add-sub"), "(d+t)-d != t", inp, observed=td_us(r - a), expected=t)


def gen_derived(rng, big):
    """(scale, clock us, t us, via): operands in the band after (UT1 with UT1-UTC < 0: before) own-scale midnight where the own
    day number is not the UTC day, sums that stay in the same own-scale day (fast paths) or leave it; the mirror (operand later
    in the day, result in the band); every leap-second day of the finals range and random days; all six scales (UTC as control)"""
    _, ut1, first, last = tables()
    lds = [d for d in leap_days() if first + 3 <= d <= last - 3]
    days = lds + [rng.randint(first + 3, last - 3) for _ in range(60 if big else 12)]
    for day in days:
        for scale in SCALES:
            off = approx_minus_utc(scale, day)
            if scale == "UT1":
                off = (ut1.get(day) or 0) // TICK
            lo, hi = (0, max(off, 1)) if off >= 0 else (DAY_US + off, DAY_US)
            tods = [rng.randrange(lo, hi), lo if off >= 0 else hi - 1, (lo + hi) // 2]
            if big:
                tods += [rng.randrange(lo, hi) for _ in range(3)]
            for tod in tods:
                us = day * DAY_US + tod
                room = DAY_US - 1 - tod if off >= 0 else -tod          # largest move that stays in the own-scale day, away from the band
                if room == 0:
                    continue
                stay = [rng.randint(1, room) if room > 0 else rng.randint(room, -1) for _ in range(2)] + [(3600 * 10**6 if room > 0 else -3600 * 10**6)]
                leave = [(-1 if off >= 0 else 1) * rng.randint(abs(tod if off >= 0 else DAY_US - tod) + 1, 2 * DAY_US), rng.choice([DAY_US, -DAY_US])]
                for t in stay + leave[:(2 if big else 1)]:
                    via = rng.choice(DERIVED_VIAS)
                    yield scale, us, t, via
                    if rng.random() < 0.5:
                        # mirror: start from the result, come back into the band
                        yield scale, us + t, -t, rng.choice(DERIVED_VIAS[:3])


def check_derived_all(out, rng, big):
    for scale, us, t, via in gen_derived(rng, big):
        check_derived(out, scale, us, t, via)
    # the inputs of the seeded demonstration, whatever the seed
    for scale, us, t, via in PINNED_DERIVED:
        check_derived(out, scale, us, t, via)


# 2017-01-01T00:00:10 TAI + 1 h (leap-second day); 2016-06-15T00:00:05 TT + 6 h; a TAI range started at TAI midnight
PINNED_DERIVED = [("TAI", 57754 * DAY_US + 10 * 10**6, 3600 * 10**6, "add"), ("TT", 57554 * DAY_US + 5 * 10**6, 6 * 3600 * 10**6, "add"),
                  ("TAI", 57754 * DAY_US, 3 * 1800 * 10**6, "range"), ("GPS", 57754 * DAY_US + 10 * 10**6, 43200 * 10**6, "sub")]


def check_ctor_forms(out, scale, us):
    """every constructor form of the docstring gives the date the `datetime` form gives: calendar arguments, `(day, seconds)`,
    float MJD (resolution of a double MJD: 1 us), `Date(date)`, and an int MJD at midnight"""
    from beyond.dates import Date
    ref = mkdate(us, scale)
    dt = dt_of(us)
    day, tod = us // DAY_US, us % DAY_US
    forms = [("calendar", lambda: Date(dt.year, dt.month, dt.day, dt.hour, dt.minute, dt.second, dt.microsecond, scale=scale), 0),
             ("day-seconds", lambda: Date(day, tod / 1e6, scale=scale), 0),
             ("day-int-seconds", (lambda: Date(day, tod // 10**6, scale=scale)) if tod % 10**6 == 0 else None, 0),
             ("mjd-float", lambda: Date(day + tod / DAY_US, scale=scale), 1),
             ("copy", lambda: Date(ref), 0),
             ("copy-of-derived", lambda: Date(derived), 0),
             ("mjd-int", (lambda: Date(day, scale=scale)) if tod == 0 else None, 0),
             ("lowercase-scale", lambda: Date(dt, scale=scale.lower()), 0)]
    derived = ref.change_scale(scale)
    for name, build, tol in forms:
        if build is None:
            continue
        if name == "copy-of-derived":
            # a copy is compared with what it copies (a UT1 / TDB date converted to its own scale may move by the rounding of its offset)
            ref_, ref = ref, derived
        inp = {"ctor_form": name, "scale": scale, "clock_us": us, "clock": str(dt)}
        out.count(key=("ctor", name, scale, us), kind="ctor-form", form=name, scale=scale)
        x = build()
        di = td_us(x - ref)
        near = min(tod, DAY_US - tod) <= 2 and tol      # a float MJD within its resolution of midnight may fall on the other day
        same_rec = (round(x.eop.tai_utc * 1e7), round(x.eop.ut1_utc * 1e7)) == (round(ref.eop.tai_utc * 1e7), round(ref.eop.ut1_utc * 1e7))
        if x.scale.name != scale or abs(di) > tol or (tol == 0 and scale in UNIFORM and not (x == ref and hash(x) == hash(ref))) \
                or abs(td_us(x.datetime - ref.datetime)) > tol or (not same_rec and not near) or x.d != ref.d or abs(x.s - ref.s) > 1e-6 * max(tol, 1e-3):
            out.fail(f"ctor-form:{name}:{scale if scale in ('UT1', 'TDB') else 'uniform'}", "a constructor form does not build the date the datetime form builds (scale, instant, ==, hash, clock reading, record, d/s)", inp,
                     observed=[x.scale.name, di, str(x.datetime), x.d, x.s, x.eop.ut1_utc], expected=[scale, 0, str(ref.datetime), ref.d, ref.s, ref.eop.ut1_utc])
            return
        if name == "copy-of-derived":
            ref = ref_


class _Grab(logging.Handler):
    def __init__(self):
        super().__init__()
        self.records = []

    def emit(self, record):
        self.records.append(record)


def check_policy(out, rng):
    """dates the tables do not cover: pass -> zeros silently; warning -> zeros + one warning; error -> exception"""
    from beyond.dates import Date
    from beyond.dates.eop import EopDb
    from beyond.errors import EopError
    _, _, first, last = tables()
    log = logging.getLogger("beyond.dates.eop")
    grab = _Grab()
    log.addHandler(grab)
    old_level = log.level
    log.setLevel(logging.WARNING)
    try:
        for day in (first - 1, first - 400, last + 1, last + 5000, 30000):
            for scale in SCALES:
                for pol in ("pass", "warning", "error"):
                    set_policy(pol)
                    grab.records.clear()
                    inp = {"day": day, "scale": scale, "policy": pol}
                    out.count(key=("policy", day, scale, pol), kind="policy", policy=pol)
                    try:
                        d = Date(day, 43200.0, scale=scale)
                        raised = False
                    except KeyError:
                        raised = True
                    except EopError:
                        raised = True
                    if pol == "error":
                        if not raised:
                            out.fail("policy-error", "missing EOP with policy 'error' did not raise", inp)
                        continue
                    if raised:
                        out.fail(f"policy-{pol}", "missing EOP raised although the policy is not 'error'", inp)
                        continue
                    e = d.eop
                    zeros = all(getattr(e, k) == 0 for k in ("x", "y", "dx", "dy", "deps", "dpsi", "lod", "ut1_utc", "tai_utc"))
                    if not zeros:
                        out.fail(f"policy-{pol}", "missing EOP did not give zero corrections", inp, observed=repr(e))
                    nwarn = len(grab.records)
                    if pol == "pass" and nwarn:
                        out.fail("policy-pass", "policy 'pass' logged a warning", inp, observed=nwarn)
                    if pol == "warning" and not nwarn:
                        out.fail("policy-warning", "policy 'warning' logged nothing", inp)
        # a covered date never triggers the policy
        set_policy("error")
        d = Date(first + 10, 100.0)
        if d.eop.tai_utc != leap_at(first + 10) / 1e7:
            out.fail("policy-covered", "covered date did not get the tabulated TAI-UTC", {"day": first + 10}, observed=d.eop.tai_utc)
        out.count(key="policy-covered", kind="policy")
    finally:
        set_policy("pass")
        log.removeHandler(grab)
        log.setLevel(old_level)


def check_tables(out, days):
    """every requested day through the real readers vs the independent column parser"""
    from beyond.dates.eop import EopDb
    leap, ut1, first, last = tables()
    set_policy("error")
    try:
        for day in days:
            e = EopDb.get(day + 0.5)
            out.count(key=("eopday", day), kind="eop-table-day")
            if round(e.tai_utc * 1e7) != leap_at(day) or round(e.ut1_utc * 1e7) != ut1[day]:
                out.fail("eop-reader", "EopDb.get differs from the IERS file columns", {"day": day}, observed=(e.tai_utc, e.ut1_utc), expected=(leap_at(day) / 1e7, ut1[day] / 1e7))
    finally:
        set_policy("pass")


def lookup_position(num):
    """where an abscissa lies relative to the tables (part of the family of a lookup failure)"""
    day, tod = divmod(num, DAY_T)
    entries = {m for m, _ in tables()[0]}
    if tod == 0:
        return "at-leap-entry" if day in entries else "at-day-start"
    if tod <= 10**7:
        return "after-leap-entry" if day in entries else "after-day-start"
    if tod >= DAY_T - 10**7:
        return "before-leap-entry" if day + 1 in entries else "before-day-end"
    return "mid-day"


_readers = {}


def _taiutc_reader():
    from beyond.dates.eop import TaiUtc
    key = pole_dir()
    if key not in _readers:
        _readers[key] = TaiUtc(os.path.join(key, "tai-utc.dat"))
    return _readers[key]


def check_lookup(out, num):
    """the real lookups at `mjd = num / D` (a double) against the IERS file columns read independently:
    `SimpleEopDatabase.tai_utc` (and `TaiUtc.__getitem__`, `TaiUtc.get_last_next`) = the value of the last entry of
    tai-utc.dat whose date is <= mjd (KeyError / None before the first), `SimpleEopDatabase.finals` = the record of day floor(mjd) (KeyError outside / in a hole),
    `EopDb.get` = both, or the policy"""
    from beyond.dates.eop import EopDb
    from beyond.errors import EopError
    leap, ut1, first, last = tables()
    mjd = num / DAY_T
    day = num // DAY_T
    if math.floor(mjd) != day:
        return    # the double cannot tell this abscissa from the neighbouring day
    pos = lookup_position(num)
    inp = {"lookup_num": num, "mjd": repr(mjd), "position": pos}
    out.count(key=("lookup", num), kind="lookup", position=pos, covered=(day in ut1))
    db = EopDb.db()
    exp_t = leap_at(day)
    try:
        got = db.tai_utc(mjd)
        got_t = round(got * 1e7)
        if abs(got * 1e7 - got_t) > 1e-3:
            got_t = got * 1e7
    except KeyError:
        got_t = None
    if got_t != exp_t:
        out.fail(f"eop-lookup:tai-utc:{pos}", "SimpleEopDatabase.tai_utc(mjd) is not the value of the last tai-utc.dat entry whose date is <= mjd", inp,
                 observed=got_t, expected=exp_t)
    reader = _taiutc_reader()
    v = reader[mjd]
    if (None if v is None else round(v * 1e7)) != exp_t:
        out.fail(f"eop-lookup:taiutc-getitem:{pos}", "TaiUtc[mjd] is not the value of the last tai-utc.dat entry whose date is <= mjd", inp,
                 observed=v, expected=exp_t)
    past, fut = reader.get_last_next(mjd)
    e_past = leap_before(day) or (None, None)
    e_fut = next(((m, t) for m, t in leap if m > day), (None, None))
    got_pf = tuple((e[0], None if e[1] is None else round(e[1] * 1e7)) for e in (past, fut))
    if got_pf != (e_past, e_fut):
        out.fail(f"eop-lookup:taiutc-last-next:{pos}", "TaiUtc.get_last_next(mjd) is not (last entry with date <= mjd, first entry with date > mjd)", inp,
                 observed=got_pf, expected=(e_past, e_fut))
    exp_u = ut1.get(day)
    try:
        rec = db.finals(mjd)
        got_u, got_day = round(rec["ut1_utc"] * 1e7), rec["mjd"]
    except KeyError:
        got_u, got_day = None, None
    if got_u != exp_u or (got_day is not None and got_day != day):
        out.fail(f"eop-lookup:finals:{pos}", "SimpleEopDatabase.finals(mjd) is not the record of day floor(mjd)", inp,
                 observed=(got_day, got_u), expected=(day, exp_u))
    set_policy("error")
    try:
        e = EopDb.get(mjd)
        got = (round(e.tai_utc * 1e7), round(e.ut1_utc * 1e7))
    except (KeyError, EopError):
        got = None
    finally:
        set_policy("pass")
    exp = None if exp_t is None or exp_u is None else (exp_t, exp_u)
    if got != exp:
        out.fail(f"eop-lookup:get:{pos}", "EopDb.get(mjd) is not (TAI-UTC, UT1-UTC) as tabulated for day floor(mjd) / the policy for an uncovered date", inp,
                 observed=got, expected=exp)


LEAP_DAY_DELTAS = (0, 1, 10**6, 3600 * 10**6, -1, -10**6)


def check_leap_day_date(out, day, delta):
    """a UTC `Date` at 00:00:00 (+ delta us) of a day listed in tai-utc.dat: from 00:00:00.000000 on the new TAI-UTC
    applies, up to 23:59:59.999999 of the eve the old one. Only statements that are unambiguous there: the record of the
    UTC date itself, UTC -> TAI/TT/GPS, the same instant written down directly in TAI, and arithmetic after 00:00:00."""
    from beyond.dates import Date, timedelta
    us = day * DAY_US + delta
    exp = leap_at(us // DAY_US)
    pos = "at-leap-entry" if delta == 0 else "after-leap-entry" if delta > 0 else "before-leap-entry"
    forms = [("datetime", lambda: mkdate(us, "UTC"))]
    if delta == 0:
        forms += [("int-mjd", lambda: Date(day)), ("day-seconds", lambda: Date(day, 0.0)), ("calendar", lambda: Date(*dt_of(us).timetuple()[:3]))]
    for form, build in forms:
        inp = {"leap_day": day, "delta_us": delta, "form": form, "clock": str(dt_of(us)) + " UTC"}
        out.count(key=("leapdate", day, delta, form), kind="leap-day-date", position=pos, form=form)
        a = build()
        if round(a.eop.tai_utc * 1e7) != exp:
            out.fail(f"leap-day:record:{pos}", "the EOP record of a UTC date does not carry the TAI-UTC tabulated for its day", inp,
                     observed=a.eop.tai_utc, expected=exp / 1e7)
        if td_us(a.datetime - dt_of(us)) != 0:
            out.fail(f"leap-day:clock:{pos}", "the date does not show the clock reading it was built from", inp, observed=str(a.datetime))
        for sb, const in (("TAI", 0), ("TT", 321840000), ("GPS", -190000000)):
            b = a.change_scale(sb)
            off = td_us(b.datetime - a.datetime)
            if off * TICK != exp + const:
                out.fail(f"leap-day:offset:{pos}", f"{sb}-UTC is not the tabulated TAI-UTC of that day (+ the constant)", dict(inp, to=sb),
                         observed=f"{off} us", expected=f"{(exp + const) / TICK} us")
            if not (a == b and hash(a) == hash(b) and td_us(b - a) == 0):
                out.fail(f"leap-day:instant:{pos}", "converted date is not the same instant (==, hash, -)", dict(inp, to=sb),
                         observed=(a == b, hash(a) == hash(b), td_us(b - a)))
        ref = mkdate(us + exp // TICK, "TAI")
        if not (a == ref and hash(a) == hash(ref) and td_us(a - ref) == 0):
            out.fail(f"leap-day:same-instant-in-tai:{pos}", "the UTC date is not the instant UTC clock + tabulated TAI-UTC written down in TAI", inp,
                     observed=(a == ref, td_us(a - ref)), expected=(True, 0))
        if delta >= 0:
            for t in (1, 5 * 3600 * 10**6, DAY_US - delta - 1):
                e = a + timedelta(microseconds=t)
                if td_us(e - a) != t or td_us(e.datetime - a.datetime) != t:
                    out.fail(f"leap-day:add-sub:{pos}", "(d+t)-d != t in UTC although no leap second intervenes (both on the same day after 00:00:00)",
                             dict(inp, t_us=t), observed=(td_us(e - a), td_us(e.datetime - a.datetime)), expected=t)


def check_day_boundary_date(out, day, delta):
    """a UTC `Date` at a day boundary of the finals files carries the record tabulated for its UTC day, and UT1-UTC
    measured on the clocks is that column (to the microsecond resolution of a clock reading)"""
    _, ut1, first, last = tables()
    us = day * DAY_US + delta
    d = us // DAY_US
    if d not in ut1:
        return
    inp = {"boundary_day": day, "delta_us": delta, "clock": str(dt_of(us)) + " UTC"}
    pos = "at-day-start" if delta == 0 else "after-day-start" if delta > 0 else "before-day-end"
    out.count(key=("daydate", day, delta), kind="day-boundary-date", position=pos)
    a = mkdate(us, "UTC")
    if round(a.eop.ut1_utc * 1e7) != ut1[d] or round(a.eop.tai_utc * 1e7) != leap_at(d):
        out.fail(f"day-boundary:record:{pos}", "the EOP record of a UTC date is not the one tabulated for its day", inp,
                 observed=(a.eop.tai_utc, a.eop.ut1_utc), expected=(leap_at(d) / 1e7, ut1[d] / 1e7))


def range_grid():
    """(scale, start clock us, step us, duration us, inclusive, stop given as timedelta)"""
    us = 57000 * DAY_US + 3600 * 10**6
    n = 0
    for scale in ("TAI", "UTC"):
        for mag in (1, 300000, 10**6, 15 * 10**6, DAY_US, 2 * DAY_US, 3 * DAY_US + 1):
            for sgn in (1, -1):
                for k in (0, 1, 3):
                    for r in (0, 1, -1, mag // 2, mag - 1, DAY_US, 250000):
                        if not (0 <= r < mag) and r != -1:
                            continue
                        dur_abs = k * mag + r
                        if dur_abs < 0:
                            continue
                        for inclusive in (True, False):
                            n += 1
                            yield scale, us, sgn * mag, sgn * dur_abs, inclusive, (n % 2 == 0)


def check_range_grid(out):
    """DateRange on its own boundaries: durations that are exact multiples of the step, one microsecond short / over,
    whole-day and sub-second remainders, steps longer than a day, both signs, inclusive or not, stop as date or timedelta"""
    for scale, us, step, dur, inclusive, stop_as_td in range_grid():
        check_range(out, None, scale, us, replay=(step, dur, inclusive, stop_as_td))


def check_boundaries(out, rng, big):
    for num in reversed(table_abscissae(rng, all_days=big, n_days=150)):
        check_lookup(out, num)
    _, ut1, first, last = tables()
    for day in leap_days():
        if first + 1 <= day <= last - 1:
            for delta in LEAP_DAY_DELTAS:
                check_leap_day_date(out, day, delta)
    days = range(first + 1, last) if big else sorted({rng.randint(first + 1, last - 1) for _ in range(120)} | {first + 1, last - 1, last})
    for day in days:
        for delta in (0, 1, -1):
            check_day_boundary_date(out, day, delta)
    check_range_grid(out)


def oracle(ctx, widened):
    setup()
    out = Outcome()
    rng = ctx.rng
    big = widened or ctx.thorough
    n_pair = 300 if not big else 3000
    for sa in SCALES:
        for sb in SCALES:
            for _ in range(n_pair):
                check_pair(out, rng, sa, sb, gen_label(rng, sa))
    for sa, sb, us in PINNED_EQ + PINNED_EOP + PINNED_BAND:
        check_pair(out, rng, sa, sb, us)
    for sa in SCALES:
        for sb in SCALES:
            for _ in range(60 if not big else 600):
                day, sec = gen_day_sec(rng, sa)
                if sec < 86400.0 - 1e-5:
                    check_pair_float(out, rng, sa, sb, day, sec)
    for scale in SCALES:
        for _ in range(1200 if not big else 12000):
            check_arith(out, rng, scale, gen_label(rng, scale))
    for _ in range(6000 if not big else 60000):
        sa, sb = rng.choice(SCALES), rng.choice(SCALES)
        check_order(out, rng, sa, sb, gen_label(rng, sa))
    for _ in range(2500 if not big else 25000):
        scale = rng.choice(UNIFORM)
        check_range(out, rng, scale, gen_label(rng, scale))
    check_derived_all(out, rng, big)
    for scale in SCALES:
        for _ in range(80 if not big else 800):
            us = gen_label(rng, scale)
            if rng.random() < 0.2:
                us -= us % 10**6
            if rng.random() < 0.1:
                us -= us % DAY_US
            if not in_leap_window(scale, us):
                check_ctor_forms(out, scale, us)
    check_policy(out, rng)
    check_boundaries(out, rng, big)
    _, _, first, last = tables()
    days = range(first, last + 1) if big else [rng.randint(first, last) for _ in range(400)] + [first, last]
    check_tables(out, days)
    out.sample({"checked": "Date(2015-03-04T00:00:10 TAI).change_scale(s) for the 6 scales: ==, hash, -, offsets vs IERS columns, round trip"})
    return out


def replay(f):
    setup()
    out = Outcome()
    i = f["input"]
    import random
    rng = random.Random(0)
    if "lookup_num" in i:
        check_lookup(out, i["lookup_num"])
    elif "leap_day" in i:
        check_leap_day_date(out, i["leap_day"], i["delta_us"])
    elif "boundary_day" in i:
        check_day_boundary_date(out, i["boundary_day"], i["delta_us"])
    elif "ctor_form" in i:
        check_ctor_forms(out, i["scale"], i["clock_us"])
    elif "pair_float" in i:
        check_pair_float(out, rng, i["pair_float"][0], i["pair_float"][1], i["day"], float(i["seconds"]))
    elif "derived_scale" in i:
        check_derived(out, i["derived_scale"], i["clock_us"], i["t_us"], i["via"])
    elif "to" in i:
        check_pair(out, rng, i["scale"], i["to"], i["clock_us"])
    elif "step_us" in i:
        check_range(out, rng, i["scale"], i["clock_us"], replay=(i["step_us"], i["dur_us"], i["inclusive"], i["stop_as_timedelta"]))
    elif "t1_us" in i:
        check_arith(out, rng, i["scale"], i["clock_us"], ts=(i["t1_us"], i["t2_us"]))
    elif "delta_us" in i:
        check_order(out, rng, i["scale_a"], i["scale_b"], i["clock_us"], delta=i["delta_us"])
    elif "policy" in i:
        check_policy(out, rng)
    elif "day" in i:
        check_tables(out, [i["day"]])
    return out


# ---------------------------------------------------------------- extract: source -> Generated/*.lean

DATE_PY = lambda: os.path.join(core.REPO, "beyond", "dates", "date.py")   # noqa: E731
GAP = 999999999


def _class_consts(tree, cls):
    node = next(n for n in tree.body if isinstance(n, ast.ClassDef) and n.name == cls)
    out = {}
    for s in node.body:
        if isinstance(s, ast.Assign) and len(s.targets) == 1 and isinstance(s.targets[0], ast.Name) and isinstance(s.value, ast.Constant):
            out[s.targets[0].id] = s.value.value
    return out


def scale_ops(tree, names):
    """the `_scale_<hi>_minus_<lo>` methods of Timescale, in source order: (hi, lo, kind-text, python-kind)"""
    node = next(n for n in tree.body if isinstance(n, ast.ClassDef) and n.name == "Timescale")
    low = {n.lower(): i for i, n in enumerate(names)}
    ops = []
    for f in node.body:
        if not (isinstance(f, ast.FunctionDef) and f.name.startswith("_scale_") and "_minus_" in f.name):
            continue
        hi, lo = f.name[len("_scale_"):].split("_minus_")
        if hi not in low or lo not in low:
            raise RuntimeError(f"{f.name}: unknown scale")
        body = [s for s in f.body if not (isinstance(s, ast.Expr) and isinstance(s.value, ast.Constant))]
        ret = body[-1]
        if not isinstance(ret, ast.Return):
            raise RuntimeError(f"{f.name}: no final return")
        v = ret.value
        args = [a.arg for a in f.args.args]
        if len(body) == 1 and isinstance(v, ast.Constant) and isinstance(v.value, (int, float)):
            kind = f".const {dec_to_int(repr(v.value), 7)}"
        elif len(body) == 1 and isinstance(v, ast.Attribute) and isinstance(v.value, ast.Name) and v.value.id == args[2] and v.attr in ("tai_utc", "ut1_utc"):
            kind = ".taiUtc" if v.attr == "tai_utc" else ".ut1Utc"
        elif (hi, lo) == ("tdb", "tt"):
            kind = ".tdbTt"
        else:
            raise RuntimeError(f"{f.name}: body not understood")
        ops.append((low[hi], low[lo], kind, f.name))
    return ops


def eop_day_scale(tree):
    """the scale name `Date.__init__` compares `scale.name` with before the second EOP lookup, and the target of the
    `scale.offset(mjd, <name>, eop)` call of that block; RuntimeError when the block is not there (pre-fc514f7 code)"""
    node = next(n for n in tree.body if isinstance(n, ast.ClassDef) and n.name == "Date")
    init = next(f for f in node.body if isinstance(f, ast.FunctionDef) and f.name == "__init__")
    for st in ast.walk(init):
        if isinstance(st, ast.If) and isinstance(st.test, ast.Compare) and isinstance(st.test.left, ast.Attribute) and st.test.left.attr == "name" \
                and isinstance(st.test.ops[0], ast.NotEq) and isinstance(st.test.comparators[0], ast.Constant):
            name = st.test.comparators[0].value
            calls = [c for c in ast.walk(st) if isinstance(c, ast.Call) and isinstance(c.func, ast.Attribute) and c.func.attr == "offset"]
            gets = [c for c in ast.walk(st) if isinstance(c, ast.Call) and isinstance(c.func, ast.Attribute) and c.func.attr == "get"]
            if calls and gets and isinstance(calls[0].args[1], ast.Constant) and calls[0].args[1].value == name:
                return name
    raise RuntimeError("Date.__init__: the second EOP lookup by UTC day is not there")


# ---------------------------------------------------------------- Date / DateRange method bodies -> Generated/DateSrc.lean

class SrcShape(RuntimeError):
    """a method of Date / DateRange is not of the shape the dedicated translator knows"""


def _unparse(n):
    return ast.unparse(n)


class IntTr:
    """expressions over the integer tick model: names/attributes are looked up in `names` (python source text -> Lean text),
    86400 / 86400.0 is `D`, `//` and `%` by a positive constant are Lean's `/` and `%` on Int, `int(x // c)` is `x / c`,
    comparisons (chains too) become `decide`, `and` / `or` / `not` the Bool connectives; anything else raises SrcShape"""

    def __init__(self, names):
        self.names = names

    def num(self, e):
        src = _unparse(e)
        if src in self.names:
            return self.names[src]
        if isinstance(e, ast.Constant) and isinstance(e.value, (int, float)) and not isinstance(e.value, bool):
            if e.value in (86400, 86400.0):
                return "D"
            if float(e.value).is_integer():
                return f"({int(e.value)} : Int)"
            raise SrcShape(f"constant {e.value!r}")
        if isinstance(e, ast.BinOp):
            if isinstance(e.op, (ast.FloorDiv, ast.Mod)) and not (isinstance(e.right, ast.Constant) and e.right.value in (86400, 86400.0)):
                raise SrcShape("// or % by something else than 86400: " + src)
            op = {ast.Add: "+", ast.Sub: "-", ast.Mult: "*", ast.FloorDiv: "/", ast.Mod: "%"}.get(type(e.op))
            if op is None:
                raise SrcShape("operator in " + src)
            return f"({self.num(e.left)} {op} {self.num(e.right)})"
        if isinstance(e, ast.Call) and isinstance(e.func, ast.Name) and e.func.id == "int" and len(e.args) == 1 and not e.keywords \
                and isinstance(e.args[0], ast.BinOp) and isinstance(e.args[0].op, ast.FloorDiv):
            return self.num(e.args[0])        # int() of a floor quotient: already whole
        raise SrcShape("expression " + src)

    def boolean(self, e):
        src = _unparse(e)
        if src in self.names:
            return self.names[src]
        if isinstance(e, ast.Compare):
            ops = {ast.Lt: "<", ast.LtE: "≤", ast.Gt: ">", ast.GtE: "≥", ast.Eq: "=", ast.NotEq: "≠"}
            terms = [e.left] + list(e.comparators)
            parts = []
            for a, o, b_ in zip(terms, e.ops, terms[1:]):
                if type(o) not in ops:
                    raise SrcShape("comparison in " + src)
                parts.append(f"decide ({self.num(a)} {ops[type(o)]} {self.num(b_)})")
            return "(" + " && ".join(parts) + ")"
        if isinstance(e, ast.BoolOp):
            return "(" + (" && " if isinstance(e.op, ast.And) else " || ").join(self.boolean(v) for v in e.values) + ")"
        if isinstance(e, ast.UnaryOp) and isinstance(e.op, ast.Not):
            return f"(!{self.boolean(e.operand)})"
        raise SrcShape("condition " + src)


def _method(tree, cls, name):
    node = next(n for n in tree.body if isinstance(n, ast.ClassDef) and n.name == cls)
    fs = [f for f in node.body if isinstance(f, ast.FunctionDef) and f.name == name]
    if len(fs) != 1:
        raise SrcShape(f"{cls}.{name}: {len(fs)} definitions")
    return fs[0]


def _body(f):
    """statements without the docstring"""
    return [st for st in f.body if not (isinstance(st, ast.Expr) and isinstance(st.value, ast.Constant) and isinstance(st.value.value, str))]


def _ret_tree(stmts, tr):
    """`if c: return a  [else: return b]  return c` trees -> nested Lean `if`; every leaf a Bool expression"""
    if not stmts:
        raise SrcShape("falls off the end")
    st = stmts[0]
    if isinstance(st, ast.Return) and len(stmts) == 1:
        return tr.boolean(st.value)
    if isinstance(st, ast.If):
        then = _ret_tree(st.body, tr)
        other = _ret_tree(st.orelse if st.orelse else stmts[1:], tr)
        if st.orelse and len(stmts) > 1:
            raise SrcShape("statements after if/else")
        return f"(if {tr.boolean(st.test)} then {then} else {other})"
    raise SrcShape("statement " + _unparse(st))


def date_src(tree):
    """Lean text of Generated/DateSrc.lean: the arithmetic of the Date methods and the three DateRange methods, translated from
    the AST of beyond/dates/date.py; SrcShape when a method has another shape than the one modelled in Model/Date.lean"""
    out = []
    # --- Date.__init__: the last two statements before the __setattr__ block
    init = _method(tree, "Date", "__init__")
    stmts = _body(init)
    k = next((i for i, st in enumerate(stmts) if isinstance(st, ast.Expr) and "__setattr__" in _unparse(st)), None)
    if k is None or k < 3:
        raise SrcShape("Date.__init__: no __setattr__ block")
    sets = [_unparse(st) for st in stmts[k:]]
    exp_sets = ["super().__setattr__('_d', d)", "super().__setattr__('_s', s)", "super().__setattr__('_offset', offset)",
                "super().__setattr__('scale', scale)", "super().__setattr__('eop', eop)", "super().__setattr__('_cache', {})"]
    if sets != exp_sets:
        raise SrcShape("Date.__init__: slots are not set from (d, s, offset, scale, eop) in that order: " + "; ".join(sets))
    off_st, d_st, s_st = stmts[k - 3], stmts[k - 2], stmts[k - 1]
    if _unparse(off_st) != "offset = scale.offset(mjd, self.REF_SCALE, eop)":
        raise SrcShape("Date.__init__: offset statement: " + _unparse(off_st))
    tr = IntTr({"d": "d", "s": "s", "offset": "offset"})
    if not (isinstance(d_st, ast.AugAssign) and isinstance(d_st.op, ast.Add) and _unparse(d_st.target) == "d"
            and isinstance(s_st, ast.Assign) and _unparse(s_st.targets[0]) == "s"):
        raise SrcShape("Date.__init__: normalisation statements: " + _unparse(d_st) + "; " + _unparse(s_st))
    out += ["/-- `Date.__init__`: `" + _unparse(d_st) + "; " + _unparse(s_st) + "` -/",
            "def normaliseSrc (d s offset : Int) : Int × Int :=",
            f"  let d' : Int := d + {tr.num(d_st.value)}",
            f"  let s' : Int := {tr.num(s_st.value)}",
            "  (d', s')"]
    mjd_sts = [st for st in stmts[:k] if isinstance(st, ast.Assign) and _unparse(st.targets[0]) == "mjd"]
    if [_unparse(st) for st in mjd_sts] != ["mjd = d + s / 86400.0"]:
        raise SrcShape("Date.__init__: mjd")
    # --- _convert_to_scale
    f = _body(_method(tree, "Date", "_convert_to_scale"))
    if [type(st) for st in f] != [ast.Assign, ast.Assign, ast.AugAssign, ast.Return] or _unparse(f[0]) != "d = self._d" \
            or _unparse(f[1].targets[0]) != "s" or _unparse(f[2].target) != "d" or not isinstance(f[2].op, ast.Sub) or _unparse(f[3]) != "return (d, s)":
        raise SrcShape("Date._convert_to_scale: " + "; ".join(_unparse(st) for st in f))
    tr1 = IntTr({"self._s": "x.s", "self._offset": "x.off", "self._d": "x.d"})
    tr2 = IntTr({"self._s": "x.s", "self._offset": "x.off", "self._d": "x.d", "s": "s'", "d": "x.d"})
    out += ["/-- `Date._convert_to_scale` -/", "def toScaleSrc (x : Date) : Int × Int :=",
            f"  let s' : Int := {tr1.num(f[1].value)}",
            f"  let d' : Int := x.d - {tr2.num(f[2].value)}",
            "  (d', s')"]
    for prop, exp in (("d", "return self._convert_to_scale()[0]"), ("s", "return self._convert_to_scale()[1]"),
                      ("_mjd", "return self._d + self._s / 86400.0"), ("mjd", "return self.d + self.s / 86400.0")):
        got = "; ".join(_unparse(st) for st in _body(_method(tree, "Date", prop)))
        if got != exp:
            raise SrcShape(f"Date.{prop}: {got}")
    # --- __add__
    f = _body(_method(tree, "Date", "__add__"))
    if len(f) != 2 or not isinstance(f[0], ast.If) or not isinstance(f[1], ast.Return):
        raise SrcShape("Date.__add__: not `if isinstance(...): divmod / else: raise` followed by ONE return")
    if _unparse(f[0].test) != "isinstance(other, timedelta)" or len(f[0].body) != 1 or not (len(f[0].orelse) == 1 and isinstance(f[0].orelse[0], ast.Raise)):
        raise SrcShape("Date.__add__: guard")
    dm = f[0].body[0]
    if not (isinstance(dm, ast.Assign) and _unparse(dm.targets[0]) == "(days, sec)" and isinstance(dm.value, ast.Call)
            and _unparse(dm.value.func) == "divmod" and len(dm.value.args) == 2 and _unparse(dm.value.args[1]) in ("86400", "86400.0")):
        raise SrcShape("Date.__add__: " + _unparse(dm))
    ret = f[1].value
    if not (isinstance(ret, ast.Call) and _unparse(ret.func) == "self.__class__" and len(ret.args) == 2 and _unparse(ret.args[1]) == "sec"
            and [(kw.arg, _unparse(kw.value)) for kw in ret.keywords] == [("scale", "self.scale")]):
        raise SrcShape("Date.__add__: result is not `self.__class__(<day>, sec, scale=self.scale)`: " + _unparse(ret))
    tr = IntTr({"other.total_seconds()": "t", "self.s": "selfS", "self.d": "selfD"})
    tot = tr.num(dm.value.args[0])
    tr = IntTr({"self.d": "selfD", "int(days)": f"({tot} / D)", "days": f"({tot} / D)"})
    out += ["/-- `Date.__add__`: the `(d, s)` handed to the constructor; `t` = `other.total_seconds()` in ticks, `selfD`, `selfS` = `self.d`, `self.s` -/",
            "def addSplitSrc (selfD selfS t : Int) : Int × Int :=", f"  ({tr.num(ret.args[0])}, {tot} % D)"]
    # --- __sub__: negation of the timedelta then __add__; Date - Date on _datetime
    f = _body(_method(tree, "Date", "__sub__"))
    got = "; ".join(_unparse(st) for st in f)
    exp = ("if isinstance(other, timedelta):\n    other = timedelta(seconds=-other.total_seconds())\nelif isinstance(other, datetime):\n    return self.datetime - other\n"
           "elif isinstance(other, Date):\n    return self._datetime - other._datetime\nelse:\n    raise TypeError(f'Unknown operation with {type(other)}'); return self.__add__(other)")
    if got != exp:
        raise SrcShape("Date.__sub__: " + got)
    # --- change_scale
    got = [_unparse(st) for st in _body(_method(tree, "Date", "change_scale"))]
    if got != ["offset = self.scale.offset(self._mjd, new_scale, self.eop)", "result = self.datetime + timedelta(seconds=offset)",
               "return self.__class__(result, scale=new_scale)"]:
        raise SrcShape("Date.change_scale: " + "; ".join(got))
    # --- datetime / _datetime (through the cache dictionary)
    for prop, key, exp in (("datetime", "dt_scale", "self._datetime - timedelta(seconds=self._offset)"),
                           ("_datetime", "dt", "self.MJD_T0 + timedelta(days=self._d, seconds=self._s)")):
        f = _body(_method(tree, "Date", prop))
        got = "; ".join(_unparse(st) for st in f)
        if got != f"if '{key}' not in self._cache.keys():\n    self._cache['{key}'] = {exp}; return self._cache['{key}']":
            raise SrcShape(f"Date.{prop}: {got}")
    # --- comparisons and hash: all on `_datetime`
    ops = {"__gt__": ">", "__ge__": "≥", "__lt__": "<", "__le__": "≤", "__eq__": "="}
    pyop = {"__gt__": ">", "__ge__": ">=", "__lt__": "<", "__le__": "<=", "__eq__": "=="}
    for name, op in ops.items():
        got = "; ".join(_unparse(st) for st in _body(_method(tree, "Date", name)))
        if got != f"return self._datetime {pyop[name]} other._datetime":
            raise SrcShape(f"Date.{name}: {got}")
        out += [f"/-- `Date.{name}` -/", f"def {name.strip('_')}Src (x y : Date) : Bool := decide (x.datetimeRef {op} y.datetimeRef)"]
    got = "; ".join(_unparse(st) for st in _body(_method(tree, "Date", "__hash__")))
    if got != "return hash(self._datetime)":
        raise SrcShape("Date.__hash__: " + got)
    out += ["/-- `Date.__hash__` hashes -/", "def hashKeySrc (x : Date) : Int := x.datetimeRef"]
    cls = next(n for n in tree.body if isinstance(n, ast.ClassDef) and n.name == "Date")
    if any(isinstance(f, ast.FunctionDef) and f.name == "__ne__" for f in cls.body):
        raise SrcShape("Date.__ne__ defined")
    # --- DateRange
    rnames = {"self.step.total_seconds()": "r.step", "self.inclusive": "(r.incl == true)", "self.start": "r.start", "self.stop": "r.stop", "date": "date",
              "0": "(0 : Int)"}
    out += ["/-- `DateRange.__contains__` -/", "def containsSrc (r : Range) (date : Int) : Bool :=",
            "  " + _ret_tree(_body(_method(tree, "DateRange", "__contains__")), IntTr(rnames))]
    f = _body(_method(tree, "DateRange", "__iter__"))
    if len(f) != 3 or _unparse(f[0]) != "date = self.start" or not isinstance(f[1], ast.If) or not isinstance(f[2], ast.While):
        raise SrcShape("DateRange.__iter__: " + "; ".join(_unparse(st) for st in f))
    if _unparse(f[2].test) != "getattr(date, oper)(self.stop)" or [_unparse(st) for st in f[2].body] != ["yield date", "date += self.step"] or f[2].orelse:
        raise SrcShape("DateRange.__iter__: loop: " + _unparse(f[2]))
    sel = f[1]
    if len(sel.body) != 1 or len(sel.orelse) != 1:
        raise SrcShape("DateRange.__iter__: operator selection")

    def oper(st):
        if not (isinstance(st, ast.Assign) and _unparse(st.targets[0]) == "oper" and isinstance(st.value, ast.IfExp)
                and isinstance(st.value.body, ast.Constant) and isinstance(st.value.orelse, ast.Constant)):
            raise SrcShape("DateRange.__iter__: " + _unparse(st))
        a, b_ = (f"decide (date {ops[c.value]} r.stop)" for c in (st.value.body, st.value.orelse))
        return f"(if {IntTr(rnames).boolean(st.value.test)} then {a} else {b_})"
    out += ["/-- the loop condition of `DateRange.__iter__`: `getattr(date, oper)(self.stop)` -/", "def condSrc (r : Range) (date : Int) : Bool :=",
            f"  if {IntTr(rnames).boolean(sel.test)} then {oper(sel.body[0])} else {oper(sel.orelse[0])}"]
    f = _body(_method(tree, "DateRange", "__len__"))
    got = "; ".join(_unparse(st) for st in f)
    if got != "if self.inclusive and self.dur % self.step == timedelta(0):\n    plus = 1\nelse:\n    plus = 0; return int(ceil(self.dur / self.step)) + plus":
        raise SrcShape("DateRange.__len__: " + got)
    if "; ".join(_unparse(st) for st in _body(_method(tree, "DateRange", "dur"))) != "return self.stop - self.start":
        raise SrcShape("DateRange.dur")
    out += ["/-- `DateRange.__len__` (`dur = stop - start`; `ceil` of the quotient of two timedeltas) -/", "def lenSrc (r : Range) : Int :=",
            "  ceilDiv (r.stop - r.start) r.step + (if r.incl ∧ (r.stop - r.start) % r.step = 0 then 1 else 0)"]
    f = _body(_method(tree, "DateRange", "__init__"))
    got = [_unparse(st) for st in f]
    exp = ["if isinstance(stop, timedelta):\n    stop = start + stop", "if not step:\n    raise ValueError('Null step')",
           "if self._sign(stop - start) != self._sign(step):\n    raise ValueError('start/stop order not coherent with step')",
           "self.start = start", "self.stop = stop", "self.step = step", "self.inclusive = inclusive"]
    if [g for g in got if not g.startswith("'")] != exp:
        raise SrcShape("DateRange.__init__: " + "; ".join(got))
    if "; ".join(_unparse(st) for st in _body(_method(tree, "DateRange", "_sign"))) != "return (-1, 1)[x.total_seconds() >= 0]":
        raise SrcShape("DateRange._sign")
    return out


def _lean_str(line):
    if any(ord(c) < 32 or ord(c) > 126 or c in "'\\" for c in line):
        raise RuntimeError("unexpected character in an IERS file line")
    return "[" + ",".join("'%s'" % c for c in line) + "]"


def extract(ctx):
    from harness import py2lean, instantiate
    from harness.props import C20
    ch = list(C20.extract(ctx) or [])
    names = ctx.graphs["scales"][0]
    src = open(DATE_PY()).read()
    tree = ast.parse(src)
    dconst = _class_consts(tree, "Date")
    ops = scale_ops(tree, names)
    ctx.scale_names = names
    ctx.scale_ops = ops
    txt = ["/- GENERATED by harness/props/C03.py from beyond/dates/date.py — do not edit. -/",
           "import BeyondVerif.Model.Date", "namespace BeyondVerif.Generated", "open BeyondVerif.Date",
           "/-- the `_scale_<hi>_minus_<lo>` methods of `Timescale` in source order (indices into `scalesNames`) -/",
           "def scaleOps : List ScaleOp := [" + ", ".join(f"⟨{h}, {l}, {k}⟩" for h, l, k, _ in ops) + "]",
           f"def refScale : Nat := {names.index(dconst['REF_SCALE'])}",
           f"def defaultScale : Nat := {names.index(dconst['DEFAULT_SCALE'])}",
           "/-- the scale whose day number indexes the EOP tables: the literal compared with `scale.name` in `Date.__init__` -/",
           f"def utcScale : Nat := {names.index(eop_day_scale(tree))}",
           "end BeyondVerif.Generated", ""]
    if core.write_if_changed(os.path.join(core.LEAN, "BeyondVerif", "Generated", "Scales.lean"), "\n".join(txt)):
        ch.append("Generated/Scales.lean")
    # the arithmetic of the Date methods and the DateRange methods, translated from the AST
    txt = ["/- GENERATED by harness/props/C03.py (date_src) from beyond/dates/date.py — do not edit. -/",
           "import BeyondVerif.Model.Date", "namespace BeyondVerif.Generated.DateSrc", "open BeyondVerif.Date"] + date_src(tree) + ["end BeyondVerif.Generated.DateSrc", ""]
    if core.write_if_changed(os.path.join(core.LEAN, "BeyondVerif", "Generated", "DateSrc.lean"), "\n".join(txt)):
        ch.append("Generated/DateSrc.lean")
    # the TDB-TT formula, translated from the AST
    consts = {"Date.JD_MJD": f"({dconst['JD_MJD']!r} : R)", "Date.J2000": f"({dconst['J2000']!r} : R)", "cls.J2000": f"({dconst['J2000']!r} : R)"}
    funcs = {"Date._julian_century": "julianCentury"}
    body = ""
    for qual, inputs, lname in (("Date._julian_century", ["jd"], "julianCentury"), ("Timescale._scale_tdb_minus_tt", ["mjd"], "tdbMinusTt")):
        fn = py2lean.find_function(tree, qual)
        ret = fn.body[-1]
        if not isinstance(ret, ast.Return):
            raise RuntimeError(f"{qual}: no final return")
        tr = py2lean.Tr(consts=consts, funcs=funcs)
        res = tr.expr(ret.value)
        outs = sorted({n.id for n in ast.walk(ret.value) if isinstance(n, ast.Name)} - {"sin", "radians", "cls", "Date"})
        body += py2lean.translate_slice(DATE_PY(), qual, inputs, outs, lname, result_expr=res, consts=consts, funcs=funcs) + "\n"
    ch += py2lean.instantiate(core.LEAN, "Tdb", body, "beyond/dates/date.py")
    # the IERS tables shipped with the repository, through the independent column parser
    leap, ut1, first, last = tables()
    cells = []
    for day in range(first, last + 1):
        v = ut1.get(day, None)
        if v is not None and abs(v) >= 10**8:
            raise RuntimeError("UT1-UTC out of range")
        cells.append("%09d" % (GAP if v is None else v + 10**8))
    raw = "".join(cells)
    chunks = [raw[i:i + 9000] for i in range(0, len(raw), 9000)]
    txt = ["/- GENERATED by harness/props/C03.py from tests/data/pole/{tai-utc.dat,finals.all} — do not edit. -/",
           "namespace BeyondVerif.Generated",
           "/-- `tai-utc.dat` in file order: (MJD of the entry, constant term of TAI−UTC in ticks of 1e-7 s) -/",
           "def leapTable : List (Int × Int) := [" + ", ".join(f"({m}, {v})" for m, v in leap) + "]",
           "/-- the text of `tai-utc.dat`, line by line (`Props/C03.lean leap_table_is_parsed_file`: `leapTable` is its parse by Model/EopFile.lean) -/",
           "def taiUtcText : List (List Char) := [" + ",\n  ".join(_lean_str(l) for l in open(os.path.join(pole_dir(), "tai-utc.dat"), encoding="ascii").read().splitlines()) + "]",
           f"def finalsFirst : Int := {first}", f"def finalsLast : Int := {last}",
           "/-- UT1−UTC per day from `finals.all`, ticks + 10^8 in 9 decimal digits per day (999999999 = no record) -/",
           "def ut1Raw : List String := [" + ",\n  ".join('"' + c + '"' for c in chunks) + "]",
           "end BeyondVerif.Generated", ""]
    if core.write_if_changed(os.path.join(core.LEAN, "BeyondVerif", "Generated", "EopTable.lean"), "\n".join(txt)):
        ch.append("Generated/EopTable.lean")
    ch += instantiate.main()
    return ch


# ---------------------------------------------------------------- correspondence: compiled model vs real objects

def real_show(x):
    return "ok %s %d %d %d %d %d %d" % (x.scale.name, us_of(x._datetime), us_of(x.datetime), round(x._offset * 1e7),
                                      round(x.eop.tai_utc * 1e7), round(x.eop.ut1_utc * 1e7), x.d * DAY_T + round(x.s * 1e7))


def real_try(fn):
    from beyond.errors import EopError, UnknownScaleError, DateError
    try:
        return real_show(fn())
    except (KeyError, EopError):
        return "err missing-eop"
    except UnknownScaleError:
        return "err unknown-scale"
    except DateError:
        return "err unknown-conversion"


def same_reply(real, model, exact):
    """exact: token equality. otherwise (UT1 / TDB involved): clock readings within 4 us (a UT1 date built from a
    clock reading rounds `_s` and `_offset` separately; on a tie of the 0.1-us column the float noise decides, once
    per construction, two constructions in a change_scale), offsets within 1 tick (float TDB term).
    When the UTC reading of either reply is within 3 us of midnight the code's `int(mjd_utc)` (a double, resolution
    0.6 us) and the model's exact day number may pick neighbouring EOP records: the UT1-UTC column may then differ,
    and for a UT1 date the offset and instant with it (by one day's change of UT1-UTC, < 5 ms)"""
    if real == model:
        return True
    a, b = real.split(), model.split()
    if len(a) != len(b) or a[:2] != b[:2] or a[0] != "ok":
        return False
    tol = [0, 0, 0, 0, 0, 0] if exact else [4, 4, 1, 0, 0, 40]
    if not exact and int(a[3]) // DAY_US != int(b[3]) // DAY_US:
        tol = [4, 4, 10**5, 10**7, 10**5, 40]    # the two clock readings straddle midnight: neighbouring EOP records

    def near(t):
        u = (int(t[2]) - int(t[5]) // TICK) % DAY_US
        return min(u, DAY_US - u) <= 3
    if near(a) or near(b):
        tol = [max(tol[0], 5000), tol[1], max(tol[2], 50000), tol[3], 10**5, tol[5]] if a[1] == "UT1" else tol[:4] + [10**5] + tol[5:]
        # ... and when that midnight is the date of an entry of tai-utc.dat, the neighbouring record of a UT1 / TDB date also
        # differs by the leap second, in both columns (UT1-UTC jumps with UTC)
        entries = {m for m, _ in tables()[0]}
        if not exact and any(((int(t[2]) - int(t[5]) // TICK + DAY_US // 2) // DAY_US) in entries for t in (a, b) if near(t)):
            tol[3], tol[4] = 10**7, 10**7 + 10**5
    return all(abs(int(x) - int(y)) <= t for x, y, t in zip(a[2:], b[2:], tol))


def gen_any_label(rng, scale):
    """like gen_label but leap-second neighbourhoods included (the model follows the code there too)"""
    r = rng.random()
    if r < 0.12:
        ld = rng.choice(leap_days())
        if ld > tables()[2] + 2:
            return ld * DAY_US + rng.randint(-90 * 10**6, 90 * 10**6)
    return gen_label(rng, scale)


def _enc(line):
    return line.replace(" ", "~")


def _model_tai(lines):
    """TaiUtc.data according to Model/EopFile.lean, or 'crash'"""
    tab = []
    for r in core.Driver(ID).run(["d3ptai " + _enc(l) for l in lines]):
        t = r.split()
        if t[0] == "crash":
            return "crash"
        if t[0] == "ok":
            tab.append((int(t[1]), int(t[2])))
    return tab


def _model_fin(lines):
    """{mjd: UT1-UTC ticks} of a finals reader according to Model/EopFile.lean (stops at the first line without
    x / y / UT1-UTC), or 'crash'"""
    tab = {}
    for r in core.Driver(ID).run(["d3pfin " + _enc(l) for l in lines]):
        t = r.split()
        if t[0] == "crash":
            return "crash"
        if t[0] == "stop":
            break
        tab[int(t[1])] = int(t[2])
    return tab


def _real_reader(cls, lines, tmpdir, name):
    path = os.path.join(tmpdir, name)
    with open(path, "w", encoding="ascii", newline="\n") as f:
        f.write("\n".join(lines) + "\n")
    try:
        r = cls(path)
    except (ValueError, IndexError):
        return "crash"
    except KeyError:
        return "keyerror"      # dX / LOD fallback to the previous day on the first line: not a time-scale column
    if isinstance(r.data, list):
        return [(m, round(v * 1e7)) for m, v in r.data]
    bad = [m for m, rec in r.data.items() if rec["mjd"] != m]
    return {m: round(rec["ut1_utc"] * 1e7) for m, rec in r.data.items()} if not bad else {"mjd-field-differs": bad[:3]}


def readers_correspondence(ctx, out):
    """the real IERS readers (`TaiUtc`, `Finals`, `Finals2000A`) and the column parsers of Model/EopFile.lean on the same file
    text: every line of the three files of tests/data/pole, then perturbed copies (blank / shifted / truncated columns, empty
    lines, a bad MJD) written to a scratch folder — the `break` and the crash branches of the readers included. The regenerated
    tables the theorems use (Generated/EopTable.lean) are compared with the Lean parse of the text as well."""
    import tempfile
    from beyond.dates.eop import TaiUtc, Finals, Finals2000A
    rng = ctx.rng
    text = {fn: open(os.path.join(pole_dir(), fn), encoding="ascii").read().splitlines() for fn in ("tai-utc.dat", "finals.all", "finals2000A.all")}
    leap, ut1, first, last = tables()
    with tempfile.TemporaryDirectory() as tmp:
        m_tai = _model_tai(text["tai-utc.dat"])
        r_tai = _real_reader(TaiUtc, text["tai-utc.dat"], tmp, "tai-utc.dat")
        out.count(key="reader-tai-utc", kind="reader-file", file="tai-utc.dat", lines=len(text["tai-utc.dat"]))
        if r_tai != m_tai:
            diff = [(a, b_) for a, b_ in zip(r_tai, m_tai) if a != b_][:3] if isinstance(r_tai, list) and isinstance(m_tai, list) else None
            out.fail("reader-tai-utc", "TaiUtc reader and Model/EopFile.lean differ on tests/data/pole/tai-utc.dat", "tai-utc.dat", observed=diff or str(r_tai)[:200], expected=str(m_tai)[:200])
        gen = []
        for i in range(len(leap) + 2):
            r = core.Driver(ID).run([f"d3gleap {i}"])[0].split()
            if r[0] != "ok":
                break
            gen.append((int(r[1]), int(r[2])))
        if m_tai != gen or gen != leap:
            out.fail("generated-leap-table", "Generated/EopTable.lean leapTable is not the Lean parse of tai-utc.dat", "tai-utc.dat", observed=str(gen)[:200], expected=str(m_tai)[:200])
        m_fin = {}
        for fn, cls in (("finals.all", Finals), ("finals2000A.all", Finals2000A)):
            m_fin[fn] = _model_fin(text[fn])
            r_fin = _real_reader(cls, text[fn], tmp, fn)
            out.count(key="reader-" + fn, kind="reader-file", file=fn, lines=len(text[fn]))
            if r_fin != m_fin[fn]:
                if isinstance(r_fin, dict) and isinstance(m_fin[fn], dict):
                    keys = sorted(set(r_fin) ^ set(m_fin[fn]))[:3] or [k for k in sorted(r_fin) if r_fin[k] != m_fin[fn][k]][:3]
                    what = {k: (r_fin.get(k), m_fin[fn].get(k)) for k in keys}
                else:
                    what = (str(r_fin)[:100], str(m_fin[fn])[:100])
                out.fail("reader-" + fn, f"{cls.__name__} reader and Model/EopFile.lean differ on tests/data/pole/{fn}", fn, observed=what)
        if all(isinstance(m_fin[fn], dict) for fn in m_fin):
            merged = {d: m_fin["finals2000A.all"].get(d) for d in m_fin["finals.all"]}
            if merged != ut1:
                out.fail("generated-finals-table", "Generated/EopTable.lean ut1Raw is not the Lean parse of the finals files (days of finals, values of finals2000A)", "finals",
                         observed=len(merged), expected=len(ut1))
        # perturbed text
        for k in range(ctx.n(120, 600)):
            if k % 3 == 0:
                lines = list(text["tai-utc.dat"][rng.randint(0, 30):][:rng.randint(1, 12)])
                cls, name = TaiUtc, "tai-utc.dat"
                i = rng.randrange(len(lines))
                how = rng.choice(["empty-line", "blank-line", "drop-field", "extra-blanks", "bad-jd", "bad-value", "none", "jd-whole", "value-int"])
                f = lines[i].split()
                if how == "empty-line":
                    lines.insert(i, "")
                elif how == "blank-line":
                    lines.insert(i, "   ")
                elif how == "drop-field":
                    lines[i] = " ".join(f[:rng.randint(3, 6)])
                elif how == "extra-blanks":
                    lines[i] = "   " + "    ".join(f) + "  "
                elif how == "bad-jd":
                    lines[i] = lines[i].replace(f[4], f[4].replace(".", ":"))
                elif how == "bad-value":
                    lines[i] = " ".join(f[:6] + ["1.2.3"] + f[7:])
                elif how == "jd-whole":
                    lines[i] = " ".join(f[:4] + [f[4].split(".")[0] + rng.choice([".0", ".5", ".9", ""])] + f[5:])
                elif how == "value-int":
                    lines[i] = " ".join(f[:6] + [rng.choice(["37", "37.", "-1.5", "+2.25", ".5"])] + f[7:])
                model = _model_tai(lines)
            else:
                fn = rng.choice(["finals.all", "finals2000A.all"])
                cls, name = (Finals, fn) if fn == "finals.all" else (Finals2000A, fn)
                at = rng.choice([0, len(text[fn]) - 40, rng.randrange(len(text[fn]) - 40), max(0, len(m_fin[fn]) - 5 if isinstance(m_fin[fn], dict) else 0)])
                lines = list(text[fn][at:at + rng.randint(2, 25)])
                i = rng.randrange(1, len(lines))
                how = rng.choice(["blank-ut1", "blank-x", "blank-y", "truncate", "bad-mjd", "shift", "none", "ut1-sign", "dup-day", "mjd-frac"])
                ln = lines[i]
                if how == "blank-ut1":
                    lines[i] = ln[:58] + " " * 10 + ln[68:]
                elif how == "blank-x":
                    lines[i] = ln[:18] + " " * 9 + ln[27:]
                elif how == "blank-y":
                    lines[i] = ln[:37] + " " * 9 + ln[46:]
                elif how == "truncate":
                    lines[i] = ln[:rng.choice([16, 30, 50, 60, 66, 70])]
                elif how == "bad-mjd":
                    lines[i] = ln[:7] + " 4x684.00"[:8] + ln[15:]
                elif how == "shift":
                    lines[i] = ln[:57] + ln[58:]
                elif how == "ut1-sign":
                    lines[i] = ln[:58] + ("%10s" % rng.choice(["-0.1234567", "+0.7654321", " .5000000", "0.1", "-.25"])) + ln[68:]
                elif how == "dup-day":
                    lines.insert(i, lines[i - 1][:58] + ("%10.7f" % rng.uniform(-0.9, 0.9)) + lines[i - 1][68:])
                elif how == "mjd-frac":
                    lines[i] = ln[:7] + ("%8.2f" % (float(ln[7:15]) + rng.choice([0.25, 0.5, 0.99]))) + ln[15:]
                model = _model_fin(lines)
            real = _real_reader(cls, lines, tmp, name)
            out.count(key=("reader", name, how, tuple(lines)), kind="reader-perturbed", file=name, how=how,
                      reply=(real if isinstance(real, str) else "table"))
            if real == "keyerror":
                continue
            if real != model:
                out.fail(f"reader-perturbed:{name}:{how}", f"{cls.__name__} reader and Model/EopFile.lean differ on a perturbed file", {"file": name, "how": how, "lines": lines},
                         observed=str(real)[:300], expected=str(model)[:300])


def exact_minus_utc_ticks(scale, day):
    """own clock minus UTC clock in ticks for a UTC day, from the independent tables (None for TDB)"""
    tai = leap_at(day)
    if tai is None:
        return None
    return {"UTC": 0, "TAI": tai, "TT": tai + 321840000, "GPS": tai - 190000000, "UT1": tables()[1].get(day)}.get(scale)


def dbl_correspondence(ctx, out):
    """which EOP record the constructor picks, decided by doubles: the real `Date(d, s)`, `Date(mjd)`, `Date(datetime)` against
    Model/DateDbl.lean (the same computation in exact binary64 arithmetic) — exactly, on the set where the exact-day model of
    Model/Date.lean and the code can differ: own clock readings whose UTC reading is within 2 us of UTC midnight, on a 0.1-us
    grid, +- a few ulps of the double at midnight itself, and anywhere else in the day as control.  Every scale but TDB (its term
    goes through numpy.sin)."""
    from beyond.dates import Date
    rng = ctx.rng
    _, ut1, first, last = tables()
    lds = [d for d in leap_days() if first + 3 <= d <= last - 3]
    days = lds[-4:] + [rng.choice(lds)] + [rng.randint(first + 3, last - 3) for _ in range(ctx.n(25, 250))]
    cases = []      # (line, thunk, kind, position)
    for day in days:
        for sc in ("UTC", "TAI", "TT", "GPS", "UT1"):
            off = exact_minus_utc_ticks(sc, day)
            if off is None:
                continue
            # own clock reading (ticks since own midnight of `day`) of 00:00:00 UTC of `day`
            deltas = [k for k in range(-20, 21, 1)] if rng.random() < 0.35 else sorted({0, 1, -1, rng.randint(-20, 20), rng.randint(-8, 8), rng.randint(-8, 8)})
            for dl in deltas:
                t = off + dl                     # ticks after own midnight of `day`
                d, tt = day + t // DAY_T, t % DAY_T
                sf = tt / 1e7
                pos = "utc-midnight" if dl == 0 else "within-0.7us" if abs(dl) < 7 else "within-2us"
                cases.append((d, sf, sc, "day-seconds", pos))
                if dl == 0:
                    for n in (-2, -1, 1, 2):     # neighbouring doubles of the reading at UTC midnight
                        x = sf
                        for _ in range(abs(n)):
                            x = math.nextafter(x, math.inf if n > 0 else -math.inf)
                        cases.append((d, x, sc, "day-seconds", "utc-midnight-ulps"))
                    if sc == "UTC":
                        cases.append((d, -1e-7, sc, "day-seconds", "negative-seconds"))
                        cases.append((d - 1, 86400.0, sc, "day-seconds", "seconds-86400"))
                if rng.random() < 0.25:
                    mjd = d + sf / 86400.0
                    dd = int(mjd)
                    cases.append((dd, (mjd - dd) * 86400, sc, "mjd-float", pos))
            cases.append((day, rng.uniform(100.0, 86300.0), sc, "day-seconds", "mid-day"))
            # Date(datetime): whole microseconds around the same place
            for dl_us in (-2, -1, 0, 1, 2):
                us = day * DAY_US + off // TICK + dl_us
                cases.append((us, None, sc, "datetime", "utc-midnight" if dl_us == 0 and off % TICK == 0 else "within-2us"))
    lines = []
    for a, sf, sc, form, pos in cases:
        if form == "datetime":
            lines.append(f"d3dbldt error {sc} {a}")
        else:
            n, dn = sf.as_integer_ratio()
            lines.append(f"d3dbl error {sc} {a} {n} {dn}")
    model = core.Driver(ID).run(lines)
    # the exact-day model (integer ticks) on the same inputs where the seconds are a whole number of ticks: it may differ from
    # the binary64 model only when the UTC reading is less than 0.7 us from midnight (Props/C03d.lean day_of_double)
    tick_cases = [(i, c) for i, c in enumerate(cases) if c[3] == "day-seconds" and c[1] >= 0 and abs(c[1] * 1e7 - round(c[1] * 1e7)) < 1e-4]
    exact = core.Driver(ID).run([f"d3mk error {c[2]} {c[0]} {round(c[1] * 1e7)}" for _, c in tick_cases])
    for (i, c), e in zip(tick_cases, exact):
        m = model[i]
        same = (e.split()[5:7] == m.split()[1:3]) if (e.startswith("ok") and m.startswith("ok")) else (e.startswith("err") == (m == "raised"))
        out.count(key=("dbl-vs-exact", lines[i]), kind="double-day-vs-exact-day", position=c[4], agree=same)
        if not same and c[4] not in ("utc-midnight", "within-0.7us", "utc-midnight-ulps"):
            out.fail(f"double-day-vs-exact:{c[4]}", "the binary64 model and the exact-day model pick different records 0.7 us or more away from UTC midnight", lines[i], observed=m, expected=e)
    set_policy("error")
    try:
        for (a, sf, sc, form, pos), line, m in zip(cases, lines, model):
            try:
                if form == "datetime":
                    x = mkdate(a, sc)
                elif form == "mjd-float":
                    x = Date(a + sf / 86400.0, scale=sc) if int(a + sf / 86400.0) == a and (a + sf / 86400.0 - a) * 86400 == sf else Date(a, sf, scale=sc)
                else:
                    x = Date(a, sf, scale=sc)
                real = "ok %d %d" % (round(x.eop.tai_utc * 1e7), round(x.eop.ut1_utc * 1e7))
            except Exception:  # noqa: BLE001
                real = "raised"
            mm = " ".join(m.split()[:3]) if m.startswith("ok") else m
            branch = "-" if not m.startswith("ok") else ("utc" if m.split()[4] == "-" else "second-lookup" if m.split()[4] != m.split()[3] else "same-day")
            out.count(key=line, kind="double-day", scale=sc, form=form, position=pos, branch=branch)
            if real != mm:
                out.fail(f"double-day:{form}:{pos}", "the EOP record picked by the constructor (day number from a double) differs from the exact binary64 model", line, observed=real, expected=m)
    finally:
        set_policy("pass")


def correspondence(ctx):
    setup()
    from beyond.dates import Date, timedelta
    from beyond.dates.date import get_scale
    from beyond.dates.eop import EopDb, Eop
    out = Outcome()
    rng = ctx.rng
    _, _, first, last = tables()
    cases = []     # (line, thunk giving the real reply, exact?, kind)
    N = ctx.n(4, 40)

    def nonuni(*sc):
        return bool(set(sc) & {"UT1", "TDB"})

    # constructor from a datetime, all scales, inside the tables (also around leap seconds)
    for sc in SCALES:
        for _ in range(120 * N):
            us = gen_any_label(rng, sc)
            cases.append((f"d3dt pass {sc} {us}", (lambda sc=sc, us=us: real_try(lambda: mkdate(us, sc))), not nonuni(sc), "ctor-datetime"))
    # constructor (d, s) with seconds outside [0, 86400) and dates outside the tables, three policies
    for _ in range(250 * N):
        sc = rng.choice(SCALES)
        pol = rng.choice(["pass", "warning", "error"])
        r = rng.random()
        if r < 0.3:
            d = rng.choice([first - 1, first, first + 1, last - 1, last, last + 1, last + 2, 30000, 37299, 37300, 41316, 41317, 60000])
        else:
            d = rng.randint(first - 30, last + 30)
        s_us = rng.choice([0, 1, DAY_US - 1, DAY_US, DAY_US + 1, -1, rng.randint(-3 * DAY_US, 3 * DAY_US), rng.randint(0, DAY_US - 1), rng.randint(0, 70 * 10**6), DAY_US - rng.randint(1, 70 * 10**6)])

        def th(sc=sc, pol=pol, d=d, s_us=s_us):
            set_policy(pol)
            try:
                return real_try(lambda: Date(d, s_us / 1e6, scale=sc))
            finally:
                set_policy("pass")
        cases.append((f"d3mk {pol} {sc} {d} {s_us * TICK}", th, not nonuni(sc), "ctor-day-seconds"))
    # change_scale, all ordered pairs
    for sa in SCALES:
        for sb in SCALES:
            for _ in range(25 * N):
                us = gen_any_label(rng, sa)
                cases.append((f"d3chg pass {sa} {us} {sb}", (lambda sa=sa, sb=sb, us=us: real_try(lambda: mkdate(us, sa).change_scale(sb))), not nonuni(sa, sb), "change-scale"))
    # date + timedelta
    for sc in SCALES:
        for _ in range(100 * N):
            us = gen_any_label(rng, sc)
            t = gen_td(rng)
            cases.append((f"d3add pass {sc} {us} {t}", (lambda sc=sc, us=us, t=t: real_try(lambda: mkdate(us, sc) + timedelta(microseconds=t))), not nonuni(sc), "add"))
            if rng.random() < 0.3:
                cases.append((f"d3add pass {sc} {us} {-t}", (lambda sc=sc, us=us, t=t: real_try(lambda: mkdate(us, sc) - timedelta(microseconds=t))), not nonuni(sc), "sub-timedelta"))
    # the same operations AT the tables' abscissae: every leap-second day inside the finals files, exactly 00:00:00 of the
    # UTC reading, +-1 us, +-1 s (UTC dates), +-5 us, +-1 s (other scales: a double decides the UTC day within 3 us), and the
    # label's own midnight of that day; every constructor form
    for ld in leap_days():
        if not (first + 2 <= ld <= last - 2):
            continue
        for sc in SCALES:
            deltas = (-10**6, -1, 0, 1, 10**6) if sc == "UTC" else (-10**6, -5, 5, 10**6)
            labels = [ld * DAY_US + approx_minus_utc(sc, ld if dl >= 0 else ld - 1) + dl for dl in deltas]
            if sc not in ("UTC", "UT1"):
                labels += [ld * DAY_US + dl for dl in (-1, 0, 1)]
            for us in labels:
                cases.append((f"d3dt pass {sc} {us}", (lambda sc=sc, us=us: real_try(lambda: mkdate(us, sc))), not nonuni(sc), "ctor-datetime-at-leap-entry"))
                # a UT1 / TDB date whose UTC reading is within a fraction of a microsecond of midnight gets either neighbouring
                # record (the day is decided by a double, NOT_COVERED): from exactly 00:00:00 UTC go to the uniform scales only
                sb = rng.choice(UNIFORM if sc == "UTC" and min(us % DAY_US, DAY_US - us % DAY_US) <= 1 else SCALES)
                cases.append((f"d3chg pass {sc} {us} {sb}", (lambda sc=sc, sb=sb, us=us: real_try(lambda: mkdate(us, sc).change_scale(sb))), not nonuni(sc, sb), "change-scale-at-leap-entry"))
                t = rng.choice([1, -1, 10**6, -10**6, 3600 * 10**6, gen_td(rng)])
                cases.append((f"d3add pass {sc} {us - t} {t}", (lambda sc=sc, us=us, t=t: real_try(lambda: mkdate(us - t, sc) + timedelta(microseconds=t))), not nonuni(sc), "add-onto-leap-entry"))
        for pol in ("pass", "error"):
            def th(pol=pol, ld=ld):
                set_policy(pol)
                try:
                    return real_try(lambda: Date(ld))
                finally:
                    set_policy("pass")
            cases.append((f"d3mk {pol} UTC {ld} 0", th, True, "ctor-int-mjd-at-leap-entry"))
    lines = [c[0] for c in cases]
    model = core.Driver(ID).run(lines)
    for (line, th, exact, kind), m in zip(cases, model):
        real = th()
        out.count(key=line, kind=kind, exact=exact, reply=real.split()[0] + ("" if real.startswith("ok") else " " + real.split()[1]))
        if not same_reply(real, m, exact):
            out.fail("date-" + kind, f"{kind}: real Date and Model/Date.lean differ", line, observed=real, expected=m)
        out.sample({"line": line, "reply": m}, limit=3)

    # comparisons, hash, difference of two dates
    cmp_cases = []
    for _ in range(600 * N):
        sa, sb = rng.choice(SCALES), rng.choice(SCALES)
        ua = gen_label(rng, sa)
        delta = rng.choice([0, 0, 1, -1, 2, -3, 10**6, -10**6, rng.randint(-10**8, 10**8)])
        day = ua // DAY_US
        ub = ua - approx_minus_utc(sa, day) + approx_minus_utc(sb, day) + delta
        cmp_cases.append((sa, ua, sb, ub))
    model = core.Driver(ID).run([f"d3cmp pass {sa} {ua} {sb} {ub}" for sa, ua, sb, ub in cmp_cases])
    for (sa, ua, sb, ub), m in zip(cmp_cases, model):
        x, y = mkdate(ua, sa), mkdate(ub, sb)
        real = "ok %d %d %d %d %d %d %d" % (td_us(x - y), x < y, x <= y, x == y, x >= y, x > y, hash(x) == hash(y))
        mt = m.split()
        gap = abs(int(mt[-1]))            # model distance of the instants in ticks
        exact = not nonuni(sa, sb)
        out.count(key=("cmp", sa, ua, sb, ub), kind="compare", exact=exact, order=("=" if gap == 0 else "<" if mt[2] == "1" else ">"))
        if exact or gap >= 20:
            ok = real.split()[2:] == mt[2:-1] and abs(int(real.split()[1]) - int(mt[1])) <= (0 if exact else 2)
        else:
            ok = abs(int(real.split()[1]) - int(mt[1])) <= 2
        if not ok:
            out.fail("date-compare", "comparison / hash / difference of two dates differ from the model", f"d3cmp pass {sa} {ua} {sb} {ub}", observed=real, expected=m)

    # Timescale.offset with arbitrary EOP values
    off_cases = []
    for sa in SCALES:
        for sb in SCALES:
            for _ in range(4 * N):
                num = gen_label(rng, sa) * TICK
                tai = rng.randint(10, 40) * 10**7
                ut1 = rng.randint(-9 * 10**6, 9 * 10**6)
                off_cases.append((sa, sb, num, tai, ut1))
    model = core.Driver(ID).run([f"d3off {a} {b_} {n} {t} {u}" for a, b_, n, t, u in off_cases])
    for (sa, sb, num, tai, ut1), m in zip(off_cases, model):
        e = Eop(x=0, y=0, dx=0, dy=0, deps=0, dpsi=0, lod=0, ut1_utc=ut1 / 1e7, tai_utc=tai / 1e7)
        real = get_scale(sa).offset(num / DAY_T, sb, e)
        out.count(key=("off", sa, sb, num), kind="offset", pair=f"{sa}>{sb}")
        if not m.startswith("ok ") or abs(round(real * 1e7) - int(m.split()[1])) > (1 if "TDB" in (sa, sb) else 0):
            out.fail("scale-offset", "Timescale.offset differs from the model", f"d3off {sa} {sb} {num} {tai} {ut1}", observed=real, expected=m)

    # the TDB-TT formula translated from the source (float instantiation) vs the method
    tdb_cases = [rng.uniform(40000, 60000) for _ in range(200 * N)]
    model = core.Driver(ID).run([f"d3tdb {core.f2b(x)}" for x in tdb_cases])
    for x, m in zip(tdb_cases, model):
        real = float(get_scale("TDB")._scale_tdb_minus_tt(x, None))
        out.count(key=("tdb", x), kind="tdb-formula")
        if not core.close(real, core.b2f(m), rtol=0, atol=1e-12):
            out.fail("tdb-formula", "translated TDB-TT formula differs from the method", x, observed=real, expected=core.b2f(m))

    # EopDb.get: day lookup and missing-data policy
    grab = _Grab()
    log = logging.getLogger("beyond.dates.eop")
    log.addHandler(grab)
    old_level = log.level
    log.setLevel(logging.WARNING)
    eop_cases = []
    days = list(range(first - 3, last + 4)) if ctx.thorough else [rng.randint(first - 20, last + 20) for _ in range(300)] + [first - 1, first, last, last + 1]
    for day in days:
        pol = rng.choice(["pass", "warning", "error"])
        frac = rng.choice([0, 10, DAY_T - 10, rng.randrange(DAY_T)])   # the float mjd resolves 0.6 us: stay 1 us off midnight
        eop_cases.append((pol, day * DAY_T + frac))
    model = core.Driver(ID).run([f"d3eop {p} {n}" for p, n in eop_cases])
    try:
        for (pol, num), m in zip(eop_cases, model):
            set_policy(pol)
            grab.records.clear()
            try:
                e = EopDb.get(num / DAY_T)
                zero = e.tai_utc == 0 and e.ut1_utc == 0 and e.x == 0
                if grab.records:
                    real = "zero-warned" if zero else "found-but-warned"
                elif zero and not (first <= num // DAY_T <= last):
                    real = "zero-silent"
                else:
                    real = "found %d %d" % (round(e.tai_utc * 1e7), round(e.ut1_utc * 1e7))
            except Exception:
                real = "raised"
            out.count(key=("eop", pol, num), kind="eop-get", reply=real.split()[0])
            if real != m:
                out.fail("eop-get", "EopDb.get differs from the model (day lookup / policy)", f"d3eop {pol} {num}", observed=real, expected=m)
    finally:
        set_policy("pass")
        log.removeHandler(grab)
        log.setLevel(old_level)

    # the two lookups of SimpleEopDatabase separately and EopDb.get, AT the tables' own abscissae (every entry of tai-utc.dat
    # exactly, +-1 us, +-1 s, +-half a day; first / last entry; the day before the first; first / last day of the finals
    # files, holes; day boundaries — all of them in the thorough tier)
    db = EopDb.db()
    nums = [n for n in table_abscissae(rng, all_days=ctx.thorough, n_days=200) if math.floor(n / DAY_T) == n // DAY_T]
    pols = [rng.choice(["pass", "warning", "error"]) for _ in nums]
    m_tai = core.Driver(ID).run([f"d3tai {n}" for n in nums])
    m_fin = core.Driver(ID).run([f"d3fin {n}" for n in nums])
    m_get = core.Driver(ID).run([f"d3eop {p} {n}" for p, n in zip(pols, nums)])
    m_lnx = core.Driver(ID).run([f"d3lnx {n}" for n in nums])
    from beyond.dates.eop import TaiUtc
    reader = TaiUtc(os.path.join(pole_dir(), "tai-utc.dat"))
    for n, mt, ml in zip(nums, m_tai, m_lnx):
        mjd = n / DAY_T
        pos = lookup_position(n)
        v = reader[mjd]
        real = "err key" if v is None else "ok %d" % round(v * 1e7)      # TaiUtc.__getitem__ returns None where tai_utc raises
        past, fut = reader.get_last_next(mjd)
        real2 = "ok " + " ".join("none none" if e[0] is None else "%d %d" % (e[0], round(e[1] * 1e7)) for e in (past, fut))
        out.count(key=("lnx", n), kind="taiutc-reader-lookup", position=pos)
        if real != mt:
            out.fail("taiutc-getitem:" + pos, "TaiUtc.__getitem__ differs from taiUtcAt on the regenerated table", f"d3tai {n}", observed=real, expected=mt)
        if real2 != ml:
            out.fail("taiutc-last-next:" + pos, "TaiUtc.get_last_next differs from the model", f"d3lnx {n}", observed=real2, expected=ml)
    log.addHandler(grab)
    log.setLevel(logging.WARNING)
    try:
        for n, pol, mt, mf, mg in zip(nums, pols, m_tai, m_fin, m_get):
            mjd = n / DAY_T
            pos = lookup_position(n)
            try:
                real = "ok %d" % round(db.tai_utc(mjd) * 1e7)
            except KeyError:
                real = "err key"
            out.count(key=("tai", n), kind="tai-utc-lookup", position=pos, reply=real.split()[0])
            if real != mt:
                out.fail("tai-utc-lookup:" + pos, "SimpleEopDatabase.tai_utc differs from taiUtcAt on the regenerated table", f"d3tai {n}", observed=real, expected=mt)
            try:
                real = "ok %d" % round(db.finals(mjd)["ut1_utc"] * 1e7)
            except KeyError:
                real = "err key"
            out.count(key=("fin", n), kind="finals-lookup", position=pos, reply=real.split()[0])
            if real != mf:
                out.fail("finals-lookup:" + pos, "SimpleEopDatabase.finals differs from the day lookup of the model", f"d3fin {n}", observed=real, expected=mf)
            set_policy(pol)
            grab.records.clear()
            try:
                e = EopDb.get(mjd)
                zero = e.tai_utc == 0 and e.ut1_utc == 0 and e.x == 0
                if grab.records:
                    real = "zero-warned" if zero else "found-but-warned"
                elif zero and not (first <= n // DAY_T <= last and leap_at(n // DAY_T) is not None):
                    real = "zero-silent"
                else:
                    real = "found %d %d" % (round(e.tai_utc * 1e7), round(e.ut1_utc * 1e7))
            except Exception:
                real = "raised"
            out.count(key=("eopb", pol, n), kind="eop-get-at-abscissa", position=pos, reply=real.split()[0])
            if real != mg:
                out.fail("eop-get:" + pos, "EopDb.get differs from the model (day lookup / policy) at a table abscissa", f"d3eop {pol} {n}", observed=real, expected=mg)
    finally:
        set_policy("pass")
        log.removeHandler(grab)
        log.setLevel(old_level)

    readers_correspondence(ctx, out)
    dbl_correspondence(ctx, out)

    # DateRange vs the model on instants
    rng_cases = []
    for sc, us, step, dur, incl, _ in range_grid():
        rng_cases.append((sc, us, dur, step, incl, [us - 1, us, us + 1, us + dur - 1, us + dur, us + dur + 1, us + dur // 2]))
    for _ in range(300 * N):
        sc = rng.choice(UNIFORM)
        us = gen_label(rng, sc)
        step = rng.choice([1, -1]) * rng.choice([1, 10**6, 60 * 10**6, rng.randint(1, 10**7), rng.randint(1, 10**10)])
        r = rng.random()
        dur = rng.randint(0, 40) * step if r < 0.4 else 0 if r < 0.5 else int(step * rng.uniform(0, 40))
        if rng.random() < 0.12:
            dur = -dur if dur else -step
        if rng.random() < 0.04:
            step = 0
        incl = rng.random() < 0.5
        if in_leap_window(sc, us + dur) or not no_leap_between(sc, us, us + dur + step):
            continue
        probes = [us - 1, us, us + 1, us + dur - 1, us + dur, us + dur + 1, us + dur // 2]
        rng_cases.append((sc, us, dur, step, incl, probes))
    lines = []
    reals = []
    for sc, us, dur, step, incl, probes in rng_cases:
        start, stop = mkdate(us, sc), mkdate(us + dur, sc)
        a, b_ = us_of(start._datetime), us_of(stop._datetime)
        shift = a - us
        lines.append(f"d3rng {a} {b_} {step} {int(incl)} " + " ".join(str(p + shift) for p in probes))
        try:
            rg = Date.range(start, stop, timedelta(microseconds=step), inclusive=incl)
            items = list(rg)
            reals.append(f"ok {len(rg)} I " + ",".join(str(us_of(x._datetime)) for x in items) + " C " + "".join(str(int(mkdate(p, sc) in rg)) for p in probes)
                         + " Y " + "".join(str(int(x in rg)) for x in items))
        except ValueError as e:
            reals.append("err null-step" if "Null" in str(e) else "err incoherent")
    model = core.Driver(ID).run(lines)
    for c, line, real, m in zip(rng_cases, lines, reals, model):
        out.count(key=line, kind="daterange", step=("0" if c[3] == 0 else "+" if c[3] > 0 else "-"), inclusive=c[4], reply=real.split()[0] + (" " + real.split()[1] if real.startswith("err") else ""))
        if real != m:
            out.fail("daterange", "DateRange (len, iteration, membership) differs from the model", line, observed=real[:300], expected=m[:300])
    return out
