"""C12 — TLE text round-trips and is validated."""
import ast
import os
from fractions import Fraction

from harness import core
from harness.core import Outcome

ID = "C12"
LEAN_TARGETS = ["BeyondVerif.Props.C12", "BeyondVerif.Witness.C12"]
THEOREMS = []
LEVEL_TEXT = ""
LEVEL_NOTE = ""
TECHNIQUE = ""
TRUSTED = []
ASSUMPTIONS = []
NOT_COVERED = []
OPEN = []
RULE = ""

TLE_PY = os.path.join(core.REPO, "beyond", "io", "tle.py")

# ---------------------------------------------------------------- structured TLE records (integers of the printed unit)
#
# A record is a dict
#   name    str ('' = two-line format)
#   norad   0..99999
#   cospar  '' or 'YYNNNP', 'YYNNNPP', 'YYNNNPPP'
#   yy      0..99   two-digit epoch year (57..99 -> 19yy, 00..56 -> 20yy)
#   day8    day of year * 1e8   (1e8 .. <(366|367)e8)
#   ndot    (neg, m8)           ndot/2 = +-m8 * 1e-8 rev/day^2
#   ndd, bstar (neg, m5, exp)   +-0.m5 * 10^exp, m5 in 10000..99999 or (False, 0, 0)
#   elnb    0..9999
#   i4, raan4, argp4, ma4       1e-4 degree, 0..3599999
#   e7      0..9999999
#   n8      1e-8 rev/day, 0..17e8(-1)
#   revs    0..99999

NAME_ALPHABET = "ABCDEFGHIJKLMNOPQRSTUVWXYZ0123456789 ()-/.abcdxyz&+"
UPPER = "ABCDEFGHIJKLMNOPQRSTUVWXYZ"


def edge_or(rng, lo, hi, edges, p=0.3):
    if rng.random() < p:
        return rng.choice(edges)
    return rng.randint(lo, hi)


def is_leap(y):
    return y % 4 == 0 and (y % 100 != 0 or y % 400 == 0)


def full_year(yy):
    return yy + (1900 if yy >= 57 else 2000)


def gen_unfl(rng):
    r = rng.random()
    if r < 0.15:
        return (False, 0, 0)
    neg = rng.random() < 0.5
    m5 = edge_or(rng, 10000, 99999, [10000, 99999, 10001, 50000, 99990])
    exp = edge_or(rng, -9, 9, [-9, 9, 0, -1, 1, -4])
    return (neg, m5, exp)


def gen_name(rng):
    while True:
        k = rng.randint(1, 24)
        s = "".join(rng.choice(NAME_ALPHABET) for _ in range(k)).strip()
        if not s or s.startswith(("0 ", "1 ", "2 ", "#")):
            continue
        return s


def gen_rec(rng, named=None):
    yy = edge_or(rng, 0, 99, [57, 56, 0, 99, 58, 55, 1])
    ndays = 366 if is_leap(full_year(yy)) else 365
    day = edge_or(rng, 1, ndays, [1, ndays, 59, 60, 61])
    frac = edge_or(rng, 0, 10**8 - 1, [0, 10**8 - 1, 1, 5 * 10**7, 51782528])
    if rng.random() < 0.25:
        cospar = ""
    else:
        cy = edge_or(rng, 0, 99, [57, 56, 0, 99])
        cospar = "%02d%03d" % (cy, edge_or(rng, 1, 999, [1, 999])) + "".join(rng.choice(UPPER) for _ in range(rng.choice([1, 1, 2, 3])))
    named = (rng.random() < 0.6) if named is None else named
    return {
        "name": gen_name(rng) if named else "",
        "norad": edge_or(rng, 0, 99999, [0, 1, 99999, 14, 25544, 10000, 9999]),
        "cospar": cospar,
        "yy": yy,
        "day8": day * 10**8 + frac,
        "ndot": (rng.random() < 0.5, edge_or(rng, 0, 10**8 - 1, [0, 1, 10**8 - 1, 2182, 10**7])),
        "ndd": gen_unfl(rng),
        "bstar": gen_unfl(rng),
        "elnb": edge_or(rng, 0, 9999, [0, 1, 9, 10, 99, 100, 999, 1000, 9999, 2927]),
        "i4": edge_or(rng, 0, 3599999, [0, 1, 1800000, 3599999, 900000, 99999, 100000]),
        "raan4": edge_or(rng, 0, 3599999, [0, 1, 1800000, 3599999, 99999, 100000, 999999, 1000000]),
        "argp4": edge_or(rng, 0, 3599999, [0, 1, 1800000, 3599999, 9999, 10000]),
        "ma4": edge_or(rng, 0, 3599999, [0, 1, 1800000, 3599999]),
        "e7": edge_or(rng, 0, 9999999, [0, 1, 9999999, 6703, 1000000, 999999]),
        "n8": edge_or(rng, 0, 17 * 10**8 - 1, [0, 1, 17 * 10**8 - 1, 10**9, 10**9 - 1, 10**8, 1572125391, 100273791]),
        "revs": edge_or(rng, 0, 99999, [0, 1, 9, 10, 99999, 9999, 10000, 56353]),
    }


def spec_checksum(body):
    """modulo-10 checksum as the TLE format documents it: digits count their value, '-' counts 1, everything else 0"""
    return sum((ord(c) - 48) if "0" <= c <= "9" else (1 if c == "-" else 0) for c in body[:68]) % 10


def fmt_unfl(u):
    neg, m5, exp = u
    if m5 == 0:
        return "00000-0"          # the writer has a single rendering of zero (sign lost, as -0.0 == 0.0)
    return ("-" if neg else "") + "%05d" % m5 + "%+d" % exp


def fmt_ndot(nd):
    neg, m8 = nd
    return ("-" if neg else " ") + ".%08d" % m8


def spec_lines(r):
    """the two lines of record r, written from the column table of the format (independent of beyond)"""
    l1 = "1 %05dU %-8s %02d%03d.%08d %10s %8s %8s 0 %4d" % (
        r["norad"], r["cospar"], r["yy"], r["day8"] // 10**8, r["day8"] % 10**8, fmt_ndot(r["ndot"]), fmt_unfl(r["ndd"]), fmt_unfl(r["bstar"]), r["elnb"])
    l2 = "2 %05d %3d.%04d %3d.%04d %07d %3d.%04d %3d.%04d %2d.%08d%5d" % (
        r["norad"], r["i4"] // 10**4, r["i4"] % 10**4, r["raan4"] // 10**4, r["raan4"] % 10**4, r["e7"],
        r["argp4"] // 10**4, r["argp4"] % 10**4, r["ma4"] // 10**4, r["ma4"] % 10**4, r["n8"] // 10**8, r["n8"] % 10**8, r["revs"])
    assert len(l1) == 68 and len(l2) == 68, (l1, l2)
    return l1 + str(spec_checksum(l1)), l2 + str(spec_checksum(l2))


def spec_text(r):
    l1, l2 = spec_lines(r)
    return (r["name"] + "\n" if r["name"] else "") + l1 + "\n" + l2


def unfl_value(u):
    neg, m5, exp = u
    return (-1 if neg else 1) * Fraction(m5, 10**5) * Fraction(10) ** exp


def rec_cospar_id(r):
    c = r["cospar"]
    return "" if not c else "%d-%s" % (full_year(int(c[:2])), c[2:])


def rec_epoch_us(r):
    """microseconds since 1 January 00:00 of the epoch year"""
    return (r["day8"] - 10**8) * 864


# ---------------------------------------------------------------- adapters to the real API

def real_parse(text):
    from beyond.io.tle import Tle
    return Tle(text)


def real_write_from_tle(tle):
    from beyond.io.tle import Tle
    return str(Tle.from_orbit(tle.orbit()))


def real_orbit(vals, date, **data):
    from beyond.orbits import Orbit
    return Orbit(list(vals), date, "TLE", "TEME", "Sgp4", **data)


def rec_to_orbit(r):
    """orbit whose floats are the decimal values of the record (what Tle.orbit() would produce)"""
    import math
    from datetime import datetime, timedelta
    from beyond.dates import Date
    dt = datetime(full_year(r["yy"]), 1, 1) + timedelta(microseconds=rec_epoch_us(r))
    rad = lambda k: math.radians(k / 1e4)
    data = {
        "bstar": float(unfl_value(r["bstar"])), "ndot": (-(r["ndot"][1] / 1e8 * 2) if r["ndot"][0] else r["ndot"][1] / 1e8 * 2), "ndotdot": float(unfl_value(r["ndd"])) * 6,
        "name": r["name"], "cospar_id": rec_cospar_id(r), "norad_id": r["norad"], "element_nb": r["elnb"], "revolutions": r["revs"], "type": 0,
    }
    return real_orbit([rad(r["i4"]), rad(r["raan4"]), r["e7"] / 1e7, rad(r["argp4"]), rad(r["ma4"]), r["n8"] / 1e8 * 2 * math.pi / 86400.0], Date(dt), **data)


def tle_fields_mismatch(tle, r, unit_tol=1e-3):
    """compare a parsed real Tle with the integer record: every numeric field to 1e-3 of its printed unit, the epoch to 2 us"""
    import math
    from datetime import datetime
    bad = []

    def chk(nm, got, want):
        if got != want:
            bad.append((nm, got, want))

    def near(nm, got, want, unit):
        if not (abs(Fraction(got) - want) <= Fraction(unit) * Fraction(unit_tol)):
            bad.append((nm, got, float(want)))
    chk("name", tle.name, r["name"])
    chk("norad_id", tle.norad_id, r["norad"])
    chk("classification", tle.classification, "U")
    chk("cospar_id", tle.cospar_id, rec_cospar_id(r))
    chk("element_nb", tle.element_nb, r["elnb"])
    chk("revolutions", tle.revolutions, r["revs"])
    chk("type", tle.type, 0)
    us = (tle.epoch.datetime - datetime(full_year(r["yy"]), 1, 1))
    us = (us.days * 86400 + us.seconds) * 10**6 + us.microseconds
    if abs(us - rec_epoch_us(r)) > 2:
        bad.append(("epoch_us", us, rec_epoch_us(r)))
    if tle.epoch.scale.name != "UTC":
        bad.append(("epoch scale", tle.epoch.scale.name, "UTC"))
    near("ndot", tle.ndot, (-1 if r["ndot"][0] else 1) * Fraction(r["ndot"][1], 10**8) * 2, Fraction(2, 10**8))
    for nm, key, mul in (("ndotdot", "ndd", 6), ("bstar", "bstar", 1)):
        near(nm, getattr(tle, nm), unfl_value(r[key]) * mul, Fraction(mul, 10**5) * Fraction(10) ** r[key][2])
    for nm, key in (("i", "i4"), ("Ω", "raan4"), ("ω", "argp4"), ("M", "ma4")):
        near(nm, math.degrees(getattr(tle, nm)), Fraction(r[key], 10**4), Fraction(1, 10**4))
    near("e", tle.e, Fraction(r["e7"], 10**7), Fraction(1, 10**7))
    near("n", tle.n * 86400 / (2 * math.pi), Fraction(r["n8"], 10**8), Fraction(1, 10**8))
    return bad


# ---------------------------------------------------------------- corruptions

def digit_corruptions(line):
    """every (position, replacement) with line[position] a digit and replacement a different digit"""
    for p, c in enumerate(line):
        if c.isdigit():
            for d in "0123456789":
                if d != c:
                    yield p, d


def corrupt_digit(line, p, d):
    return line[:p] + d + line[p + 1:]


def length_corruptions(rng, line, n):
    """deletions and insertions (interior and leading; trailing blanks are stripped by design and are not corruptions)"""
    out = [("lead-blank", " " + line)]
    for _ in range(n):
        k = rng.random()
        if k < 0.4:
            p = rng.randrange(len(line))
            out.append(("delete", line[:p] + line[p + 1:]))
        elif k < 0.8:
            p = rng.randrange(1, len(line))
            out.append(("insert", line[:p] + rng.choice("0123456789 A.-") + line[p:]))
        elif k < 0.9:
            out.append(("lead-blank", " " * rng.randint(1, 3) + line))
        else:
            out.append(("truncate", line[:rng.randrange(0, len(line))]))
    return out


def linenum_corruptions(line):
    return [c + line[1:] for c in "0123456789 AX" if c != line[0]]


def try_parse(text):
    """-> ('ok', tle) | ('parse-error', msg) | ('value-error', msg) | ('other:<type>', msg)"""
    from beyond.io.tle import Tle, TleParseError
    try:
        return "ok", Tle(text)
    except TleParseError as e:
        return "parse-error", str(e)
    except ValueError as e:
        return "value-error", str(e)
    except Exception as e:  # noqa
        return "other:" + type(e).__name__, str(e)


def same_elements(a, b):
    return (a.norad_id, a.classification, a.cospar_id, a.epoch, a.ndot, a.ndotdot, a.bstar, a.element_nb, a.revolutions, a.type, a.to_list()) == \
           (b.norad_id, b.classification, b.cospar_id, b.epoch, b.ndot, b.ndotdot, b.bstar, b.element_nb, b.revolutions, b.type, b.to_list())


# ---------------------------------------------------------------- oracle pieces

def o_parse_write(out, r):
    """clause 1: parse a well-formed TLE, write the orbit back: identical text, fields preserved"""
    text = spec_text(r)
    kind, tle = try_parse(text)
    out.count(key=text, kind="parse-write", named=bool(r["name"]), cospar=len(r["cospar"]), elnb_digits=len(str(r["elnb"])))
    if kind != "ok":
        out.fail("wellformed-rejected", "a well-formed TLE is rejected", {"text": text}, observed=f"{kind}: {tle}", expected="parsed")
        return
    bad = tle_fields_mismatch(tle, r)
    if bad:
        out.fail("parse-field-" + bad[0][0], "a parsed field differs from the printed value", {"text": text}, observed=str(bad[:3]), expected="fields equal to the printed decimals")
    if str(tle) != text:
        out.fail("str-not-identity", "str(Tle(text)) != text", {"text": text}, observed=str(tle), expected=text)
    try:
        back = real_write_from_tle(tle)
    except Exception as e:  # noqa
        out.fail("rewrite-raises", "writing the orbit of a parsed TLE raises", {"text": text}, observed=repr(e), expected=text)
        return
    if back != text:
        col = next((i for i, (a, b) in enumerate(zip(back, text)) if a != b), min(len(back), len(text)))
        lines = text.split("\n")
        off = col
        ln = 0
        for ln, l in enumerate(lines):
            if off <= len(l):
                break
            off -= len(l) + 1
        tag = ("name" if (r["name"] and ln == 0) else f"line{ln + (0 if r['name'] else 1)}-col{off}")
        out.fail("rewrite-differs-" + tag, "parse then write does not reproduce the TLE", {"text": text}, observed=back, expected=text)


def write_checks(out, orb, what, inp, name=None):
    """clause 2 on one orbit: 69 characters, checksums, parses back to the same elements (to the printed precision)"""
    import math
    from beyond.io.tle import Tle
    try:
        tle = Tle.from_orbit(orb) if name is None else Tle.from_orbit(orb, name=name)
    except ValueError as e:
        return None, str(e)
    lines = tle.text.split("\n")
    for k, l in enumerate(lines):
        if len(l) != 69:
            out.fail(f"written-length-line{k + 1}", "a written line is not 69 characters long", inp, observed=l, expected="69 characters")
        elif str(spec_checksum(l)) != l[68]:
            out.fail(f"written-checksum-line{k + 1}", "a written line carries a wrong checksum", inp, observed=l, expected=str(spec_checksum(l)))
    half = lambda unit: 0.5 * unit * (1 + 1e-6) + 1e-15
    i, raan, e, argp, ma, n = [float(x) for x in orb]

    def angle_bad(a, b):
        d = (math.degrees(a) - math.degrees(b)) % 360
        return min(d, 360 - d) > half(1e-4)
    bad = []
    for nm, a, b in (("i", i, tle.i), ("Ω", raan, tle.Ω), ("ω", argp, tle.ω), ("M", ma, tle.M)):
        if angle_bad(a, b):
            bad.append((nm, math.degrees(a), math.degrees(b)))
    if abs(e - tle.e) > half(1e-7):
        bad.append(("e", e, tle.e))
    rd = 86400 / (2 * math.pi)
    if abs(n * rd - tle.n * rd) > half(1e-8):
        bad.append(("n", n * rd, tle.n * rd))
    if abs(orb.ndot - tle.ndot) > 2 * half(1e-8):
        bad.append(("ndot", orb.ndot, tle.ndot))
    for nm in ("ndotdot", "bstar"):
        a, b = getattr(orb, nm), getattr(tle, nm)
        if abs(a - b) > 0.5e-4 * abs(a) * (1 + 1e-6) + 1e-300:
            bad.append((nm, a, b))
    if (tle.norad_id, tle.element_nb, tle.revolutions) != (int(orb.norad_id), orb.element_nb, orb.revolutions):
        bad.append(("ids", (tle.norad_id, tle.element_nb, tle.revolutions), (orb.norad_id, orb.element_nb, orb.revolutions)))
    if tle.cospar_id != orb.cospar_id:
        bad.append(("cospar_id", tle.cospar_id, orb.cospar_id))
    dt = abs((tle.epoch - orb.date).total_seconds())
    if dt > 864e-6 / 2 + 3e-6:
        bad.append(("epoch", str(orb.date), str(tle.epoch)))
    if bad:
        nm = bad[0][0]
        fam = "write-e-rounds-up-to-1" if (nm == "e" and e >= 0.99999995) else "write-parse-" + nm
        out.fail(fam, what, inp, observed=str(bad[:3]) + " :: " + tle.text, expected="elements preserved to the printed precision")
    return tle, None


def gen_float_orbit(rng):
    """off-grid orbit inside the domain of the format"""
    import math
    from datetime import datetime, timedelta
    from beyond.dates import Date

    def ang():
        k = rng.random()
        if k < 0.08:
            return rng.choice([0.0, math.pi, 2 * math.pi - 1e-12, math.radians(359.99994), math.radians(359.99996), 1e-9, math.radians(0.00005), math.radians(0.03125)])
        return rng.uniform(0, 2 * math.pi)

    def ecc():
        k = rng.random()
        if k < 0.12:
            return rng.choice([0.0, 1e-9, 4.9e-8, 5.1e-8, 0.9999999, 0.99999994, 0.99999996, 0.999999999, 0.5, 0.03125])
        return rng.random() ** rng.choice([1, 1, 3])

    def drag():
        k = rng.random()
        if k < 0.15:
            return 0.0
        if k < 0.25:
            return rng.choice([1.0, -1.0, 0.999996, 9.99996e-5, 0.1, 1e-9, -1e-9, 0.999994e-3, 12345.0, 99999e4, -0.99999e9])
        return rng.choice([-1, 1]) * rng.uniform(0.1, 1) * 10.0 ** rng.randint(-9, 8)
    y = rng.randint(1957, 2056)
    span = (datetime(y + 1, 1, 1) - datetime(y, 1, 1)).days * 86400 * 10**6
    k = rng.random()
    us = rng.choice([0, span - 1, span - 400, span - 500, 432, 433, 864, 86400 * 10**6 - 1]) if k < 0.1 else rng.randrange(span)
    date = Date(datetime(y, 1, 1) + timedelta(microseconds=us))
    if rng.random() < 0.25:
        cospar = ""
    else:
        cospar = "%d-%03d%s" % (rng.randint(1957, 2056), rng.randint(1, 999), "".join(rng.choice(UPPER) for _ in range(rng.choice([1, 2, 3]))))
    nd = rng.choice([0.0, -0.0, 1e-12, -1e-12, 2 * 0.99999999, -2 * 0.99999999]) if rng.random() < 0.1 else rng.choice([-1, 1]) * 2 * rng.random() * 10.0 ** rng.randint(-8, 0)
    data = {"bstar": drag(), "ndot": nd, "ndotdot": drag() * 6, "name": gen_name(rng) if rng.random() < 0.5 else "", "cospar_id": cospar,
            "norad_id": rng.choice([0, 1, 99999, rng.randint(0, 99999)]), "element_nb": rng.choice([0, 9, 10, 999, 1000, 9999, rng.randint(0, 9999)]),
            "revolutions": rng.choice([0, 9, 99999, 10000, rng.randint(0, 99999)]), "type": 0}
    n_revday = rng.choice([0.0, 16.99999999, 9.999999996, 1.00273791, 1e-9]) if rng.random() < 0.08 else rng.uniform(0, 17)
    vals = [ang(), ang(), ecc(), ang(), ang(), min(n_revday, 16.999999994) * 2 * math.pi / 86400.0]
    return real_orbit(vals, date, **data), {"vals": vals, "date": str(date), "data": data}


def o_write(out, rng):
    """clause 2: any orbit that can be written yields valid lines that parse back to the same elements; writing again is stable"""
    from beyond.io.tle import Tle
    orb, inp = gen_float_orbit(rng)
    tle, err = write_checks(out, orb, "written TLE does not parse back to the orbit's elements", inp)
    out.count(key=repr(inp["vals"]), kind="write-float", writable=tle is not None)
    if tle is None:
        out.tally("unwritable=" + err[:24])
        return
    # second generation: text -> orbit -> text must be a fixed point unless an angle was rounded up to 360.0000
    l1, l2 = tle.text.split("\n")
    if "360.0000" in l2:
        out.tally("written-angle-360.0000")
        return
    yy, day = int(l1[18:20]), l1[20:32]
    if day in ("366.00000000", "367.00000000") and int(day[:3]) == (367 if is_leap(full_year(yy)) else 366):
        # the last half 1e-8 day of a year is written as day (number of days + 1).00000000 of the same year: same instant,
        # second generation names it day 1 of the next year
        out.tally("written-day-after-year-end")
        return
    again = str(Tle.from_orbit(tle.orbit()))
    if again != str(tle):
        out.fail("rewrite-not-stable", "writing the orbit of a written TLE gives a different text", inp, observed=again, expected=str(tle))


def o_write_grid(out, r):
    """clause 2 on an orbit whose elements are exact printed decimals: the writer must produce the format's lines"""
    from beyond.io.tle import Tle
    orb = rec_to_orbit(r)
    want = spec_text(r)
    out.count(key=want, kind="write-grid")
    try:
        got = str(Tle.from_orbit(orb))
    except Exception as e:  # noqa
        out.fail("write-grid-raises", "an orbit inside the format's ranges cannot be written", {"record": r}, observed=repr(e), expected=want)
        return
    if got != want:
        out.fail("write-grid-differs", "written text differs from the format's column layout", {"record": r}, observed=got, expected=want)


def o_corrupt(out, rng, r, n_digit, n_len):
    """clause 3: wrong checksum / single digit / length / line number => rejected"""
    l1, l2 = spec_lines(r)
    kind0, base = try_parse(l1 + "\n" + l2)
    if kind0 != "ok":
        return
    both = [l1, l2]

    def judge(kindname, lines, detail):
        text = "\n".join(lines)
        k, t = try_parse(text)
        out.count(key=text, kind="corrupt-" + kindname, verdict=k)
        if k == "ok":
            harmless = same_elements(t, base)
            fam = f"corrupt-{kindname}-accepted" + ("" if not harmless else "-harmless")
            if not harmless:
                out.fail(fam, f"a TLE line with a wrong {detail} is accepted and parsed to different elements", {"text": text, "original": l1 + "\n" + l2},
                         observed="accepted", expected="TleParseError")
            else:
                out.tally("accepted-harmless=" + kindname)
        elif k.startswith("other"):
            out.fail(f"corrupt-{kindname}-{k}", f"a TLE line with a wrong {detail} raises something that is not a ValueError", {"text": text}, observed=f"{k}: {t}", expected="TleParseError")
    for li in (0, 1):
        allc = list(digit_corruptions(both[li]))
        pick = allc if n_digit is None else rng.sample(allc, min(n_digit, len(allc)))
        for p, d in pick:
            ls = list(both)
            ls[li] = corrupt_digit(both[li], p, d)
            judge("digit", ls, "digit")
        for kn, bad in length_corruptions(rng, both[li], n_len):
            ls = list(both)
            ls[li] = bad
            judge(kn, ls, "length")
        for bad in linenum_corruptions(both[li]):
            ls = list(both)
            ls[li] = bad
            judge("linenum", ls, "line number")


def corrupt_entry(rng, l1, l2, kind):
    """kind: 'valid' | 'digit' | 'length' | 'linenum<1|2>><c>'"""
    ls = [l1, l2]
    if kind == "digit":
        li = rng.randrange(2)
        p, d = rng.choice([pd for pd in digit_corruptions(ls[li]) if pd[0] > 0])
        ls[li] = corrupt_digit(ls[li], p, d)
    elif kind == "length":
        li = rng.randrange(2)
        p = rng.randrange(2, 69)
        ls[li] = ls[li][:p] + (ls[li][p + 1:] if rng.random() < 0.5 else rng.choice("0123456789") + ls[li][p:])
    elif kind.startswith("linenum"):
        li = int(kind[7]) - 1
        ls[li] = kind[9:] + ls[li][1:]
    return ls


def random_kind(rng):
    k = rng.random()
    if k < 0.55:
        return "valid"
    if k < 0.65:
        return "digit"
    if k < 0.8:
        li = rng.randrange(2)
        return "linenum%d>%s" % (li + 1, rng.choice([c for c in "0123456789" if c != str(li + 1)]))
    return "length"


def o_from_string(out, rng, recs, kinds=None, fillers=True, tag="from-string"):
    """clause 4: a multi-TLE text yields exactly its valid entries"""
    from beyond.io.tle import Tle
    lines = []
    expected = []
    kinds = [random_kind(rng) for _ in recs] if kinds is None else kinds
    labels = []
    for r, kind in zip(recs, kinds):
        l1, l2 = corrupt_entry(rng, *spec_lines(r), kind)
        if fillers and rng.random() < 0.15:
            lines.append(rng.choice(["", "# comment", "   "]))
        if r["name"]:
            lines.append(r["name"])
        lines += [l1, l2]
        labels.append(kind + ("/named" if r["name"] else "/unnamed"))
        if kind == "valid":
            expected.append((r["name"], l1 + "\n" + l2, len(labels) - 1))
    text = "\n".join(lines)
    out.count(key=text, kind=tag, entries=len(recs))
    inp = {"text": text, "kinds": labels}
    try:
        got = [(t.name, t.text) for t in Tle.from_string(text, error="ignore")]
    except Exception as e:  # noqa
        out.fail("from-string-raises-" + type(e).__name__, "Tle.from_string(error='ignore') raises", inp, observed=repr(e), expected=[e[1] for e in expected])
        return
    gt = [g[1] for g in got]
    if gt != [e[1] for e in expected]:
        missing = [e for e in expected if e[1] not in gt]
        extra = [g for g in gt if g not in [e[1] for e in expected]]
        if missing and not extra:
            # the family names the corruption of the entry in front of the first lost one and whether the lost one has a name line
            i = missing[0][2]
            prev = labels[i - 1].split("/")[0] if i > 0 else "none"
            fam = "from-string-valid-entry-lost-after-" + prev + "-" + labels[i].split("/")[1]
        else:
            fam = "from-string-extra-entry"
        out.fail(fam, "Tle.from_string does not yield exactly the valid entries of the text", inp, observed=gt, expected=[e[1] for e in expected])
        return
    for g, e in zip(got, expected):
        if g[0] != e[0]:
            # an entry without name line that follows a line which is neither '1 ' nor '2 ' takes that line as its name: by design
            # (any such line *is* a name line in the 3LE format); counted, not failed
            if e[0] == "":
                out.tally("from-string-name-from-preceding-bad-line")
            else:
                out.fail("from-string-name", "entry yielded with another name", inp, observed=g[0], expected=e[0])


def o_from_string_directed(out, rng):
    """every kind of single corruption of an entry (named or not) followed by a valid entry (named or not) and preceded by one"""
    kinds = ["digit", "length"] + ["linenum1>" + c for c in "023456789"] + ["linenum2>" + c for c in "013456789"]
    for kind in kinds:
        for an in (False, True):
            for bn in (False, True):
                recs = [gen_rec(rng), gen_rec(rng, named=an), gen_rec(rng, named=bn)]
                o_from_string(out, rng, recs, ["valid", kind, "valid"], fillers=False, tag="from-string-directed")


def o_unfloat(out, rng):
    from beyond.io.tle import _float, _unfloat
    u = gen_unfl(rng)
    txt = fmt_unfl(u)
    out.count(key=txt, kind="unfloat")
    v = _float(txt if rng.random() < 0.5 else " " + txt)
    if not abs(Fraction(v) - unfl_value(u)) <= abs(unfl_value(u)) * Fraction(1, 10**12):
        out.fail("float-value", "_float does not return the printed value", {"text": txt}, observed=v, expected=float(unfl_value(u)))
    if _unfloat(v) != txt:
        out.fail("unfloat-float", "_unfloat(_float(text)) != text", {"text": txt}, observed=_unfloat(v), expected=txt)
    if _float(_unfloat(v)) != v:
        out.fail("float-unfloat", "_float(_unfloat(x)) != x on a printed value", {"text": txt}, observed=_float(_unfloat(v)), expected=v)


def oracle(ctx, widened):
    out = Outcome()
    rng = ctx.rng
    big = widened or ctx.thorough
    for _ in range(4000 if big else 400):
        o_parse_write(out, gen_rec(rng))
    for _ in range(3000 if big else 300):
        o_write_grid(out, gen_rec(rng))
    for _ in range(10000 if big else 1000):
        o_write(out, rng)
    for _ in range(5000 if big else 500):
        o_unfloat(out, rng)
    for k in range(100 if big else 12):
        o_corrupt(out, rng, gen_rec(rng, named=False), None if (big and k < 30) or k < 2 else 40, 30 if big else 12)
    for _ in range(3000 if big else 300):
        o_from_string(out, rng, [gen_rec(rng) for _ in range(rng.randint(1, 5))])
    for _ in range(10 if big else 1):
        o_from_string_directed(out, rng)
    out.sample({"checked": "parse->write identity, write->parse elements, 69 columns + checksums, every digit/length/line-number corruption rejected, from_string yields exactly the valid entries"})
    return out


def replay(f):
    out = Outcome()
    return out
