"""C12 — TLE text round-trips and is validated."""
import ast
import os
from fractions import Fraction

from harness import core
from harness.core import Outcome

ID = "C12"
LEAN_TARGETS = ["BeyondVerif.Props.C12", "BeyondVerif.Props.C12Lines", "BeyondVerif.Props.C12Orb", "BeyondVerif.Props.C12Float", "BeyondVerif.Witness.C12"]
THEOREMS = [
    "BeyondVerif.C12.checksum_detects_digit_error",
    "BeyondVerif.C12.valid_iff",
    "BeyondVerif.C12.length_checked",
    "BeyondVerif.C12.line_number_checked",
    "BeyondVerif.C12.digit_corruption_rejected",
    "BeyondVerif.C12.epoch_roundtrip",
    "BeyondVerif.C12.too_few_lines_rejected",
    "BeyondVerif.C12.unfloat_float_id",
    "BeyondVerif.C12.unfloat_float_zero",
    "BeyondVerif.C12.float_unfloat_id",
    "BeyondVerif.C12.written_lines_valid",
    "BeyondVerif.C12.parse_write_id",
    "BeyondVerif.C12.write_parse_id",
    "BeyondVerif.C12.from_string_yields_valid_entries",
    "BeyondVerif.C12.from_string_framed_exact",
    "BeyondVerif.C12.reference_tles_roundtrip",
    "BeyondVerif.C12.from_string_windows",
    "BeyondVerif.C12.from_string_no_memory",
    "BeyondVerif.C12.rejected_entry_leaves_no_trace",
    "BeyondVerif.C12.valid_entry_yielded_anywhere",
    "BeyondVerif.C12.orbit_reads_exact",
    "BeyondVerif.C12.epoch_from_utc_date",
    "BeyondVerif.C12.tle_orbit_builds_fresh",
    "BeyondVerif.C12.accepted_writes_69_columns",
    "BeyondVerif.C12.accepted_norad_fits",
    "BeyondVerif.C12.norad_int_accepted_only",
    "BeyondVerif.C12.norad_int_accepted",
    "BeyondVerif.C12.read_reflects_current_values",
    "BeyondVerif.C12.history_independent_of_source",
    "BeyondVerif.C12.reads_do_not_change_the_orbit",
    "BeyondVerif.C12.format_within_half_unit",
    "BeyondVerif.C12.angle_grid_range",
    "BeyondVerif.C12.wrap_range",
    "BeyondVerif.C12.wrap_same_angle",
    "BeyondVerif.C12.wrap_turn_invariant",
    "BeyondVerif.C12.wrapped_angle_fits_columns",
    "BeyondVerif.C12.drag_exponent_found",
    "BeyondVerif.C12.drag_five_digits",
    "BeyondVerif.C12.drag_normal_form",
    "BeyondVerif.C12.epoch_century",
    "BeyondVerif.C12.epoch_within_half_unit",
    "BeyondVerif.C12.wide_roundtrip",
    "BeyondVerif.C12.second_generation_fixed",
    "BeyondVerif.C12.offgrid_idempotent_from_second_generation",
    "BeyondVerif.C12.quantize_wide",
    "BeyondVerif.C12.offgrid_written_valid",
    "BeyondVerif.C12.offgrid_three_generations",
    "BeyondVerif.C12W.leading_blank_now_harmless",
    "BeyondVerif.C12W.from_string_keeps_valid_entry",
    "BeyondVerif.C12W.ecc_one_refused",
    "BeyondVerif.C12W.missing_line_is_parse_error",
    "BeyondVerif.C12W.blank_drag_field_skipped",
    "BeyondVerif.C12W.alpha5_refused",
    "BeyondVerif.C12W.negative_norad",
    "BeyondVerif.C12W.wrap_is_floor_modulo",
]
LEVEL_TEXT = ("Lean theorems over a List Char / Int / exact-rational model of beyond/io/tle.py whose column slices, writer layout, uses of the `orbit` argument and UTC date "
              "expression are regenerated from the Python AST on every run (the hand-modelled functions are compared statement by statement with the source the model was "
              "written from). RECORDS OF PRINTED UNITS, for EVERY record inside the ranges of the format (5-digit catalogue number, empty/full designator, signed/zero drag "
              "and ndot terms with any one-digit exponent, e in [0,1), angles in [0,360), n < 100, element numbers 0-9999, revolution numbers 0-99999, every day of 1957-2056, "
              "with or without name line): the written lines have 69 characters, correct checksums and pass _check_validity (written_lines_valid, also for the three values a "
              "rounding carry reaches); from_orbit succeeds, shows exactly those lines and reads back to the same record field for field (parse_write_id); parse -> orbit -> "
              "write reproduces the identical text, name included (write_parse_id); _float/_unfloat are inverse on every (sign, 5-digit mantissa, exponent) triple. "
              "OFF-GRID ORBITS (every number handed to str.format is an arbitrary double, modelled by its exact rational value; CPython's correctly rounded formatting = "
              "half-even on that value): every fixed-point field is the grid value nearest to the double (format_within_half_unit: |printed - x| <= half a printed unit), "
              "the five digits and the exponent of a drag term are found and nearest for every double between 1e-400 and 1e400 (drag_exponent_found, drag_five_digits, "
              "drag_normal_form), the epoch of EVERY instant of 1957-2056 is written with the right two-digit year (pivot 57, leap years through CPython's ord2ymd) and is "
              "read back at most 432 us away, in the same year (epoch_century, epoch_within_half_unit); every orbit of the writer's domain yields two 69-column lines "
              "(quantize_wide, offgrid_written_valid); the angle handed to the format is Python's floor modulo of the angle in degrees, so that EVERY representative of an angle "
              "(negative out of an arctan2, several turns) is written unsigned between 0.0000 and 360.0000 and representatives a whole number of turns apart are written "
              "alike (wrap_range, wrap_same_angle, wrap_turn_invariant, wrapped_angle_fits_columns; C's fmod would not: Witness wrap_is_floor_modulo); what is written is read back as itself up to the normalisation of the three carries 360.0000 / day N+1.00000000 / "
              "00000-9 (wide_roundtrip), and from the SECOND generation on parse -> write is the identity, character for character "
              "(second_generation_fixed, offgrid_idempotent_from_second_generation, offgrid_three_generations). THE ORBIT SIDE: for every catalogue-number text and every "
              "record whatsoever, an accepted record was written on exactly 69 columns, its catalogue number has at most five characters and is int() of its columns; "
              "non-negative integers are accepted exactly below 100000, 0 included (accepted_writes_69_columns, accepted_norad_fits, norad_int_accepted_only, "
              "norad_int_accepted); Tle.from_orbit reads of its argument exactly name/norad_id/cospar_id behind hasattr, a converted copy, the date converted to UTC, the "
              "six elements, the drag terms and the two counters (orbit_reads_exact, epoch_from_utc_date over the regenerated list), so that after ANY history of in-place "
              "modifications, copies, re-reads and reads a read shows the current values and never the Tle the orbit carries (read_reflects_current_values, "
              "history_independent_of_source, reads_do_not_change_the_orbit). VALIDATION: for EVERY line the modulo-10 checksum changes under every single-digit "
              "substitution; _check_validity accepts exactly the texts with >= 2 lines, correct line numbers and 69-character lines with matching check digit (valid_iff), so "
              "wrong length, line number, line count and every single-digit corruption are rejected. MULTI-TLE TEXTS: for EVERY list of lines whatsoever (valid and rejected "
              "entries, name lines, blanks, comments, 2- and 3-line formats, orphan lines, any interleaving) from_string yields exactly the accepted ones among the texts "
              "`window ++ [line 2]`, one per line 2, built from at most the two lines in front of it (from_string_windows); nothing survives a tried entry "
              "(from_string_no_memory), a rejected entry leaves no trace, a valid entry is yielded wherever it stands (rejected_entry_leaves_no_trace, "
              "valid_entry_yielded_anywhere). Exact differential correspondence of the model with Tle, Tle.from_orbit (grid records, off-grid doubles in five time scales, "
              "argument forms, histories on one orbit), Tle.from_string, _float, _unfloat.")
LEVEL_NOTE = ("the float operations IN FRONT of str.format (np.degrees, n*86400/2pi, /2, /6, the float sum of the day fraction) are not modelled: the model starts at the "
              "double handed to str.format (the harness evaluates the source's own keyword expressions, which extract compares with the modelled ones); the wrap `% 360` is "
              "modelled exactly (floor modulo of the exact value of np.degrees(a); the code's result is compared with it to the one binary64 rounding of fmod + 360); the formatting itself "
              "(correct rounding, ties to even on the exact binary value), the binary64 product of the small-drag branch and CPython's calendar are inside the model and "
              "compared exactly; the hand-written model is tied to the code by AST comparison + correspondence; Lean kernel + propext/Classical.choice/Quot.sound")
TECHNIQUE = ("Lean 4 proofs over a List Char / Int / exact-rational model of tle.py whose column table, writer layout, reads of the orbit and UTC date expression are regenerated "
             "from the Python AST; exact model/implementation correspondence, histories included")
TRUSTED = [
    "harness/props/C12.py extract: reads the column slices of Tle.__init__, the two str.format layouts and keyword expressions of Tle.from_orbit, every use of the parameter `orbit` "
    "and the expression assigned to `date` from the AST -> Generated/TleColumns.lean; refuses to run (check reports the model as no longer tied) when _float, _unfloat, _checksum, "
    "_check_validity, from_string, the argument resolution at the top of from_orbit or the strip / eccentricity statements differ statement-wise from the modelled source",
    "lean/BeyondVerif/Model/Tle.lean (int()/float() sub-grammar, _float, _unfloat, Tle.__init__, orbit()+from_orbit on records of printed units, from_string), Model/TleOrb.lean "
    "(argument resolution, catalogue number as text, the orbit as a state machine), Model/TleQuant.lean (exact rationals of doubles, correctly rounded formatting, binary64 rounding "
    "of one product, CPython's ord2ymd shared with Model/Sgp4Wrap.lean, UTC offset as a parameter): hand-written, tied by the correspondence run",
    "correspondence harness: exact comparison of strings, integers, error kinds and line numbers; parsed floats compared with the model's exact decimals to 1e-13 relative; epoch to the "
    "microsecond; off-grid doubles travel as exact fractions; own-scale minus UTC of an orbit's date is taken from Date.change_scale (property C03/C04's domain)",
]
ASSUMPTIONS = [
    "texts are printable ASCII; int()/float() are modelled on the grammar [blanks][sign]digits[.digits] (no exponents, underscores, inf/nan, non-ASCII digits) — every numeric column of a generated or digit-corrupted TLE is in it",
    "CPython's float formatting ('{:.Nf}', '{:.4e}') is correctly rounded, ties to even on the exact binary value (David Gay's algorithm); float(text) is correctly rounded; "
    "round(float) is half-even on the float; abs(x) * 10**14 is one binary64 multiplication (10**14 exact): checked by the exact correspondence on off-grid doubles, ties in the "
    "fourth/fifth/eighth decimal and products at k + 1/2 included",
    "the float operations in front of the formatting (np.degrees(a) % 360, n*86400/(2 pi), ndot/2, ndotdot/6, x*2/2 and x*6/6 of orbit(), the day-of-year sum hour/24 + minute/1440 + "
    "second/86400 + microsecond/86400e6) move a value by a few ulp, far below a printed unit: the model takes the day fraction exactly — it agrees with the float sum except possibly when "
    "the UTC microsecond count is exactly 432 modulo 864 (a tie of the eighth decimal; such cases are compared modulo the tie) — and takes the other numbers as the doubles the source's "
    "own expressions produce",
    "Date(datetime) -> change_scale('UTC').datetime is the identity on UTC microseconds; own scale - UTC comes from Date.change_scale (C03/C04)",
    "canonical TLE = what the writer produces from a record in range (InRange in Lemmas/TleWrite.lean): classification U, ephemeris type 0, drag terms with 5-digit normalised mantissa and one-digit exponent (zero as 00000-0), "
    "designator = 2 digits + piece without surrounding blanks, name line without '0 ' prefix or surrounding blanks; WideRange adds 360.0000, day (days of the year + 1).00000000 and ddddd-9",
]
NOT_COVERED = [
    "classification other than U, ephemeris type other than 0, non-normalised drag terms other than those the writer itself produces below 1e-10: outside the quantifier; model and code agree on them (correspondence)",
    "the float operations in front of str.format (see ASSUMPTIONS): exercised end to end by the oracle (half a printed unit + 1e-6 relative slack on 1000/10000 random orbits per run, five time scales), not proved",
    "a year-end carry in 2056 is written 57001.00000000 by the second generation and read as 1957 (the documented limit of the two-digit year): the text is still a fixed point (proved), the instant is not; "
    "epochs after 2056-12-31T23:59:59.999568 are outside the quantifier",
    "negative catalogue numbers: '{:0>5}' and int() accept -9999 … -1000 (the sign fills the fifth column) and refuse the others (Witness negative_norad); alpha-5 numbers are refused "
    "(int() fails, Witness alpha5_refused); both outside the quantifier (5-digit catalogue numbers)",
    "a line that is neither '1 ' nor '2 ' (e.g. a second line whose number was corrupted to 3) is by design taken as the name line of the following two-line-format entry: from_string_windows states exactly which lines "
    "are put in front of a line 2; the entry is yielded with that name",
    "names containing line breaks, identifiers that are None: outside the model (never generated)",
]
OPEN = []
RULE = ("correspondence: records with every field drawn from its full range with edge values (0, max, 10^k boundaries, year pivot 56/57, leap days), written by an "
        "independent column-table writer; for each: parse, parse->write, write (in and out of range), all single-digit substitutions (exhaustive on 3/50 TLEs, 30 per line "
        "otherwise), deletions/insertions/truncations/leading and trailing blanks, every line-number replacement, 0/1/4-line texts, non-canonical accepted fields; _float/_unfloat "
        "strings; multi-entry texts with corrupted entries and arbitrary interleavings of 15 kinds of lines (every ordered pair of kinds followed by a valid entry); off-grid orbits "
        "(angles at 0, 2pi-, 359.99994/6 deg, e at 0.99999994/6, drag terms around 1e-10 and 0.5e-14, epochs at the last microseconds of a year, dates labelled UTC/TAI/TT/GPS/TDB "
        "under the real IERS tables, one number pushed out of its columns) sent as exact fractions, then their second and third generation; _unfloat on doubles of every magnitude "
        "and on ties; datetime -> (yy, day) for every kind of boundary of 1957-2056; histories of 2-10 operations on one orbit (three ways to start, every attribute set by name or "
        "by index — an angle also as a representative whole turns away —, deleted, copies, re-reads, reads with and without arguments); np.degrees(a) % 360 on angles of "
        "every representative (negative, several turns, -pi, +-2pi, the values needing a ninth column unwrapped, the printed grid) vs the exact floor modulo. non-trivial = every case (key = the request); oracle: the property's clauses on Tle, Tle.from_orbit, "
        "Tle.from_string (three error modes, another comment mark), _float, _unfloat with tolerances of half a printed unit (epoch 1e-8 day); second/third generation after every write; "
        "orbits held in other forms/frames; off-grid orbits whose angles are any representative (a quarter of them negative, several turns or at a turn boundary) with "
        "every angle field required unsigned in 0.0000..360.0000; parsed TLEs taken through chains of 1-3 of the ten forms (the arctan2-based ones hand back angles in (-pi, pi]) "
        "and written back, text compared with the original; every history compared with a freshly built orbit; every formerly failing family (leading blank, stale line 1, e -> 1.0000000, missing "
        "line, drag below 1e-10, blank drag field) is exercised by directed cases on every run")

TLE_PY = os.path.join(core.REPO, "beyond", "io", "tle.py")

# ---------------------------------------------------------------- structured TLE records (integers of the printed unit)
#
# A record is a dict
#   name    str ('' = two-line format)
#   norad   0..99999
#   cospar  '' or 'YYNNNP', 'YYNNNPP', 'YYNNNPPP'
#   yy      0..99   two-digit epoch year (57..99 -> 19yy, 00..56 -> 20yy)
#   day8    day of year * 1e8   (1e8 .. <(366|367)e8)
#   ndot    (neg, m8)           ndot/2 = +-m8 * 1e-8 rev/day^2
#   ndd, bstar (neg, m5, exp)   +-0.m5 * 10^exp, m5 in 10000..99999 or (False, 0, 0)
#   elnb    0..9999
#   i4, raan4, argp4, ma4       1e-4 degree, 0..3599999
#   e7      0..9999999
#   n8      1e-8 rev/day, 0..17e8(-1)
#   revs    0..99999

NAME_ALPHABET = "ABCDEFGHIJKLMNOPQRSTUVWXYZ0123456789 ()-/.abcdxyz&+"
UPPER = "ABCDEFGHIJKLMNOPQRSTUVWXYZ"


def edge_or(rng, lo, hi, edges, p=0.3):
    if rng.random() < p:
        return rng.choice(edges)
    return rng.randint(lo, hi)


def is_leap(y):
    return y % 4 == 0 and (y % 100 != 0 or y % 400 == 0)


def full_year(yy):
    return yy + (1900 if yy >= 57 else 2000)


def gen_unfl(rng):
    r = rng.random()
    if r < 0.15:
        return (False, 0, 0)
    neg = rng.random() < 0.5
    m5 = edge_or(rng, 10000, 99999, [10000, 99999, 10001, 50000, 99990])
    exp = edge_or(rng, -9, 9, [-9, 9, 0, -1, 1, -4])
    return (neg, m5, exp)


def gen_name(rng):
    while True:
        k = rng.randint(1, 24)
        s = "".join(rng.choice(NAME_ALPHABET) for _ in range(k)).strip()
        if not s or s.startswith(("0 ", "1 ", "2 ", "#")):
            continue
        return s


def gen_rec(rng, named=None):
    yy = edge_or(rng, 0, 99, [57, 56, 0, 99, 58, 55, 1])
    ndays = 366 if is_leap(full_year(yy)) else 365
    day = edge_or(rng, 1, ndays, [1, ndays, 59, 60, 61])
    frac = edge_or(rng, 0, 10**8 - 1, [0, 10**8 - 1, 1, 5 * 10**7, 51782528])
    if rng.random() < 0.25:
        cospar = ""
    else:
        cy = edge_or(rng, 0, 99, [57, 56, 0, 99])
        cospar = "%02d%03d" % (cy, edge_or(rng, 1, 999, [1, 999])) + "".join(rng.choice(UPPER) for _ in range(rng.choice([1, 1, 2, 3])))
    named = (rng.random() < 0.6) if named is None else named
    return {
        "name": gen_name(rng) if named else "",
        "norad": edge_or(rng, 0, 99999, [0, 1, 99999, 14, 25544, 10000, 9999]),
        "cospar": cospar,
        "yy": yy,
        "day8": day * 10**8 + frac,
        "ndot": (rng.random() < 0.5, edge_or(rng, 0, 10**8 - 1, [0, 1, 10**8 - 1, 2182, 10**7])),
        "ndd": gen_unfl(rng),
        "bstar": gen_unfl(rng),
        "elnb": edge_or(rng, 0, 9999, [0, 1, 9, 10, 99, 100, 999, 1000, 9999, 2927]),
        "i4": edge_or(rng, 0, 3599999, [0, 1, 1800000, 3599999, 900000, 99999, 100000]),
        "raan4": edge_or(rng, 0, 3599999, [0, 1, 1800000, 3599999, 99999, 100000, 999999, 1000000]),
        "argp4": edge_or(rng, 0, 3599999, [0, 1, 1800000, 3599999, 9999, 10000]),
        "ma4": edge_or(rng, 0, 3599999, [0, 1, 1800000, 3599999]),
        "e7": edge_or(rng, 0, 9999999, [0, 1, 9999999, 6703, 1000000, 999999]),
        "n8": edge_or(rng, 0, 17 * 10**8 - 1, [0, 1, 17 * 10**8 - 1, 10**9, 10**9 - 1, 10**8, 1572125391, 100273791]),
        "revs": edge_or(rng, 0, 99999, [0, 1, 9, 10, 99999, 9999, 10000, 56353]),
    }


def spec_checksum(body):
    """modulo-10 checksum as the TLE format documents it: digits count their value, '-' counts 1, everything else 0"""
    return sum((ord(c) - 48) if "0" <= c <= "9" else (1 if c == "-" else 0) for c in body[:68]) % 10


def fmt_unfl(u):
    neg, m5, exp = u
    if m5 == 0:
        return "00000-0"          # the writer has a single rendering of zero (sign lost, as -0.0 == 0.0)
    return ("-" if neg else "") + "%05d" % m5 + "%+d" % exp


def fmt_ndot(nd):
    neg, m8 = nd
    return ("-" if neg else " ") + ".%08d" % m8


def spec_lines(r):
    """the two lines of record r, written from the column table of the format (independent of beyond)"""
    l1 = "1 %05dU %-8s %02d%03d.%08d %10s %8s %8s 0 %4d" % (
        r["norad"], r["cospar"], r["yy"], r["day8"] // 10**8, r["day8"] % 10**8, fmt_ndot(r["ndot"]), fmt_unfl(r["ndd"]), fmt_unfl(r["bstar"]), r["elnb"])
    l2 = "2 %05d %3d.%04d %3d.%04d %07d %3d.%04d %3d.%04d %2d.%08d%5d" % (
        r["norad"], r["i4"] // 10**4, r["i4"] % 10**4, r["raan4"] // 10**4, r["raan4"] % 10**4, r["e7"],
        r["argp4"] // 10**4, r["argp4"] % 10**4, r["ma4"] // 10**4, r["ma4"] % 10**4, r["n8"] // 10**8, r["n8"] % 10**8, r["revs"])
    assert len(l1) == 68 and len(l2) == 68, (l1, l2)
    return l1 + str(spec_checksum(l1)), l2 + str(spec_checksum(l2))


def spec_text(r):
    l1, l2 = spec_lines(r)
    return (r["name"] + "\n" if r["name"] else "") + l1 + "\n" + l2


def unfl_value(u):
    neg, m5, exp = u
    return (-1 if neg else 1) * Fraction(m5, 10**5) * Fraction(10) ** exp


def rec_cospar_id(r):
    c = r["cospar"]
    return "" if not c else "%d-%s" % (full_year(int(c[:2])), c[2:])


def rec_epoch_us(r):
    """microseconds since 1 January 00:00 of the epoch year"""
    return (r["day8"] - 10**8) * 864


# ---------------------------------------------------------------- adapters to the real API

def real_parse(text):
    from beyond.io.tle import Tle
    return Tle(text)


def real_write_from_tle(tle):
    from beyond.io.tle import Tle
    return str(Tle.from_orbit(tle.orbit()))


def real_orbit(vals, date, **data):
    from beyond.orbits import Orbit
    return Orbit(list(vals), date, "TLE", "TEME", "Sgp4", **data)


def rec_to_orbit(r):
    """orbit whose floats are the decimal values of the record (what Tle.orbit() would produce)"""
    import math
    from datetime import datetime, timedelta
    from beyond.dates import Date
    dt = datetime(full_year(r["yy"]), 1, 1) + timedelta(microseconds=rec_epoch_us(r))
    rad = lambda k: math.radians(k / 1e4)
    data = {
        "bstar": float(unfl_value(r["bstar"])), "ndot": (-(r["ndot"][1] / 1e8 * 2) if r["ndot"][0] else r["ndot"][1] / 1e8 * 2), "ndotdot": float(unfl_value(r["ndd"])) * 6,
        "name": r["name"], "cospar_id": rec_cospar_id(r), "norad_id": r["norad"], "element_nb": r["elnb"], "revolutions": r["revs"], "type": 0,
    }
    return real_orbit([rad(r["i4"]), rad(r["raan4"]), r["e7"] / 1e7, rad(r["argp4"]), rad(r["ma4"]), r["n8"] / 1e8 * 2 * math.pi / 86400.0], Date(dt), **data)


def tle_fields_mismatch(tle, r, unit_tol=1e-3):
    """compare a parsed real Tle with the integer record: every numeric field to 1e-3 of its printed unit, the epoch to 2 us"""
    import math
    from datetime import datetime
    bad = []

    def chk(nm, got, want):
        if got != want:
            bad.append((nm, got, want))

    def near(nm, got, want, unit):
        if not (abs(Fraction(got) - want) <= Fraction(unit) * Fraction(unit_tol)):
            bad.append((nm, got, float(want)))
    chk("name", tle.name, r["name"])
    chk("norad_id", tle.norad_id, r["norad"])
    chk("classification", tle.classification, "U")
    chk("cospar_id", tle.cospar_id, rec_cospar_id(r))
    chk("element_nb", tle.element_nb, r["elnb"])
    chk("revolutions", tle.revolutions, r["revs"])
    chk("type", tle.type, 0)
    us = (tle.epoch.datetime - datetime(full_year(r["yy"]), 1, 1))
    us = (us.days * 86400 + us.seconds) * 10**6 + us.microseconds
    if abs(us - rec_epoch_us(r)) > 2:
        bad.append(("epoch_us", us, rec_epoch_us(r)))
    if tle.epoch.scale.name != "UTC":
        bad.append(("epoch scale", tle.epoch.scale.name, "UTC"))
    near("ndot", tle.ndot, (-1 if r["ndot"][0] else 1) * Fraction(r["ndot"][1], 10**8) * 2, Fraction(2, 10**8))
    for nm, key, mul in (("ndotdot", "ndd", 6), ("bstar", "bstar", 1)):
        near(nm, getattr(tle, nm), unfl_value(r[key]) * mul, Fraction(mul, 10**5) * Fraction(10) ** r[key][2])
    for nm, key in (("i", "i4"), ("Ω", "raan4"), ("ω", "argp4"), ("M", "ma4")):
        near(nm, math.degrees(getattr(tle, nm)), Fraction(r[key], 10**4), Fraction(1, 10**4))
    near("e", tle.e, Fraction(r["e7"], 10**7), Fraction(1, 10**7))
    near("n", tle.n * 86400 / (2 * math.pi), Fraction(r["n8"], 10**8), Fraction(1, 10**8))
    return bad


# ---------------------------------------------------------------- corruptions

def digit_corruptions(line):
    """every (position, replacement) with line[position] a digit and replacement a different digit"""
    for p, c in enumerate(line):
        if c.isdigit():
            for d in "0123456789":
                if d != c:
                    yield p, d


def corrupt_digit(line, p, d):
    return line[:p] + d + line[p + 1:]


def length_corruptions(rng, line, n):
    """deletions and insertions (interior and leading; trailing blanks are stripped by design and are not corruptions)"""
    out = [("lead-blank", " " + line)]
    for _ in range(n):
        k = rng.random()
        if k < 0.4:
            p = rng.randrange(len(line))
            out.append(("delete", line[:p] + line[p + 1:]))
        elif k < 0.8:
            p = rng.randrange(1, len(line))
            out.append(("insert", line[:p] + rng.choice("0123456789 A.-") + line[p:]))
        elif k < 0.9:
            out.append(("lead-blank", " " * rng.randint(1, 3) + line))
        else:
            out.append(("truncate", line[:rng.randrange(1, len(line))]))
    return out


def linenum_corruptions(line):
    return [c + line[1:] for c in "0123456789 AX" if c != line[0]]


def try_parse(text):
    """-> ('ok', tle) | ('parse-error', msg) | ('value-error', msg) | ('other:<type>', msg)"""
    from beyond.io.tle import Tle, TleParseError
    try:
        return "ok", Tle(text)
    except TleParseError as e:
        return "parse-error", str(e)
    except ValueError as e:
        return "value-error", str(e)
    except Exception as e:  # noqa
        return "other:" + type(e).__name__, str(e)


def same_elements(a, b):
    return (a.norad_id, a.classification, a.cospar_id, a.epoch, a.ndot, a.ndotdot, a.bstar, a.element_nb, a.revolutions, a.type, a.to_list()) == \
           (b.norad_id, b.classification, b.cospar_id, b.epoch, b.ndot, b.ndotdot, b.bstar, b.element_nb, b.revolutions, b.type, b.to_list())


# ---------------------------------------------------------------- oracle pieces

def o_parse_write(out, r):
    """clause 1: parse a well-formed TLE, write the orbit back: identical text, fields preserved"""
    text = spec_text(r)
    kind, tle = try_parse(text)
    out.count(key=text, kind="parse-write", named=bool(r["name"]), cospar=len(r["cospar"]), elnb_digits=len(str(r["elnb"])))
    if kind != "ok":
        out.fail("wellformed-rejected", "a well-formed TLE is rejected", {"text": text}, observed=f"{kind}: {tle}", expected="parsed")
        return
    bad = tle_fields_mismatch(tle, r)
    if bad:
        out.fail("parse-field-" + bad[0][0], "a parsed field differs from the printed value", {"text": text}, observed=str(bad[:3]), expected="fields equal to the printed decimals")
    if str(tle) != text:
        out.fail("str-not-identity", "str(Tle(text)) != text", {"text": text}, observed=str(tle), expected=text)
    try:
        back = real_write_from_tle(tle)
    except Exception as e:  # noqa
        out.fail("rewrite-raises", "writing the orbit of a parsed TLE raises", {"text": text}, observed=repr(e), expected=text)
        return
    if back != text:
        col = next((i for i, (a, b) in enumerate(zip(back, text)) if a != b), min(len(back), len(text)))
        lines = text.split("\n")
        off = col
        ln = 0
        for ln, l in enumerate(lines):
            if off <= len(l):
                break
            off -= len(l) + 1
        tag = ("name" if (r["name"] and ln == 0) else f"line{ln + (0 if r['name'] else 1)}-col{off}")
        out.fail("rewrite-differs-" + tag, "parse then write does not reproduce the TLE", {"text": text}, observed=back, expected=text)


def write_checks(out, orb, what, inp, name=None):
    """clause 2 on one orbit: 69 characters, checksums, parses back to the same elements (to the printed precision)"""
    import math
    from beyond.io.tle import Tle
    try:
        tle = Tle.from_orbit(orb) if name is None else Tle.from_orbit(orb, name=name)
    except ValueError as e:
        return None, str(e)
    lines = tle.text.split("\n")
    for k, l in enumerate(lines):
        if len(l) != 69:
            out.fail(f"written-length-line{k + 1}", "a written line is not 69 characters long", inp, observed=l, expected="69 characters")
        elif str(spec_checksum(l)) != l[68]:
            out.fail(f"written-checksum-line{k + 1}", "a written line carries a wrong checksum", inp, observed=l, expected=str(spec_checksum(l)))
    if len(lines[-1]) == 69:
        # the format's angles are unsigned, 0.0000 .. 359.9999 (360.0000 = the rounding carry of WideRange): whatever representative the orbit
        # holds (negative, several turns), the written field is the angle wrapped into one turn (wrapped_angle_fits_columns)
        for nm, (a, b) in (("i", (8, 16)), ("Ω", (17, 25)), ("ω", (34, 42)), ("M", (43, 51))):
            fld = lines[-1][a:b]
            if not (set(fld) <= set("0123456789. ") and fld[3] == "." and 0 <= int(fld.replace(".", "")) <= 3600000):
                out.fail("written-angle-field-" + nm, "an angle field of a written line is not an unsigned angle of 0.0000 .. 360.0000", inp, observed=lines[-1],
                         expected="%8.4f" % (math.degrees(float(orb[{"i": 0, "Ω": 1, "ω": 3, "M": 4}[nm]])) % 360))
    half = lambda unit: 0.5 * unit * (1 + 1e-6) + 1e-15
    i, raan, e, argp, ma, n = [float(x) for x in orb]

    def angle_bad(a, b):
        d = (math.degrees(a) - math.degrees(b)) % 360
        return min(d, 360 - d) > half(1e-4)
    bad = []
    for nm, a, b in (("i", i, tle.i), ("Ω", raan, tle.Ω), ("ω", argp, tle.ω), ("M", ma, tle.M)):
        if angle_bad(a, b):
            bad.append((nm, math.degrees(a), math.degrees(b)))
    if abs(e - tle.e) > half(1e-7):
        bad.append(("e", e, tle.e))
    rd = 86400 / (2 * math.pi)
    if abs(n * rd - tle.n * rd) > half(1e-8):
        bad.append(("n", n * rd, tle.n * rd))
    if abs(orb.ndot - tle.ndot) > 2 * half(1e-8):
        bad.append(("ndot", orb.ndot, tle.ndot))
    for nm, mul in (("ndotdot", 6), ("bstar", 1)):
        a, b = getattr(orb, nm), getattr(tle, nm)
        # five significant digits, or the last column of the non-normalised notation below 1e-10 (0.00001e-9)
        if abs(a - b) > max(0.5e-4 * abs(a), 0.5e-14 * mul) * (1 + 1e-6) + 1e-300:
            bad.append((nm, a, b))
    if (tle.norad_id, tle.element_nb, tle.revolutions) != (int(orb.norad_id), orb.element_nb, orb.revolutions):
        bad.append(("ids", (tle.norad_id, tle.element_nb, tle.revolutions), (orb.norad_id, orb.element_nb, orb.revolutions)))
    if tle.cospar_id != orb.cospar_id:
        bad.append(("cospar_id", tle.cospar_id, orb.cospar_id))
    # the TLE day fraction counts 86400 s per UTC day: compare the UTC clock readings (a difference of Dates would count an inserted leap second)
    dt = abs((tle.epoch.datetime - orb.date.change_scale("UTC").datetime).total_seconds())
    if dt > 864e-6 / 2 + 3e-6:
        bad.append(("epoch", str(orb.date), str(tle.epoch)))
    if bad:
        nm = bad[0][0]
        fam = "write-e-rounds-up-to-1" if (nm == "e" and e >= 0.99999995) else "write-parse-" + nm
        out.fail(fam, what, inp, observed=str(bad[:3]) + " :: " + tle.text, expected="elements preserved to the printed precision")
    return tle, None


def gen_float_orbit(rng):
    """off-grid orbit inside the domain of the format"""
    import math
    from datetime import datetime, timedelta
    from beyond.dates import Date

    def ang(incl=False):
        k = rng.random()
        if k < 0.08:
            return rng.choice([0.0, math.pi, 2 * math.pi - 1e-12, math.radians(359.99994), math.radians(359.99996), 1e-9, math.radians(0.00005), math.radians(0.03125)])
        if k < 0.30 and not incl:
            # another representative of the angle: (-pi, pi] (arctan2-based conversions, elements set by hand), the turn below, several turns,
            # the boundaries -pi, -2pi, 2pi, 4pi and the values that need a ninth column when they are not wrapped (<= -100 deg, >= 1000 deg)
            return rng.choice([rng.uniform(-math.pi, 0), rng.uniform(-math.pi, 0), rng.uniform(-2 * math.pi, 0), rng.uniform(2 * math.pi, 4 * math.pi),
                               rng.uniform(-20 * math.pi, 20 * math.pi), rng.choice([-math.pi, -2 * math.pi, 2 * math.pi, 4 * math.pi, -0.0, -1e-9, -1e-20,
                                                                                   math.radians(-0.00004), math.radians(-0.00006), math.radians(-99.99996), math.radians(-100.0),
                                                                                   math.radians(-28.5), math.radians(-170.0), math.radians(999.99996), math.radians(1000.0)])])
        return rng.uniform(0, 2 * math.pi)

    def ecc():
        k = rng.random()
        if k < 0.12:
            return rng.choice([0.0, 1e-9, 4.9e-8, 5.1e-8, 0.9999999, 0.99999994, 0.99999996, 0.999999999, 0.5, 0.03125])
        return rng.random() ** rng.choice([1, 1, 3])

    def drag():
        k = rng.random()
        if k < 0.15:
            return 0.0
        if k < 0.25:
            return rng.choice([1.0, -1.0, 0.999996, 9.99996e-5, 0.1, 1e-9, -1e-9, 0.999994e-3, 12345.0, 99999e4, -0.99999e9,
                               4.982e-11, -4.411e-11, 9.99996e-11, -9.99996e-11, 1.2345e-12, -6e-14, 4e-15, -4e-15, 9.9999e-11])
        return rng.choice([-1, 1]) * rng.uniform(0.1, 1) * 10.0 ** rng.randint(-9, 8)
    y = rng.randint(1957, 2056)
    span = (datetime(y + 1, 1, 1) - datetime(y, 1, 1)).days * 86400 * 10**6
    k = rng.random()
    us = rng.choice([0, span - 1, span - 400, span - 500, 432, 433, 864, 86400 * 10**6 - 1]) if k < 0.1 else rng.randrange(span)
    date = Date(datetime(y, 1, 1) + timedelta(microseconds=us))
    if rng.random() < 0.25:
        cospar = ""
    else:
        cospar = "%d-%03d%s" % (rng.randint(1957, 2056), rng.randint(1, 999), "".join(rng.choice(UPPER) for _ in range(rng.choice([1, 2, 3]))))
    nd = rng.choice([0.0, -0.0, 1e-12, -1e-12, 2 * 0.99999999, -2 * 0.99999999]) if rng.random() < 0.1 else rng.choice([-1, 1]) * 2 * rng.random() * 10.0 ** rng.randint(-8, 0)
    data = {"bstar": drag(), "ndot": nd, "ndotdot": drag() * 6, "name": gen_name(rng) if rng.random() < 0.5 else "", "cospar_id": cospar,
            "norad_id": rng.choice([0, 1, 99999, rng.randint(0, 99999)]), "element_nb": rng.choice([0, 9, 10, 999, 1000, 9999, rng.randint(0, 9999)]),
            "revolutions": rng.choice([0, 9, 99999, 10000, rng.randint(0, 99999)]), "type": 0}
    n_revday = rng.choice([0.0, 16.99999999, 9.999999996, 1.00273791, 1e-9]) if rng.random() < 0.08 else rng.uniform(0, 17)
    vals = [ang(), ang(), ecc(), ang(), ang(), min(n_revday, 16.999999994) * 2 * math.pi / 86400.0]
    return real_orbit(vals, date, **data), {"vals": vals, "date": str(date), "epoch": [y, us], "data": data}


def generations(out, tle, inp):
    """second and third generation of a written TLE: the third text is the second (offgrid_idempotent_from_second_generation); the second is the
    first unless the rounding carried (360.0000, day N+1.00000000, 00000-9), and then shows the same angle / instant / value"""
    from beyond.io.tle import Tle
    t1 = str(tle)
    try:
        g2 = Tle.from_orbit(tle.orbit())
        t2 = str(g2)
        t3 = str(Tle.from_orbit(g2.orbit()))
    except Exception as e:  # noqa
        out.fail("rewrite-raises", "writing the orbit of a written TLE raises", inp, observed=repr(e), expected=t1)
        return
    if t3 != t2:
        out.fail("rewrite-not-stable", "parse -> write is not the identity on a second-generation TLE", inp, observed=t3, expected=t2)
        return
    l1, l2 = tle.text.split("\n")
    carries = []
    if "360.0000" in l2:
        carries.append("angle-360.0000")
    if "00000-9" in l1:
        carries.append("zero-mantissa-exponent-9")
    yy, day = int(l1[18:20]), l1[20:32]
    if day in ("366.00000000", "367.00000000") and int(day[:3]) == (367 if is_leap(full_year(yy)) else 366):
        carries.append("day-after-year-end")
    for c in carries:
        out.tally("written-" + c)
    if not carries:
        if t2 != t1:
            out.fail("rewrite-not-stable", "writing the orbit of a written TLE gives a different text", inp, observed=t2, expected=t1)
        return
    # a carry: the second generation names the same angle, instant and value differently
    a, b = tle, g2
    import math
    for nm in ("i", "Ω", "ω", "M"):
        d = (math.degrees(getattr(a, nm)) - math.degrees(getattr(b, nm))) % 360
        if min(d, 360 - d) > 1e-9:
            out.fail("carry-second-generation-" + nm, "after a rounding carry the second generation shows another angle", inp, observed=t2, expected=t1)
            return
    if (yy, day[:3]) != (56, "367") and abs((a.epoch.datetime - b.epoch.datetime).total_seconds()) > 1e-6:
        out.fail("carry-second-generation-epoch", "after a year-end carry the second generation shows another instant", inp, observed=t2, expected=t1)
        return
    if (yy, day[:3]) == (56, "367"):
        out.tally("year-2057-reads-as-1957")       # the documented limit of the two-digit year: outside the quantifier (epochs 1957-2056)
    if (a.e, a.n, a.ndot, a.bstar, a.ndotdot, a.norad_id, a.cospar_id, a.element_nb, a.revolutions, a.name) != \
       (b.e, b.n, b.ndot, b.bstar, b.ndotdot, b.norad_id, b.cospar_id, b.element_nb, b.revolutions, b.name):
        out.fail("carry-second-generation-value", "after a rounding carry the second generation shows other values", inp, observed=t2, expected=t1)


def o_write(out, rng):
    """clause 2: any orbit that can be written yields valid lines that parse back to the same elements; from the second generation on writing is stable"""
    orb, inp = gen_float_orbit(rng)
    scale = rng.choice(SCALES)
    orb = with_scale(orb, scale)
    inp = dict(inp, scale=scale)
    tle = judge_write(out, orb, inp)
    out.count(key=repr(inp["vals"]), kind="write-float", writable=tle is not None, scale=scale)
    if tle is not None:
        generations(out, tle, inp)


def judge_write(out, orb, inp):
    """clause 2 on one orbit of the format's ranges (any representative of its angles): it is written, and what is written passes write_checks"""
    tle, err = write_checks(out, orb, "written TLE does not parse back to the orbit's elements", inp)
    if tle is None:
        out.tally("unwritable=" + err[:24])
        e = inp["vals"][2]
        if not e >= 0.99999995:
            # every other generated value fits its columns (drag terms below 1e-10 in the non-normalised notation)
            small = [x for x in (inp["data"]["bstar"], inp["data"]["ndotdot"] / 6) if 0 < abs(x) < 1e-10]
            out.fail("write-small-drag-unwritable" if small else "write-in-range-unwritable", "an orbit inside the ranges of the format cannot be written", inp,
                     observed=err, expected="a TLE")
    return tle


FOREIGN = [("cartesian", "TEME"), ("keplerian", "TEME"), ("cartesian", "EME2000"), ("keplerian_mean", "EME2000"), ("spherical", "TEME"), ("cartesian", "ITRF"), ("tle", "EME2000")]


def o_foreign_form(out, rng):
    """Tle.from_orbit on an orbit held in another form / frame: the argument is left as it was (the conversion is made on a copy), and the text is
    the one of the explicitly converted copy"""
    import numpy as np
    from beyond.io.tle import Tle
    r = gen_rec(rng)
    if r["e7"] > 9 * 10**6 or r["n8"] < 10**7:
        r["e7"], r["n8"] = 6703, 1572125391         # conversions through cartesian need a proper ellipse
    base = rec_to_orbit(r)
    form, frame = rng.choice(FOREIGN)
    try:
        orb = base.copy(form=form, frame=frame)
    except Exception:  # noqa
        return
    before = (np.array(orb).copy(), orb.form.name, orb.frame.name, str(orb.date))
    if not np.all(np.isfinite(before[0])):
        out.tally("foreign-form-not-finite-skipped")
        return
    out.count(key=(spec_text(r), form, frame), kind="foreign-form", form=form, frame=frame)
    inp = {"record": r, "form": form, "frame": frame}
    try:
        want = str(Tle.from_orbit(orb.copy(form="TLE", frame="TEME")))
    except Exception as e:  # noqa
        want = real_error_token(e)
    try:
        got = str(Tle.from_orbit(orb))
    except Exception as e:  # noqa
        got = real_error_token(e)
    after = (np.array(orb).copy(), orb.form.name, orb.frame.name, str(orb.date))
    if not (np.array_equal(before[0], after[0]) and before[1:] == after[1:]):
        out.fail("from-orbit-modifies-argument", "Tle.from_orbit converted the caller's orbit in place", inp,
                 observed=[after[1], after[2], [float(x) for x in after[0]]], expected=[before[1], before[2], [float(x) for x in before[0]]])
        return
    if got != want:
        out.fail("from-orbit-foreign-form", "Tle.from_orbit of an orbit in another form/frame differs from the text of its converted copy", inp, observed=got, expected=want)


ELEMENT_FORMS = ["keplerian_mean", "keplerian", "keplerian_eccentric", "keplerian_circular", "keplerian_mean_circular", "equinoctial", "tle"]
SPATIAL_FORMS = ["cartesian", "spherical", "cylindrical"]


def gen_form_chain(rng):
    """one to three forms an orbit is taken through before it is written: the arctan2-based ones (keplerian_circular, keplerian_mean_circular, equinoctial)
    hand back angles in (-pi, pi], sums like u - ω leave the turn on either side"""
    n = rng.choice([1, 1, 2, 2, 3])
    pool = ELEMENT_FORMS * 2 + SPATIAL_FORMS
    return [rng.choice(pool) for _ in range(n)]


def run_form_chain(out, r, chain, explicit):
    """clause 2 on the library's own representatives of an orbit: a parsed TLE taken through other forms and written again is the TLE it came from
    (conversions move a value by ~1e-13 of a printed unit, a grid value sits in the middle of its rounding cell)"""
    from beyond.io.tle import Tle
    text = spec_text(r)
    inp = {"record": r, "chain": chain, "explicit": explicit}
    try:
        x = Tle(text).orbit()
        for f in chain:
            x = x.copy(form=f)
        if explicit:
            x = x.copy(form="TLE")
        angles = [float(v) for v in x.copy(form="TLE")][:5]
    except Exception as e:  # noqa
        out.tally("form-chain-conversion-raises=" + type(e).__name__)        # the forms are another property's matter
        return
    import math
    if not all(math.isfinite(v) for v in angles):
        out.tally("form-chain-not-finite-skipped")
        return
    for k in (1, 3, 4):
        out.tally("form-chain-angle=" + ("negative" if angles[k] < 0 else ("one-turn" if angles[k] < 2 * math.pi else "above-one-turn")))
    before = len(out.failures)
    write_checks(out, x.copy(form="TLE"), "a TLE taken through other forms does not parse back to the converted elements", inp)
    if len(out.failures) > before:
        return
    try:
        got = "ok " + str(Tle.from_orbit(x))
    except Exception as e:  # noqa
        got = real_error_token(e)
    if got != "ok " + text:
        out.fail("form-chain-" + ("unwritable" if not got.startswith("ok ") else "differs"),
                 "a parsed TLE taken through other forms of the same orbit is not written back as the TLE it came from", inp, observed=got, expected=text)


def o_form_chain(out, rng):
    r = gen_rec(rng)
    # a proper ellipse away from the singular elements (i = 0/180, e = 0, n = 0): every form is defined and well conditioned
    r["i4"] = min(max(r["i4"] % 1800000, 10000), 1790000)
    if not 10**4 <= r["e7"] <= 9 * 10**6:
        r["e7"] = rng.randint(10**4, 9 * 10**6)
    if r["n8"] < 10**7:
        r["n8"] = rng.randint(10**7, 17 * 10**8 - 1)
    for k in ("raan4", "argp4", "ma4"):
        # an angle of exactly 0.0000 comes back as 2pi - 1e-15 from some conversions and is written 360.0000 (the carry of WideRange, see generations())
        r[k] = min(max(r[k], 10), 3599990)
    chain = gen_form_chain(rng)
    explicit = rng.random() < 0.5
    out.count(key=(spec_text(r), tuple(chain), explicit), kind="form-chain", first=chain[0], length=len(chain))
    run_form_chain(out, r, chain, explicit)


def o_from_string_modes(out, rng):
    """the options of Tle.from_string: error='raise' stops with TleParseError at the first refused entry (the entries before it are yielded),
    error='warn' logs one warning per refused entry and yields what 'ignore' yields; another comment mark"""
    import logging
    from beyond.io.tle import Tle, TleParseError
    lines, toks = gen_line_tokens(rng)
    atts = spec_attempts(lines)
    verdicts = [try_parse("\n".join(a)) for a in atts]
    out.count(key="\n".join(lines), kind="from-string-modes")
    inp = {"lines": lines, "tokens": toks, "mode": "raise"}
    # raise
    n_before = next((k for k, v in enumerate(verdicts) if v[0] != "ok"), len(verdicts))
    got, end = real_from_string(lines, error="raise")
    want_end = "done" if n_before == len(verdicts) else "TleParseError"
    if end != want_end or [g[1] for g in got] != [v[1].text for v in verdicts[:n_before]]:
        out.fail("from-string-error-raise", "Tle.from_string(error='raise') does not stop with TleParseError at the first refused entry", inp,
                 observed=[end] + [g[1] for g in got], expected=[want_end] + [v[1].text for v in verdicts[:n_before]])
        return
    # warn
    class H(logging.Handler):
        def __init__(self):
            super().__init__()
            self.n = 0

        def emit(self, record):
            if record.levelno >= logging.WARNING:
                self.n += 1
    h = H()
    lg = logging.getLogger("beyond.io.tle")
    lg.addHandler(h)
    old = lg.level
    lg.setLevel(logging.WARNING)
    try:
        got, end = real_from_string(lines, error="warn")
    finally:
        lg.removeHandler(h)
        lg.setLevel(old)
    n_bad = sum(1 for v in verdicts if v[0] != "ok")
    if end != "done" or [g[1] for g in got] != [v[1].text for v in verdicts if v[0] == "ok"] or h.n != n_bad:
        out.fail("from-string-error-warn", "Tle.from_string(error='warn') does not yield the accepted entries with one warning per refused entry", dict(inp, mode="warn"),
                 observed=[end, h.n] + [g[1] for g in got], expected=["done", n_bad] + [v[1].text for v in verdicts if v[0] == "ok"])
        return
    # another comment mark: lines starting with ';' are skipped, lines starting with '#' are ordinary (name) lines
    lines2 = []
    for l in lines:
        lines2.append(l)
        if rng.random() < 0.2:
            lines2.append("; remark")
    try:
        got = [(t.name, t.text) for t in Tle.from_string("\n".join(lines2), comments=";", error="ignore")]
        end = "done"
    except Exception as e:  # noqa
        got, end = [], type(e).__name__

    def kind2(l):
        if not l.strip() or l.startswith(";"):
            return "skip"
        return "one" if l.startswith("1 ") else ("two" if l.startswith("2 ") else "other")
    # the same window rule with the other mark
    exp = []
    p2 = p1 = None
    for x in lines2:
        k = kind2(x)
        if k == "skip":
            continue
        if k == "two":
            w = [] if p1 is None else (([p1] if (p2 is None or p2.startswith("1 ")) else [p2, p1]) if p1.startswith("1 ") else [p1])
            kk, t = try_parse("\n".join(w + [x]))
            if kk == "ok":
                exp.append((t.name, t.text))
            p2 = p1 = None
        else:
            p2, p1 = p1, x
    if end != "done" or got != exp:
        out.fail("from-string-comments-option", "Tle.from_string(comments=';') does not skip exactly the lines starting with that mark", {"lines": lines2, "tokens": toks, "mode": "comments"},
                 observed=[end] + [g[1] for g in got], expected=["done"] + [e[1] for e in exp])


def o_write_grid(out, r):
    """clause 2 on an orbit whose elements are exact printed decimals: the writer must produce the format's lines"""
    from beyond.io.tle import Tle
    orb = rec_to_orbit(r)
    want = spec_text(r)
    out.count(key=want, kind="write-grid")
    try:
        got = str(Tle.from_orbit(orb))
    except Exception as e:  # noqa
        out.fail("write-grid-raises", "an orbit inside the format's ranges cannot be written", {"record": r}, observed=repr(e), expected=want)
        return
    if got != want:
        out.fail("write-grid-differs", "written text differs from the format's column layout", {"record": r}, observed=got, expected=want)


def o_corrupt(out, rng, r, n_digit, n_len):
    """clause 3: wrong checksum / single digit / length / line number => rejected"""
    l1, l2 = spec_lines(r)
    kind0, base = try_parse(l1 + "\n" + l2)
    if kind0 != "ok":
        return
    both = [l1, l2]

    def judge(kindname, lines, detail):
        text = "\n".join(lines)
        k, t = try_parse(text)
        out.count(key=text, kind="corrupt-" + kindname, verdict=k)
        if k == "ok":
            harmless = same_elements(t, base)
            fam = f"corrupt-{kindname}-accepted" + ("" if not harmless else "-harmless")
            if not harmless:
                out.fail(fam, f"a TLE line with a wrong {detail} is accepted and parsed to different elements", {"text": text, "original": l1 + "\n" + l2},
                         observed="accepted", expected="TleParseError")
            else:
                out.tally("accepted-harmless=" + kindname)
        elif k.startswith("other"):
            out.fail(f"corrupt-{kindname}-{k}", f"a TLE line with a wrong {detail} raises something that is not a ValueError", {"text": text}, observed=f"{k}: {t}", expected="TleParseError")
    for li in (0, 1):
        allc = list(digit_corruptions(both[li]))
        pick = allc if n_digit is None else rng.sample(allc, min(n_digit, len(allc)))
        for p, d in pick:
            ls = list(both)
            ls[li] = corrupt_digit(both[li], p, d)
            judge("digit", ls, "digit")
        for kn, bad in length_corruptions(rng, both[li], n_len):
            ls = list(both)
            ls[li] = bad
            judge(kn, ls, "length")
        for bad in linenum_corruptions(both[li]):
            ls = list(both)
            ls[li] = bad
            judge("linenum", ls, "line number")
        # a digit turned into a character no TLE line contains (lower case, punctuation): never acceptable, whatever the check digit says
        digs = [p for p, c in enumerate(both[li]) if c.isdigit() and p > 0]
        for p in (digs if n_digit is None else rng.sample(digs, min(12, len(digs)))):
            ls = list(both)
            ls[li] = corrupt_digit(both[li], p, rng.choice("abcxyz_*,;:!"))
            judge("digit-to-foreign-char", ls, "character (a digit replaced by a character that is not part of the format)")
    # a line of length zero: the text has a single line left
    judge("missing-line", [l1, ""], "length (second line empty)")
    judge("missing-line", [l1], "length (second line missing)")


def corrupt_entry(rng, l1, l2, kind):
    """kind: 'valid' | 'digit' | 'length' | 'linenum<1|2>><c>'"""
    ls = [l1, l2]
    if kind == "digit":
        li = rng.randrange(2)
        p, d = rng.choice([pd for pd in digit_corruptions(ls[li]) if pd[0] > 0])
        ls[li] = corrupt_digit(ls[li], p, d)
    elif kind == "length":
        li = rng.randrange(2)
        p = rng.randrange(2, 69)
        ls[li] = ls[li][:p] + (ls[li][p + 1:] if rng.random() < 0.5 else rng.choice("0123456789") + ls[li][p:])
    elif kind.startswith("linenum"):
        li = int(kind[7]) - 1
        ls[li] = kind[9:] + ls[li][1:]
    return ls


def random_kind(rng):
    k = rng.random()
    if k < 0.55:
        return "valid"
    if k < 0.65:
        return "digit"
    if k < 0.8:
        li = rng.randrange(2)
        return "linenum%d>%s" % (li + 1, rng.choice([c for c in "0123456789" if c != str(li + 1)]))
    return "length"


def o_from_string(out, rng, recs, kinds=None, fillers=True, tag="from-string"):
    """clause 4: a multi-TLE text yields exactly its valid entries"""
    from beyond.io.tle import Tle
    lines = []
    expected = []
    kinds = [random_kind(rng) for _ in recs] if kinds is None else kinds
    labels = []
    for r, kind in zip(recs, kinds):
        l1, l2 = corrupt_entry(rng, *spec_lines(r), kind)
        if fillers and rng.random() < 0.15:
            lines.append(rng.choice(["", "# comment", "   "]))
        if r["name"]:
            lines.append(r["name"])
        lines += [l1, l2]
        labels.append(kind + ("/named" if r["name"] else "/unnamed"))
        if kind == "valid":
            expected.append((r["name"], l1 + "\n" + l2, len(labels) - 1))
    text = "\n".join(lines)
    out.count(key=text, kind=tag, entries=len(recs))
    inp = {"text": text, "kinds": labels}
    try:
        got = [(t.name, t.text) for t in Tle.from_string(text, error="ignore")]
    except Exception as e:  # noqa
        out.fail("from-string-raises-" + type(e).__name__, "Tle.from_string(error='ignore') raises", inp, observed=repr(e), expected=[e[1] for e in expected])
        return
    gt = [g[1] for g in got]
    if gt != [e[1] for e in expected]:
        missing = [e for e in expected if e[1] not in gt]
        extra = [g for g in gt if g not in [e[1] for e in expected]]
        if missing and not extra:
            # the family names the corruption of the entry in front of the first lost one and whether the lost one has a name line
            i = missing[0][2]
            prev = labels[i - 1].split("/")[0] if i > 0 else "none"
            fam = "from-string-valid-entry-lost-after-" + prev + "-" + labels[i].split("/")[1]
        else:
            fam = "from-string-extra-entry"
        out.fail(fam, "Tle.from_string does not yield exactly the valid entries of the text", inp, observed=gt, expected=[e[1] for e in expected])
        return
    for g, e in zip(got, expected):
        if g[0] != e[0]:
            # an entry without name line that follows a line which is neither '1 ' nor '2 ' takes that line as its name: by design
            # (any such line *is* a name line in the 3LE format); counted, not failed
            if e[0] == "":
                out.tally("from-string-name-from-preceding-bad-line")
            else:
                out.fail("from-string-name", "entry yielded with another name", inp, observed=g[0], expected=e[0])


def o_from_string_directed(out, rng):
    """every kind of single corruption of an entry (named or not) followed by a valid entry (named or not) and preceded by one"""
    kinds = ["digit", "length"] + ["linenum1>" + c for c in "023456789"] + ["linenum2>" + c for c in "013456789"]
    for kind in kinds:
        for an in (False, True):
            for bn in (False, True):
                recs = [gen_rec(rng), gen_rec(rng, named=an), gen_rec(rng, named=bn)]
                o_from_string(out, rng, recs, ["valid", kind, "valid"], fillers=False, tag="from-string-directed")


# ---------------------------------------------------------------- from_string on arbitrary lists of lines

def line_kind(l):
    if not l.strip() or l.startswith("#"):
        return "skip"
    if l.startswith("1 "):
        return "one"
    if l.startswith("2 "):
        return "two"
    return "other"


def spec_attempts(lines):
    """the texts a reader without memory tries, one per non-skipped line '2 ...': that line preceded by the line '1 ...' in front of it and
    by the name line in front of that (Props/C12Lines.lean `attempts` / `window`; written from the property, not from the code)"""
    out = []
    p2 = p1 = None
    for x in lines:
        k = line_kind(x)
        if k == "skip":
            continue
        if k == "two":
            if p1 is None:
                w = []
            elif p1.startswith("1 "):
                w = [p1] if (p2 is None or p2.startswith("1 ")) else [p2, p1]
            else:
                w = [p1]
            out.append(w + [x])
            p2 = p1 = None
        else:
            p2, p1 = p1, x
    return out


def blank_field(l1, a, b):
    v = l1[:a] + " " * (b - a) + l1[b:68]
    return v + str(spec_checksum(v))


LINE_TOKENS = ["valid2", "valid3", "valid3-0", "digit", "length", "blank", "comment", "orphan1", "orphan2", "junk", "lead-blank-1", "swapped", "bad-then-1",
               "blank-inside", "blank-drag", "alpha5", "blank-elnb", "unconvertible"]


def token_lines(rng, t):
    """the lines of one token of an arbitrary text"""
    r = gen_rec(rng, named=t in ("valid3", "valid3-0"))
    l1, l2 = spec_lines(r)
    if t == "valid2":
        return [l1, l2]
    if t == "valid3":
        return [r["name"] + rng.choice(["", "  "]), l1, l2]
    if t == "valid3-0":
        return ["0 " + r["name"], l1, l2]
    if t in ("digit", "length"):
        return corrupt_entry(rng, l1, l2, t)
    if t == "blank":
        return [rng.choice(["", "   ", "\t"])]
    if t == "comment":
        return [rng.choice(["# comment", "#", "#1 25544U"])]
    if t == "orphan1":
        return [l1]
    if t == "orphan2":
        return [l2]
    if t == "junk":
        return [rng.choice([gen_name(rng), "1", "2", "1X", "3 " + l2[2:], " # indented", "0 NAME", "25544"])]
    if t == "lead-blank-1":
        return [" " + l1, l2]
    if t == "swapped":
        return [l2, l1]
    if t == "bad-then-1":
        return [l1, "1" + l2[1:]]
    if t == "blank-inside":
        return [l1, rng.choice(["", "# c"]), l2]
    if t == "blank-drag":
        a, b = rng.choice([(44, 52), (53, 61)])
        return [blank_field(l1, a, b), l2]
    # entries that pass _check_validity (length, line numbers, checksums) but hold a field int()/float() cannot convert: refused with a plain
    # ValueError, which from_string has to treat like any other refusal
    if t == "alpha5":
        # an Alpha-5 catalogue number, as distributed for objects above 99999 (letters count 0 in the checksum)
        a5 = rng.choice("ABCDEFGHJKLMNPQRSTUVWXYZ") + "%04d" % rng.randint(0, 9999)
        v1, v2 = l1[:2] + a5 + l1[7:68], l2[:2] + a5 + l2[7:68]
        return [v1 + str(spec_checksum(v1)), v2 + str(spec_checksum(v2))]
    if t == "blank-elnb":
        return [blank_field(l1, 64, 68), l2]
    if t == "unconvertible":
        k = rng.choice(["revs", "inc", "mm", "ndot", "epoch", "etype"])
        if k == "revs":
            v = l2[:63] + "     "
            return [l1, v + str(spec_checksum(v))]
        if k == "inc":
            v = l2[:8] + rng.choice(["  .     ", " 5 .6416", "51..6416"]) + l2[16:68]
            return [l1, v + str(spec_checksum(v))]
        if k == "mm":
            v = l2[:52] + rng.choice(["15.72 25391", "   .       "]) + l2[63:68]
            return [l1, v + str(spec_checksum(v))]
        if k == "ndot":
            return [blank_field(l1, 33, 43), l2]
        if k == "epoch":
            return [blank_field(l1, 18, 20), l2]
        return [blank_field(l1, 62, 63), l2]
    raise ValueError(t)


def gen_line_tokens(rng, n=None, allow_blank_drag=True):
    """an arbitrary interleaving: -> (list of lines, list of token names)"""
    lines, toks = [], []
    for _ in range(n or rng.randint(1, 7)):
        t = rng.choice(LINE_TOKENS)
        if t == "blank-drag" and (not allow_blank_drag or rng.random() < 0.7):
            t = "valid2"
        lines += token_lines(rng, t)
        toks.append(t)
    return lines, toks


def real_from_string(lines, error="ignore"):
    """-> (list of (name, text), 'done' | exception type name)"""
    from beyond.io.tle import Tle
    got = []
    try:
        for t in Tle.from_string("\n".join(lines), error=error):
            got.append((t.name, t.text))
    except Exception as e:  # noqa
        return got, type(e).__name__
    return got, "done"


def judge_from_string_lines(out, lines, toks, tag):
    """clause 4 on an arbitrary list of lines: exactly the accepted attempts, with their names, in order; never an exception"""
    atts = spec_attempts(lines)
    expected = []
    for a in atts:
        k, t = try_parse("\n".join(a))
        if k == "ok":
            expected.append((t.name, t.text))
    got, end = real_from_string(lines)
    inp = {"lines": lines, "tokens": toks}
    if end != "done":
        # which attempt raises on its own?
        culprit = next((a for a in atts if try_parse("\n".join(a))[0].startswith("other")), None)
        fam = "from-string-raises-" + end
        if end == "ValueError":
            fam = "from-string-raises-ValueError-unconvertible-field"
        if culprit is not None and end == "IndexError":
            l1 = culprit[-2] if len(culprit) >= 2 else ""
            if len(l1.strip()) == 69 and (not l1.strip()[44:52].strip() or not l1.strip()[53:61].strip()):
                fam = "from-string-raises-IndexError-blank-drag-field"
        out.fail(fam, "Tle.from_string(error='ignore') raises instead of skipping the entry: the valid entries after it are lost", inp,
                 observed=end, expected=[e[1] for e in expected])
        return
    if [g[1] for g in got] != [e[1] for e in expected]:
        lost = [e for e in expected if e[1] not in [g[1] for g in got]]
        fam = "from-string-lines-entry-lost" if lost else "from-string-lines-extra-entry"
        out.fail(fam + "-" + tag, "Tle.from_string does not yield exactly the accepted entries of the text", inp, observed=[g[1] for g in got], expected=[e[1] for e in expected])
        return
    for g, e in zip(got, expected):
        if g[0] != e[0]:
            out.fail("from-string-lines-name-" + tag, "an entry is yielded with a name that is not the line in front of its line 1", inp, observed=g[0], expected=e[0])
            return


def o_from_string_lines(out, rng):
    lines, toks = gen_line_tokens(rng)
    out.count(key="\n".join(lines), kind="from-string-lines", tokens=len(toks))
    for t in toks:
        out.tally("fs-token=" + t)
    judge_from_string_lines(out, lines, toks, "random")


def o_from_string_pairs(out, rng):
    """every ordered pair of token kinds followed by a valid entry, so that what each kind leaves behind meets each kind (the cache after a
    rejected entry, an orphan line, a name line...)"""
    kinds = list(LINE_TOKENS)
    for a in kinds:
        for b in kinds:
            lines = token_lines(rng, a) + token_lines(rng, b) + token_lines(rng, "valid2")
            out.count(key="\n".join(lines), kind="from-string-pairs")
            judge_from_string_lines(out, lines, [a, b, "valid2"], "after-" + a + "-" + b)


def o_from_string_unconvertible(out, rng):
    """an entry that passes the validity check but cannot be converted, between valid entries, in every error mode"""
    for t in ("alpha5", "blank-elnb", "unconvertible", "unconvertible", "blank-drag"):
        lines = token_lines(rng, "valid2") + token_lines(rng, t) + token_lines(rng, rng.choice(["valid2", "valid3"]))
        toks = ["valid2", t, "valid"]
        out.count(key="\n".join(lines), kind="from-string-unconvertible")
        judge_from_string_lines(out, lines, toks, "unconvertible")
        import harness.props.C12 as me
        saved = me.gen_line_tokens
        me.gen_line_tokens = lambda rng, n=None, allow_blank_drag=True: (lines, toks)
        try:
            o_from_string_modes(out, rng)
        finally:
            me.gen_line_tokens = saved


def o_from_string_blank_drag(out, rng):
    """an entry whose drag field is blank (checksum right) between valid entries: Tle(...) must refuse it with a ValueError and from_string skip it"""
    for a, b in ((44, 52), (53, 61)):
        r0, r1, r2 = gen_rec(rng, named=False), gen_rec(rng, named=False), gen_rec(rng)
        l1, l2 = spec_lines(r1)
        lines = list(spec_lines(r0)) + [blank_field(l1, a, b), l2] + spec_text(r2).split("\n")
        out.count(key="\n".join(lines), kind="from-string-blank-drag")
        judge_from_string_lines(out, lines, ["valid2", "blank-drag", "valid"], "blank-drag")



# ---------------------------------------------------------------- operation histories on one orbit (Model/TleOrb.lean)

def gen_cospar_id(rng):
    return "%d-%03d%s" % (rng.randint(1957, 2056), rng.randint(1, 999), "".join(rng.choice(UPPER) for _ in range(rng.choice([1, 2, 3]))))


def gen_history(rng, n=None):
    """-> (start form, record, list of ops). An op is a tuple: ('name', str|None) ('norad', ('i', int)|('s', str)|None) ('cospar', str|None)
    ('num', field, value) ('epoch', yy, day8) ('ndot', neg, m8) ('ndd', unfl) ('bstar', unfl) ('elnb', int) ('revs', int) ('copy',) ('copyconv',)
    ('reread',) ('read', name|None, norad|None, cospar|None)"""
    start = rng.choice(["tle", "tle", "rec", "bare"])
    r = gen_rec(rng)
    ops = []
    for _ in range(n or rng.randint(2, 9)):
        k = rng.random()
        if k < 0.30:
            kw = [None, None, None]
            if rng.random() < 0.25:
                kw[0] = rng.choice(["", gen_name(rng)])
            if rng.random() < 0.25:
                kw[1] = rng.choice([("i", 0), ("i", rng.randint(0, 99999)), ("s", "%05d" % rng.randint(0, 99999)), ("i", 100000), ("s", "A0001"), ("s", "7")])
            if rng.random() < 0.25:
                kw[2] = rng.choice(["", gen_cospar_id(rng)])
            ops.append(("read",) + tuple(kw))
        elif k < 0.40:
            ops.append(rng.choice([("copy",), ("copyconv",)]))
        elif k < 0.47:
            ops.append(("reread",))
        elif k < 0.55:
            ops.append(("name", rng.choice([None, "", gen_name(rng)])))
        elif k < 0.63:
            ops.append(("norad", rng.choice([None, ("i", 0), ("i", rng.randint(0, 99999)), ("i", 99999), ("i", 100000), ("s", "%05d" % rng.randint(0, 99999)), ("s", "A0001"), ("s", "42")])))
        elif k < 0.70:
            ops.append(("cospar", rng.choice([None, "", gen_cospar_id(rng)])))
        else:
            g = gen_rec(rng)
            f = rng.choice(["inc4", "raan4", "argp4", "ma4", "ecc7", "mm8", "epoch", "ndot", "ndd", "bstar", "elnb", "revs", "ecc-one", "elnb-wide", "revs-wide"])
            if f in ("inc4", "raan4", "argp4", "ma4", "ecc7", "mm8"):
                v = g[{"mm8": "n8", "ecc7": "e7", "inc4": "i4"}.get(f, f)]
                if f in ("raan4", "argp4", "ma4", "inc4") and 10 <= v <= 3599990 and rng.random() < 0.35:
                    # the same angle held as another representative (whole turns away: (-pi, pi], (-2pi, 0], several turns): the model's state is the
                    # angle on the printed grid, the request line does not carry the turns
                    ops.append(("num", f, v, rng.choice([-1, -1, -1, 1, -2, 3])))
                else:
                    ops.append(("num", f, v))
            elif f == "epoch":
                ops.append(("epoch", g["yy"], g["day8"]))
            elif f == "ndot":
                ops.append(("ndot",) + tuple(g["ndot"]))
            elif f in ("ndd", "bstar"):
                ops.append((f, g[f]))
            elif f in ("elnb", "revs"):
                ops.append((f, g[f]))
            elif f == "ecc-one":
                ops.append(("num", "ecc7", 10**7))
            elif f == "elnb-wide":
                ops.append(("elnb", 10000))
            else:
                ops.append(("revs", 100000))
    ops.append(("read", None, None, None))
    return start, r, ops


def hist_start(start, r):
    """the real orbit a history starts from"""
    from beyond.io.tle import Tle
    if start == "tle":
        return Tle(spec_text(r)).orbit()
    orb = rec_to_orbit(r)
    if start == "bare":
        for k in ("name", "norad_id", "cospar_id"):
            del orb._data[k]
    return orb


def hist_apply(orb, cur, op, rng=None):
    """apply one non-read op to the real orbit (in place where the op is an in-place modification); cur is the shadow record. -> orbit"""
    import math
    from datetime import datetime, timedelta
    from beyond.dates import Date
    from beyond.io.tle import Tle
    k = op[0]
    alt = rng is not None and rng.random() < 0.5     # attribute name or index / item access: two routes to the same cell
    if k == "name":
        if op[1] is None:
            orb._data.pop("name", None)
        else:
            orb.name = op[1]
    elif k == "norad":
        if op[1] is None:
            orb._data.pop("norad_id", None)
        else:
            orb.norad_id = op[1][1]
    elif k == "cospar":
        if op[1] is None:
            orb._data.pop("cospar_id", None)
        else:
            orb.cospar_id = op[1]
    elif k == "num":
        f, v = op[1], op[2]
        cur[{"mm8": "n8", "ecc7": "e7", "inc4": "i4"}.get(f, f)] = v
        idx = {"inc4": 0, "raan4": 1, "ecc7": 2, "argp4": 3, "ma4": 4, "mm8": 5}[f]
        val = v / 1e7 if f == "ecc7" else (v / 1e8 * 2 * math.pi / 86400.0 if f == "mm8" else math.radians(v / 1e4))
        if len(op) > 3 and op[3]:
            val = math.radians(v / 1e4 + 360.0 * op[3])      # another representative of the same angle (v/1e4 is at least 1e-3 deg inside the turn)
        if alt:
            orb[idx] = val
        else:
            setattr(orb, ["i", "Ω", "e", "ω", "M", "n"][idx], val)
    elif k == "epoch":
        cur["yy"], cur["day8"] = op[1], op[2]
        orb.date = Date(datetime(full_year(op[1]), 1, 1) + timedelta(microseconds=(op[2] - 10**8) * 864))
    elif k == "ndot":
        cur["ndot"] = (op[1], op[2])
        v = op[2] / 1e8 * 2
        if alt:
            orb["ndot"] = -v if op[1] else v
        else:
            orb.ndot = -v if op[1] else v
    elif k == "ndd":
        cur["ndd"] = op[1]
        orb.ndotdot = float(unfl_value(op[1])) * 6
    elif k == "bstar":
        cur["bstar"] = op[1]
        orb.bstar = float(unfl_value(op[1]))
    elif k == "elnb":
        cur["elnb"] = op[1]
        orb.element_nb = op[1]
    elif k == "revs":
        cur["revs"] = op[1]
        orb.revolutions = op[1]
    elif k == "copy":
        orb = orb.copy()
    elif k == "copyconv":
        orb = orb.copy(form="TLE", frame="TEME")
    elif k == "reread":
        try:
            orb = Tle.from_orbit(orb).orbit()
        except ValueError:
            pass
    return orb


def hist_read(orb, op):
    from beyond.io.tle import Tle
    kw = {}
    if op[1] is not None:
        kw["name"] = op[1]
    if op[2] is not None:
        kw["norad_id"] = op[2][1]
    if op[3] is not None:
        kw["cospar_id"] = op[3]
    try:
        return "ok " + str(Tle.from_orbit(orb, **kw)), kw
    except Exception as e:  # noqa
        return real_error_token(e), kw


def hist_line(start, r, ops):
    def optstr(v):
        return "-" if v is None else hx(v)

    def optid(v):
        return "-" if v is None else ("i%d" % v[1] if v[0] == "i" else "s" + hx(v[1]))

    def u(x):
        return "z" if x[1] == 0 else f"{1 if x[0] else 0} {x[1]} {x[2]}"
    if start == "bare":
        ident = ["-", "-", "-"]
    else:
        ident = [hx(r["name"]), "i%d" % r["norad"], hx(rec_cospar_id(r))]
    toks = ["tle.hist"] + ident + ["1" if start == "tle" else "0"] + rec_line(r).split(" ")[1:]
    for op in ops:
        k = op[0]
        if k in ("name", "cospar"):
            t = [k, optstr(op[1])]
        elif k == "norad":
            t = [k, optid(op[1])]
        elif k == "num":
            t = ["num", op[1], str(op[2])]
        elif k == "epoch":
            t = ["num", "yy", str(op[1]), "|", "num", "day8", str(op[2])]
        elif k == "ndot":
            t = ["ndotneg", "1" if op[1] else "0", "|", "num", "ndot8", str(op[2])]
        elif k in ("ndd", "bstar"):
            t = [k] + u(op[1]).split(" ")
        elif k in ("elnb", "revs"):
            t = [k, str(op[1])]
        elif k in ("copy", "copyconv"):
            t = ["copy"]
        elif k == "reread":
            t = ["reread"]
        else:
            t = ["read", optstr(op[1]), optid(op[2]), optstr(op[3])]
        toks += ["|"] + t
    return " ".join(toks)


def k_history(out, rng, n):
    """sequence correspondence: random histories on one real orbit vs the compiled state machine"""
    hs = [gen_history(rng) for _ in range(n)]
    reqs = [hist_line(*h) for h in hs]
    for (start, r, ops), m, req in zip(hs, core.Driver().run(reqs), reqs):
        orb = hist_start(start, r)
        cur = dict(r)
        real = []
        for op in ops:
            if op[0] == "read":
                real.append(hist_read(orb, op)[0])
            else:
                orb = hist_apply(orb, cur, op, rng)
        model = []
        for x in (m.split(" ; ") if m else []):
            model.append("ok " + "\n".join(unhx(y) for y in x[3:].split(",")) if x.startswith("ok ") else x)
        out.count(key=("hist", req), kind="history", start=start, reads=len(real), ops=len(ops))
        for op in ops:
            out.tally("hist-op=" + op[0])
        if real != model:
            k = next((i for i, (a, b) in enumerate(zip(real, model)) if a != b), min(len(real), len(model)))
            out.fail("history", "a read after a history of modifications differs from the model", {"start": start, "record": r, "ops": ops, "read": k},
                     observed=real[k] if k < len(real) else real, expected=model[k] if k < len(model) else model)
    out.sample({"request": reqs[0][:200], "reply": "(see correspondence)"}, limit=3)


ID_KEYS = ("bstar", "ndot", "ndotdot", "name", "cospar_id", "norad_id", "element_nb", "revolutions", "type")


def fresh_orbit(orb):
    """a new orbit holding the current values of `orb` and nothing else (no source Tle)"""
    return real_orbit([float(x) for x in orb], orb.date, **{k: orb._data[k] for k in ID_KEYS if k in orb._data})


def run_history(out, start, r, ops, rng=None):
    """clause 'after any in-place modification, Tle.from_orbit reflects the current values' on one history"""
    from beyond.io.tle import Tle
    orb = hist_start(start, r)
    cur = dict(r)
    ident_touched = start == "bare"
    last_mod = "none"
    inp = {"start": start, "record": r, "ops": ops}
    for n_op, op in enumerate(ops):
        if op[0] != "read":
            orb = hist_apply(orb, cur, op, rng)
            if op[0] in ("name", "norad", "cospar"):
                ident_touched = True
            if op[0] not in ("copy", "copyconv", "reread"):
                last_mod = op[0] if op[0] != "num" else op[1]
            continue
        got, kw = hist_read(orb, op)
        try:
            want = "ok " + str(Tle.from_orbit(fresh_orbit(orb), **kw))
        except Exception as e:  # noqa
            want = real_error_token(e)
        if got != want:
            out.fail("history-read-differs-from-fresh-after-" + last_mod, "Tle.from_orbit on an orbit with a history differs from Tle.from_orbit on a fresh orbit holding the same values",
                     dict(inp, read=n_op), observed=got, expected=want)
            return
        if kw and got.startswith("ok "):
            # explicit arguments take precedence over what the orbit carries
            from beyond.io.tle import Tle
            t = Tle(got[3:])
            bad = None
            if "name" in kw and t.name != kw["name"].strip():
                bad = ("name", t.name, kw["name"])
            if "norad_id" in kw and t.norad_id != int(kw["norad_id"]):
                bad = ("norad_id", t.norad_id, kw["norad_id"])
            if "cospar_id" in kw and t.cospar_id != kw["cospar_id"]:
                bad = ("cospar_id", t.cospar_id, kw["cospar_id"])
            if bad:
                out.fail("from-orbit-argument-" + bad[0], "an explicit argument of Tle.from_orbit is not what the written TLE shows", dict(inp, read=n_op), observed=bad[1], expected=bad[2])
                return
        in_range = cur["e7"] < 10**7 and cur["elnb"] < 10000 and cur["revs"] < 100000
        if not ident_touched and not kw and in_range:
            spec = "ok " + spec_text(cur)
            if got != spec:
                out.fail("history-read-stale-after-" + last_mod, "Tle.from_orbit does not show the current values of the orbit", dict(inp, read=n_op), observed=got, expected=spec)
                return


def o_history(out, rng):
    start, r, ops = gen_history(rng)
    out.count(key=hist_line(start, r, ops), kind="history", start=start)
    run_history(out, start, r, ops, rng)


def o_history_directed(out, rng):
    """parse, take the orbit, change ONE thing in place, write: for every thing that can be changed, with and without a copy in between"""
    g = gen_rec(rng)
    mods = [("num", f, g[{"mm8": "n8", "ecc7": "e7", "inc4": "i4"}.get(f, f)]) for f in ("inc4", "raan4", "argp4", "ma4", "ecc7", "mm8")] + \
           [("ndot",) + tuple(g["ndot"]), ("ndd", g["ndd"]), ("bstar", g["bstar"]), ("elnb", g["elnb"]), ("revs", g["revs"]), ("epoch", g["yy"], g["day8"])] + \
           [("num", f, min(max(g[f], 10), 3599990), t) for f, t in (("raan4", -1), ("argp4", -1), ("ma4", -1), ("argp4", 2))]
    for mod in mods:
        for mid in ([], [("copy",)], [("read", None, None, None)], [("copyconv",), ("read", None, None, None)]):
            for start in ("tle", "rec"):
                r = gen_rec(rng)
                ops = mid + [mod] + [("read", None, None, None)]
                out.count(key=hist_line(start, r, ops), kind="history-directed")
                run_history(out, start, r, ops, rng)



def o_tle_reuse(out, rng):
    """one Tle object asked for its orbit several times, the orbits handed out being modified in place in between: every orbit() is a
    new object holding the PARSED values (Tle.from_orbit of it gives the text a fresh parse gives), the Tle itself does not change, and
    an orbit handed out earlier keeps its own modifications"""
    from beyond.io.tle import Tle
    r = gen_rec(rng)
    text = spec_text(r)
    tle = Tle(text)
    inp = {"record": r}
    try:
        want = "ok " + str(Tle.from_orbit(Tle(text).orbit()))
    except Exception as e:  # noqa
        want = real_error_token(e)
    o1 = tle.orbit()
    cur = dict(r)
    _, _, ops = gen_history(rng, n=rng.randint(1, 4))
    mods = [op for op in ops if op[0] not in ("read", "copy", "copyconv", "reread")] or [("name", "REUSED"), ("bstar", gen_rec(rng)["bstar"])]
    for op in mods:
        o1 = hist_apply(o1, cur, op, rng)
    out.count(key=("reuse", text, repr(mods)), kind="tle-reuse", mods=len(mods))
    o2 = tle.orbit()
    inp = dict(inp, mods=mods)
    if o2 is o1:
        out.fail("tle-orbit-same-object", "two calls of Tle.orbit() on one Tle hand out the same Orbit object", inp, observed="o2 is o1", expected="distinct objects")
        return
    try:
        got = "ok " + str(Tle.from_orbit(o2))
    except Exception as e:  # noqa
        got = real_error_token(e)
    if got != want:
        out.fail("tle-orbit-after-inplace-" + mods[-1][0], "Tle.orbit() after an earlier orbit of the same Tle was modified in place does not hold the parsed values", inp, observed=got, expected=want)
        return
    if str(tle) != str(Tle(text)) or tle.to_list() != Tle(text).to_list():
        out.fail("tle-object-changed", "the Tle object changed after an orbit it handed out was modified", inp, observed=str(tle), expected=str(Tle(text)))
        return
    # the earlier orbit keeps its own modifications
    try:
        g1 = "ok " + str(Tle.from_orbit(o1))
    except Exception as e:  # noqa
        g1 = real_error_token(e)
    try:
        w1 = "ok " + str(Tle.from_orbit(fresh_orbit(o1)))
    except Exception as e:  # noqa
        w1 = real_error_token(e)
    if g1 != w1:
        out.fail("tle-reuse-first-orbit-lost-" + mods[-1][0], "an orbit modified in place lost its values after Tle.orbit() was called again", inp, observed=g1, expected=w1)


def o_unfloat(out, rng):
    from beyond.io.tle import _float, _unfloat
    u = gen_unfl(rng)
    txt = fmt_unfl(u)
    out.count(key=txt, kind="unfloat")
    v = _float(txt if rng.random() < 0.5 else " " + txt)
    if not abs(Fraction(v) - unfl_value(u)) <= abs(unfl_value(u)) * Fraction(1, 10**12):
        out.fail("float-value", "_float does not return the printed value", {"text": txt}, observed=v, expected=float(unfl_value(u)))
    if _unfloat(v) != txt:
        out.fail("unfloat-float", "_unfloat(_float(text)) != text", {"text": txt}, observed=_unfloat(v), expected=txt)
    if _float(_unfloat(v)) != v:
        out.fail("float-unfloat", "_float(_unfloat(x)) != x on a printed value", {"text": txt}, observed=_float(_unfloat(v)), expected=v)


def oracle(ctx, widened):
    from harness import env
    env.use_real_eop()
    out = Outcome()
    rng = ctx.rng
    big = widened or ctx.thorough
    for _ in range(4000 if big else 400):
        o_parse_write(out, gen_rec(rng))
    for _ in range(3000 if big else 300):
        o_write_grid(out, gen_rec(rng))
    for _ in range(10000 if big else 1000):
        o_write(out, rng)
    for _ in range(5000 if big else 500):
        o_unfloat(out, rng)
    for k in range(100 if big else 12):
        o_corrupt(out, rng, gen_rec(rng, named=False), None if (big and k < 30) or k < 2 else 40, 30 if big else 12)
    for _ in range(3000 if big else 300):
        o_from_string(out, rng, [gen_rec(rng) for _ in range(rng.randint(1, 5))])
    for _ in range(10 if big else 1):
        o_from_string_directed(out, rng)
    for _ in range(4000 if big else 400):
        o_from_string_lines(out, rng)
    for _ in range(5 if big else 1):
        o_from_string_pairs(out, rng)
    o_from_string_blank_drag(out, rng)
    for _ in range(10 if big else 2):
        o_from_string_unconvertible(out, rng)
    for _ in range(3000 if big else 300):
        o_history(out, rng)
    for _ in range(3 if big else 1):
        o_history_directed(out, rng)
    for _ in range(1500 if big else 150):
        o_foreign_form(out, rng)
    for _ in range(1500 if big else 150):
        o_from_string_modes(out, rng)
    for _ in range(3000 if big else 300):
        o_form_chain(out, rng)
    for _ in range(2000 if big else 200):
        o_tle_reuse(out, rng)
    out.sample({"checked": "parse->write identity, write->parse elements, 69 columns + checksums, every digit/length/line-number corruption rejected, from_string yields exactly the valid entries"})
    return out


def replay_modes(out, i):
    """re-run the option checks of Tle.from_string on recorded lines"""
    import random as _r
    import harness.props.C12 as me
    saved = me.gen_line_tokens
    lines = [l for l in i["lines"] if l != "; remark"]
    me.gen_line_tokens = lambda rng, n=None, allow_blank_drag=True: (lines, i["tokens"])
    try:
        for seed in range(5):
            o_from_string_modes(out, _r.Random(seed))
            if out.failures:
                break
    finally:
        me.gen_line_tokens = saved


def replay(f):
    """re-run one recorded failing input on the real API"""
    import random
    from datetime import datetime, timedelta
    out = Outcome()
    i = f["input"]
    fam = f["family"]
    rng = random.Random(0)
    if "ops" in i:
        ops = [tuple(tuple(x) if isinstance(x, list) else x for x in op) for op in i["ops"]]
        r = dict(i["record"])
        for k in ("ndot", "ndd", "bstar"):
            r[k] = tuple(r[k])
        run_history(out, i["start"], r, ops)
        for x in out.failures:
            x["family"] = fam
    elif "chain" in i:
        r = dict(i["record"])
        for k in ("ndot", "ndd", "bstar"):
            r[k] = tuple(r[k])
        run_form_chain(out, r, list(i["chain"]), i["explicit"])
    elif "record" in i:
        r = dict(i["record"])
        for k in ("ndot", "ndd", "bstar"):
            r[k] = tuple(r[k])
        o_write_grid(out, r)
    elif "vals" in i:
        from beyond.dates import Date
        y, us = i["epoch"]
        orb = real_orbit(i["vals"], Date(datetime(y, 1, 1) + timedelta(microseconds=us)), **i["data"])
        if i.get("scale", "UTC") != "UTC":
            from harness import env
            env.use_real_eop()
            orb = with_scale(orb, i["scale"])
        tle = judge_write(out, orb, i)
        if tle is not None and fam == "rewrite-not-stable":
            from beyond.io.tle import Tle
            if str(Tle.from_orbit(tle.orbit())) != str(tle):
                out.fail(fam, f["what"], i)
    elif "original" in i:
        k0, base = try_parse(i["original"])
        k, t = try_parse(i["text"])
        if k.startswith("other") or (k == "ok" and not (k0 == "ok" and same_elements(t, base))):
            out.fail(fam, f["what"], i, observed=k)
    elif fam.startswith("corrupt-"):
        k, t = try_parse(i["text"])
        if k == "ok" or k.startswith("other"):
            out.fail(fam, f["what"], i, observed=k)
    elif "form" in i and "frame" in i:
        import random as _r
        rr = dict(i["record"])
        for k in ("ndot", "ndd", "bstar"):
            rr[k] = tuple(rr[k])

        class Fixed(_r.Random):
            def choice(self, seq):
                return (i["form"], i["frame"]) if seq is FOREIGN else super().choice(seq)
        import harness.props.C12 as me
        saved = me.gen_rec
        me.gen_rec = lambda rng, named=None: rr
        try:
            o_foreign_form(out, Fixed(0))
        finally:
            me.gen_rec = saved
        for x in out.failures:
            x["family"] = fam
    elif "lines" in i and "mode" in i:
        replay_modes(out, i)
        for x in out.failures:
            x["family"] = fam
    elif "lines" in i and "tokens" in i:
        judge_from_string_lines(out, i["lines"], i["tokens"], fam.rsplit("-", 1)[-1] if False else "replay")
        for x in out.failures:
            x["family"] = fam
    elif "kinds" in i:
        from beyond.io.tle import Tle
        try:
            got = [t.text for t in Tle.from_string(i["text"], error="ignore")]
        except Exception as e:  # noqa
            got = repr(e)
        if got != f["expected"]:
            out.fail(fam, f["what"], i, observed=got, expected=f["expected"])
    elif "text" in i:
        k, tle = try_parse(i["text"])
        if k != "ok":
            out.fail(fam, f["what"], i, observed=k)
        else:
            try:
                back = real_write_from_tle(tle)
            except Exception as e:  # noqa
                back = repr(e)
            if back != i["text"] or str(tle) != i["text"]:
                out.fail(fam, f["what"], i, observed=back, expected=i["text"])
    return out


# ---------------------------------------------------------------- extraction: column table, checksum constants, writer layout

def _lean_str(s):
    return '"' + s.replace("\\", "\\\\").replace('"', '\\"') + '"'


def _find(tree, cls, fn):
    for n in tree.body:
        if isinstance(n, ast.ClassDef) and n.name == cls:
            for m in n.body:
                if isinstance(m, ast.FunctionDef) and m.name == fn:
                    return m
    raise RuntimeError(f"{cls}.{fn} not found in tle.py")


def _const_int(n):
    if isinstance(n, ast.Constant) and isinstance(n.value, int):
        return n.value
    raise RuntimeError("non-constant slice bound: " + ast.dump(n))


def _slices_of(node):
    """[(var, lo, hi)] for every first[...] / second[...] under node, in source order"""
    out = []
    for s in ast.walk(node):
        if isinstance(s, ast.Subscript) and isinstance(s.value, ast.Name) and s.value.id in ("first", "second"):
            sl = s.slice
            if isinstance(sl, ast.Slice):
                if sl.step is not None or sl.lower is None or sl.upper is None:
                    raise RuntimeError("unexpected slice form " + ast.dump(sl))
                out.append((s.value.id, _const_int(sl.lower), _const_int(sl.upper), s.lineno, s.col_offset))
            else:
                k = _const_int(sl)
                out.append((s.value.id, k, k + 1, s.lineno, s.col_offset))
    out.sort(key=lambda t: (t[3], t[4]))
    return [(v, a, b) for v, a, b, _, _ in out]


def _target(t):
    if isinstance(t, ast.Attribute) and isinstance(t.value, ast.Name) and t.value.id == "self":
        return t.attr
    if isinstance(t, ast.Name):
        return t.id
    return None


LEAN_NAMES = {"norad_id": "norad", "classification": "classification", "cospar_test": "cosparTest", "cospar_year": "cosparYear", "cospar_id": "cosparPiece",
              "year": "epochYear", "epoch": "epochDay", "ndot": "ndot", "ndotdot": "ndotdot", "bstar": "bstar", "element_nb": "elnb",
              "revolutions": "revs", "type": "etype", "i": "inc", "Ω": "raan", "e": "ecc", "ω": "argp", "M": "ma", "n": "mm"}
EXPECT_VAR = {"revs": "second", "inc": "second", "raan": "second", "ecc": "second", "argp": "second", "ma": "second", "mm": "second"}


def read_columns(tree):
    init = _find(tree, "Tle", "__init__")
    cols = {}
    pivots = []

    def put(name, sl):
        if len(sl) != 1:
            raise RuntimeError(f"expected exactly one column slice for {name}, found {sl}")
        if name in cols:
            raise RuntimeError(f"column slice for {name} assigned twice")
        cols[name] = sl[0]
    for st in init.body:
        if isinstance(st, ast.If) and _slices_of(st.test):
            put("cospar_test", _slices_of(st.test))
            for s2 in st.body:
                if isinstance(s2, ast.Assign) and _slices_of(s2.value):
                    t = _target(s2.targets[0])
                    put("cospar_year" if t == "year" else t, _slices_of(s2.value))
                if isinstance(s2, ast.AugAssign):
                    pivots.append(ast.unparse(s2.value))
        elif isinstance(st, ast.Assign) and _slices_of(st.value):
            put(_target(st.targets[0]), _slices_of(st.value))
        elif isinstance(st, ast.AugAssign) and isinstance(st.target, ast.Name) and st.target.id == "year":
            pivots.append(ast.unparse(st.value))
    if set(cols) != set(LEAN_NAMES):
        raise RuntimeError(f"column fields differ from the model's: {sorted(set(cols) ^ set(LEAN_NAMES))}")
    if len(set(pivots)) != 1 or pivots[0] != "1900 if year >= 57 else 2000":
        raise RuntimeError(f"unexpected century rule {pivots}")
    for k, (v, a, b) in cols.items():
        want = EXPECT_VAR.get(LEAN_NAMES[k], "first")
        if v != want:
            raise RuntimeError(f"field {k} is read from {v}, the model reads it from {want}")
    return cols


MODELLED_SOURCE = '''
def _float(text):
    text = text.strip()

    if not text:
        raise ValueError("empty 'decimal point assumed' field")

    if text[0] in ("-", "+"):
        text = f"{text[0]}.{text[1:]}"
    else:
        text = f"+.{text}"

    if "+" in text[1:] or "-" in text[1:]:
        value, exp_sign, expo = (
            text.rpartition("+") if "+" in text[1:] else text.rpartition("-")
        )
        v = float(f"{value}e{exp_sign}{expo}")
    else:
        v = float(text)

    return v


def _unfloat(flt, precision=5):
    if flt == 0.0:
        return f"{'0' * precision}-0"

    num, _, exp = f"{flt:.{precision - 1}e}".partition("e")
    exp = int(exp)
    if exp + 1 < -9:
        digits = round(abs(flt) * 10 ** (9 + precision))
        return f"{'-' if flt < 0 else ''}{digits:0{precision}d}-9"
    num = num.replace(".", "")

    return f"{num}{exp+1:+d}"


class Tle:
    @classmethod
    def _check_validity(cls, text):
        if len(text) < 2:
            raise TleParseError(f"Invalid TLE: expected 2 lines, got {len(text)}.")

        if not text[0].lstrip().startswith("1 ") or not text[1].lstrip().startswith(
            "2 "
        ):
            raise TleParseError("Line number check failed")

        for i, line in enumerate(text):
            line = line.strip()

            if len(line) != 69:
                raise TleParseError(
                    f"Invalid TLE size on line {i + 1}. Expected {69}, got {len(line)}."
                )

            check = str(cls._checksum(line))
            if check != line[68]:
                raise TleParseError(
                    "TLE checksum validation failed on line {}. Expected {}, got {}.".format(
                        i + 1, check, line[68]
                    )
                )

    @classmethod
    def _checksum(cls, line):
        tr_table = str.maketrans({c: None for c in ascii_uppercase + "+ ."})
        no_letters = line[:68].translate(tr_table).replace("-", "1")
        return sum([int(l) for l in no_letters]) % 10

    @classmethod
    def from_string(cls, text, comments="#", error="warn"):
        cache = []
        for line in text.splitlines():
            if not line.strip() or line.startswith(comments):
                continue
            if line.startswith("1 "):
                cache = [x for x in cache[-1:] if not x.startswith("1 ")]
                cache.append(line)
            elif line.startswith("2 "):
                cache.append(line)
                try:
                    yield cls("\\n".join(cache))
                except ValueError as e:
                    if error == "raise":
                        raise TleParseError(str(e))
                    elif error == "warn":
                        log.warning(str(e))

                cache = []
            else:
                cache = [line]
'''


def _strip_doc(fn):
    body = fn.body
    if body and isinstance(body[0], ast.Expr) and isinstance(body[0].value, ast.Constant) and isinstance(body[0].value.value, str):
        body = body[1:]
    return [ast.dump(b) for b in body] + [ast.dump(fn.args)]


def _top(tree, name):
    for n in tree.body:
        if isinstance(n, ast.FunctionDef) and n.name == name:
            return n
    raise RuntimeError(f"{name} not found in tle.py")


def check_modelled_shape(tree):
    """the functions that are modelled by hand must still be, statement for statement, the ones the model was written from"""
    ref = ast.parse(MODELLED_SOURCE)
    for nm in ("_float", "_unfloat"):
        if _strip_doc(_top(tree, nm)) != _strip_doc(_top(ref, nm)):
            raise RuntimeError(f"{nm} differs from the source the model Model/Tle.lean was written from")
    for nm in ("_check_validity", "_checksum", "from_string"):
        if _strip_doc(_find(tree, "Tle", nm)) != _strip_doc(_find(ref, "Tle", nm)):
            raise RuntimeError(f"Tle.{nm} differs from the source the model Model/Tle.lean was written from")


def check_statements(tree):
    """single statements of Tle.__init__ / Tle.from_orbit that the model mirrors"""
    init = _find(tree, "Tle", "__init__")
    dumps = [ast.dump(x) for x in init.body]
    want = [ast.dump(x) for x in ast.parse("self._check_validity(text)\ntext = [line.strip() for line in text]\nself.text = '\\n'.join(text)\nfirst, second = text[0], text[1]").body]
    k = dumps.index(want[0]) if want[0] in dumps else -1
    if k < 0 or dumps[k:k + 4] != want:
        raise RuntimeError("Tle.__init__ no longer validates, strips the lines, stores them and reads first/second from them, in that order")
    fo = _find(tree, "Tle", "from_orbit")
    want = ast.dump(ast.parse("if not '{:.7f}'.format(e).startswith('0.'):\n    raise TleParseError(f'Eccentricity {e} can not be written in a TLE')").body[0])
    pos = [i for i, x in enumerate(fo.body) if ast.dump(x) == want]
    first_fmt = [i for i, x in enumerate(fo.body) if isinstance(x, ast.Assign) and isinstance(x.targets[0], ast.Name) and x.targets[0].id == "line1"]
    if len(pos) != 1 or not first_fmt or pos[0] > first_fmt[0]:
        raise RuntimeError("Tle.from_orbit no longer refuses an eccentricity that prints as 1.0000000 before formatting the lines")


def read_checksum(tree):
    import string
    return {"removed": string.ascii_uppercase + "+ .", "minus_as": "1", "cklen": 68, "linelen": 69, "ckpos": 68}


def parse_format(fmt):
    """python format string -> list of segments ('lit', text) | ('fld', name, spec)"""
    import string
    segs = []
    for lit, name, spec, conv in string.Formatter().parse(fmt):
        if lit:
            segs.append(("lit", lit))
        if name is not None:
            if conv:
                raise RuntimeError("conversion in format")
            segs.append(("fld", name, spec or ""))
    return segs


FLD_NAMES = {"norad_id": "norad_id", "cospar_id": "cospar_id", "date": "date", "day": "day", "ndot": "ndot", "ndotdot": "ndotdot", "bstar": "bstar",
             "elnb": "elnb", "i": "inc", "Ω": "raan", "e": "ecc", "ω": "argp", "M": "ma", "n": "mm", "revolutions": "revolutions"}


def _lean_chars(s):
    def one(c):
        if c == "'":
            return "'\\''"
        if c == "\\":
            return "'\\\\'"
        if not (32 <= ord(c) < 127):
            raise RuntimeError(f"non printable character {c!r} in a format literal")
        return f"'{c}'"
    return "[" + ", ".join(one(c) for c in s) + "]"


def seg_to_lean(seg):
    import re
    if seg[0] == "lit":
        return f".lit {_lean_chars(seg[1])}"
    _, name, spec = seg
    if name not in FLD_NAMES:
        raise RuntimeError(f"format field {name!r} is not one the model knows")
    name = "." + FLD_NAMES[name]
    if spec == "%y":
        return f".yy {name}"
    m = re.fullmatch(r"(0?)(\d+)\.(\d+)f", spec)
    if m:
        return f".fix {name} {'true' if m.group(1) else 'false'} {m.group(2)} {m.group(3)}"
    m = re.fullmatch(r"(?:(.)?([<>]))?(\d+)?", spec)
    if m:
        fill = m.group(1) or " "
        right = (m.group(2) or "<") == ">"    # strings default to left alignment; every int field of the layout carries an explicit '>'
        return f".str {name} '{fill}' {'true' if right else 'false'} {m.group(3) or 0}"
    raise RuntimeError(f"format spec {spec!r} not modelled")


def read_writer(tree):
    fo = _find(tree, "Tle", "from_orbit")
    fmts = {}
    for st in fo.body:
        if isinstance(st, ast.Assign) and isinstance(st.targets[0], ast.Name) and st.targets[0].id in ("line1", "line2"):
            call = st.value
            if not (isinstance(call, ast.Call) and isinstance(call.func, ast.Attribute) and call.func.attr == "format" and isinstance(call.func.value, ast.Constant)):
                raise RuntimeError("line1/line2 are no longer str.format calls")
            kw = {k.arg: ast.dump(k.value) for k in call.keywords}
            fmts[st.targets[0].id] = (call.func.value.value, kw)
    if set(fmts) != {"line1", "line2"}:
        raise RuntimeError("line1/line2 format strings not found")
    want1 = {"norad_id": "norad_id", "cospar_id": "cospar_id", "date": "date",
             "day": "int('{:%j}'.format(date)) + date.hour / 24.0 + date.minute / 1440 + date.second / 86400 + date.microsecond / 86400000000.0",
             "ndot": "f'{orbit.ndot / 2: 0.8f}'.replace('0.', '.')", "ndotdot": "_unfloat(orbit.ndotdot / 6)", "bstar": "_unfloat(orbit.bstar)", "elnb": "orbit.element_nb"}
    want2 = {"norad_id": "norad_id", "i": "np.degrees(i) % 360", "Ω": "np.degrees(Ω) % 360", "e": "'{:.7f}'.format(e)[2:]", "ω": "np.degrees(ω) % 360",
             "M": "np.degrees(M) % 360", "n": "n * 86400 / (2 * np.pi)", "revolutions": "orbit.revolutions"}
    for nm, want in (("line1", want1), ("line2", want2)):
        want = {k: ast.dump(ast.parse(v, mode="eval").body) for k, v in want.items()}
        if fmts[nm][1] != want:
            diff = {k: (fmts[nm][1].get(k), want.get(k)) for k in set(want) | set(fmts[nm][1]) if fmts[nm][1].get(k) != want.get(k)}
            raise RuntimeError(f"{nm}: field expressions differ from the modelled ones: {diff}")
    tail = [ast.dump(x) for x in fo.body[-3:]]
    want_tail = [ast.dump(x) for x in ast.parse("line1 += str(cls._checksum(line1))\nline2 += str(cls._checksum(line2))\nreturn cls(f'{name}{line1}\\n{line2}')").body]
    want_tail[2] = tail[2] if ast.unparse(fo.body[-1]).replace('"', "'") == "return cls(f'{name}{line1}\\n{line2}')" else want_tail[2]
    if tail != want_tail:
        raise RuntimeError("Tle.from_orbit no longer ends with checksum, checksum, cls(name + line1 + line2)")
    return parse_format(fmts["line1"][0]), parse_format(fmts["line2"][0])


def read_tle_orbit(tree):
    """Tle.orbit(): 'stmt:<kind>' per top-level statement (docstring dropped), 'store:self.<attr>' for every attribute of self that
    is assigned anywhere inside, 'return:<callee>(<positional args>)' for every return"""
    fn = _find(tree, "Tle", "orbit")
    out = []
    for st in fn.body:
        if isinstance(st, ast.Expr) and isinstance(st.value, ast.Constant):
            continue
        out.append("stmt:" + type(st).__name__)
    for node in ast.walk(fn):
        if isinstance(node, ast.Attribute) and isinstance(node.ctx, (ast.Store, ast.Del)) and isinstance(node.value, ast.Name) and node.value.id == "self":
            out.append("store:self." + node.attr)
        if isinstance(node, ast.Return):
            v = node.value
            if isinstance(v, ast.Call):
                out.append("return:" + ast.unparse(v.func) + "(" + ", ".join(ast.unparse(a) for a in v.args) + ")")
            else:
                out.append("return:" + ("" if v is None else ast.unparse(v)))
    return out


def read_orbit_uses(tree):
    """every use of the parameter `orbit` inside Tle.from_orbit, in source order, without repetitions: attribute names, hasattr/getattr
    probes, the re-assignment by copy(), the unpacking of the six elements; anything else shows up as '<other:…>'"""
    fo = _find(tree, "Tle", "from_orbit")
    parents = {}
    for node in ast.walk(fo):
        for ch in ast.iter_child_nodes(node):
            parents[ch] = node
    uses = []
    for node in ast.walk(fo):
        if isinstance(node, ast.Name) and node.id == "orbit":
            par = parents[node]
            if isinstance(node.ctx, ast.Store):
                tok = "<assign>"
            elif isinstance(par, ast.Attribute) and par.value is node:
                tok = par.attr
            elif (isinstance(par, ast.Call) and isinstance(par.func, ast.Name) and par.func.id in ("hasattr", "getattr") and par.args and par.args[0] is node
                  and len(par.args) >= 2 and isinstance(par.args[1], ast.Constant)):
                tok = f"{par.func.id}:{par.args[1].value}"
            elif isinstance(par, ast.Assign) and par.value is node and isinstance(par.targets[0], ast.Tuple):
                tok = f"<unpack{len(par.targets[0].elts)}>"
            else:
                tok = f"<other:{type(par).__name__}>"
            uses.append((node.lineno, node.col_offset, tok))
        elif isinstance(node, ast.arg) and node.arg == "orbit":
            pass
    uses.sort()
    out = []
    for _, _, t in uses:
        if t not in out:
            out.append(t)
    date_expr = None
    copy_expr = None
    for st in fo.body:
        if isinstance(st, ast.Assign) and isinstance(st.targets[0], ast.Name):
            if st.targets[0].id == "date":
                date_expr = ast.unparse(st.value).replace('"', "'")
            if st.targets[0].id == "orbit":
                copy_expr = ast.unparse(st.value).replace('"', "'")
    if date_expr is None or copy_expr is None:
        raise RuntimeError("Tle.from_orbit no longer assigns `date` / re-assigns `orbit`")
    return out, date_expr, copy_expr


FROM_ORBIT_HEAD = '''
if name is not None:
    name = f"{name}\\n"
elif hasattr(orbit, "name") and orbit.name:
    name = f"{orbit.name}\\n"
else:
    name = ""

if norad_id is None:
    if hasattr(orbit, "norad_id"):
        norad_id = orbit.norad_id
    else:
        norad_id = "99999"

if cospar_id is not None:
    y, _, i = cospar_id.partition("-")
    cospar_id = y[2:] + i
elif hasattr(orbit, "cospar_id"):
    y, _, i = orbit.cospar_id.partition("-")
    cospar_id = y[2:] + i
else:
    cospar_id = ""
'''


def check_from_orbit_head(tree):
    """the resolution of name / norad_id / cospar_id (Model/TleOrb.lean effName, effNorad, effCospar) is modelled by hand: it must still be,
    statement for statement, the source the model was written from"""
    fo = _find(tree, "Tle", "from_orbit")
    body = fo.body
    if body and isinstance(body[0], ast.Expr) and isinstance(body[0].value, ast.Constant):
        body = body[1:]
    want = [ast.dump(x) for x in ast.parse(FROM_ORBIT_HEAD).body]
    if [ast.dump(x) for x in body[:3]] != want:
        raise RuntimeError("the resolution of name / norad_id / cospar_id at the top of Tle.from_orbit differs from the source Model/TleOrb.lean was written from")
    if ast.dump(fo.args) != ast.dump(ast.parse("def f(cls, orbit, name=None, norad_id=None, cospar_id=None): pass").body[0].args):
        raise RuntimeError("the signature of Tle.from_orbit differs from the modelled one")


def extract(ctx):
    tree = ast.parse(open(TLE_PY).read())
    check_modelled_shape(tree)
    check_statements(tree)
    cols = read_columns(tree)
    ck = read_checksum(tree)
    f1, f2 = read_writer(tree)
    check_from_orbit_head(tree)
    uses, date_expr, copy_expr = read_orbit_uses(tree)
    out = ["/- GENERATED by harness/props/C12.py (extract) from beyond/io/tle.py on every run: column slices of Tle.__init__,",
           "   constants of Tle._checksum / _check_validity, field layout of the two format strings of Tle.from_orbit. -/",
           "namespace BeyondVerif.Generated.Tle", "",
           "/-- keyword arguments of the two str.format calls (i Ω e ω M n are spelled inc raan ecc argp ma mm) -/",
           "inductive Fld where",
           "  | " + " | ".join(dict.fromkeys(FLD_NAMES.values())),
           "deriving Repr, DecidableEq", "",
           "inductive Seg where",
           "  | lit (s : List Char)",
           "  | str (name : Fld) (fill : Char) (right : Bool) (width : Nat)   -- '{name:<fill><align><width>}' applied to a string / str(int)",
           "  | fix (name : Fld) (zero : Bool) (width prec : Nat)              -- '{name:<0><width>.<prec>f}'",
           "  | yy (name : Fld)                                                -- '{name:%y}'",
           "deriving Repr, DecidableEq", "",
           f"def removed : List Char := {_lean_chars(ck['removed'])}",
           f"def minusAs : Nat := {ck['minus_as']}",
           f"def ckLen : Nat := {ck['cklen']}",
           f"def lineLen : Nat := {ck['linelen']}",
           f"def ckPos : Nat := {ck['ckpos']}",
           "def pivot : Nat := 57", "",
           "/-- every use of the parameter `orbit` in Tle.from_orbit, in source order (attribute names, hasattr probes, re-assignment, unpacking) -/",
           "def orbitReads : List String := [" + ", ".join(_lean_str(u) for u in uses) + "]",
           "/-- the expression assigned to `date` (what the year, the day of year and the day fraction are all taken from) -/",
           f"def dateExpr : String := {_lean_str(date_expr)}",
           "/-- the expression `orbit` is re-assigned to before its elements are read -/",
           f"def copyExpr : String := {_lean_str(copy_expr)}",
           "/-- `Tle.orbit()`: kind of every statement, every store to an attribute of `self`, and the expression returned -/",
           "def tleOrbitShape : List String := [" + ", ".join(_lean_str(u) for u in read_tle_orbit(tree)) + "]", ""]
    for k, lean in LEAN_NAMES.items():
        v, a, b = cols[k]
        out.append(f"def {lean} : Nat × Nat := ({a}, {b})   -- {v}[{a}:{b}]")
    out.append("")
    out.append("def fmt1 : List Seg := [\n  " + ",\n  ".join(seg_to_lean(s) for s in f1) + "]")
    out.append("def fmt2 : List Seg := [\n  " + ",\n  ".join(seg_to_lean(s) for s in f2) + "]")
    out.append("")
    out.append("end BeyondVerif.Generated.Tle")
    ch = core.write_if_changed(os.path.join(core.LEAN, "BeyondVerif", "Generated", "TleColumns.lean"), "\n".join(out) + "\n")
    return ["Generated/TleColumns.lean"] if ch else []


# ---------------------------------------------------------------- correspondence: compiled Lean model vs beyond.io.tle

def hx(s):
    return "x" + s.encode("ascii").hex()


def unhx(t):
    return bytes.fromhex(t[1:]).decode("ascii")


def ascii_ok(s):
    return all(32 <= ord(c) < 127 for c in s)


def real_error_token(e):
    import re
    from beyond.io.tle import TleParseError
    if isinstance(e, TleParseError):
        m = str(e)
        if m == "Line number check failed":
            return "err parse-error line-number"
        g = re.fullmatch(r"Invalid TLE size on line (\d+)\. Expected 69, got (\d+)\.", m)
        if g:
            return f"err parse-error size {g.group(1)} {g.group(2)}"
        g = re.match(r"TLE checksum validation failed on line (\d+)\.", m)
        if g:
            return f"err parse-error checksum {g.group(1)}"
        g = re.fullmatch(r"Invalid TLE: expected 2 lines, got (\d+)\.", m)
        if g:
            return f"err parse-error line-count {g.group(1)}"
        if re.fullmatch(r"Eccentricity \S+ can not be written in a TLE", m):
            return "err parse-error eccentricity"
        return "err parse-error ?" + m
    if isinstance(e, ValueError):
        return "err value-error"
    if isinstance(e, IndexError):
        return "err index-error"
    return "err other " + type(e).__name__


def dec_fraction(tok):
    neg, mant, scale = tok.split(":")
    v = Fraction(int(mant)) / Fraction(10) ** int(scale)
    return -v if neg == "1" else v


def dec_is_negzero(tok):
    neg, mant, _ = tok.split(":")
    return neg == "1" and int(mant) == 0


def compare_parsed(tle, reply):
    """real Tle object vs the model's `ok …` reply; returns a list of differing fields"""
    import math
    from datetime import datetime
    t = reply.split(" ")
    if t[0] != "ok" or len(t) != 20:
        return [("reply", "parsed", reply[:80])]
    (name, norad, cls_, cospar, year, us, ndot, ndd, bstar, elnb, revs, etype, inc, raan, ecc, argp, ma, mm, text) = t[1:]
    bad = []

    def chk(nm, real, model):
        if real != model:
            bad.append((nm, real, model))
    chk("name", tle.name, unhx(name))
    chk("norad_id", tle.norad_id, int(norad))
    chk("classification", tle.classification, unhx(cls_))
    chk("cospar_id", tle.cospar_id, "" if cospar == "-" else cospar.split(":")[0] + "-" + unhx(cospar.split(":")[1]))
    chk("element_nb", tle.element_nb, int(elnb))
    chk("revolutions", tle.revolutions, int(revs))
    chk("type", tle.type, int(etype))
    chk("str", str(tle), "\n".join(unhx(x) for x in text.split(",")))
    d = tle.epoch.datetime - datetime(int(year), 1, 1)
    chk("epoch_us", (d.days * 86400 + d.seconds) * 10**6 + d.microseconds, int(us))

    def near(nm, real, want):
        tol = abs(want) * Fraction(1, 10**13) + Fraction(1, 10**300)
        if not abs(Fraction(real) - want) <= tol:
            bad.append((nm, real, float(want)))
    near("ndot", tle.ndot, dec_fraction(ndot) * 2)
    if dec_is_negzero(ndot) != (tle.ndot == 0 and math.copysign(1, tle.ndot) < 0):
        bad.append(("ndot sign of zero", tle.ndot, ndot))
    near("ndotdot", tle.ndotdot, dec_fraction(ndd) * 6)
    near("bstar", tle.bstar, dec_fraction(bstar))
    near("e", tle.e, dec_fraction(ecc))
    for nm, tok in (("i", inc), ("Ω", raan), ("ω", argp), ("M", ma)):
        near(nm, math.degrees(getattr(tle, nm)), dec_fraction(tok))
    near("n", tle.n * 86400.0 / (2 * math.pi), dec_fraction(mm))
    return bad


def real_parse_token(lines):
    """-> (tle or None, token)"""
    from beyond.io.tle import Tle
    try:
        return Tle(list(lines)), "ok"
    except Exception as e:  # noqa
        return None, real_error_token(e)


def rec_line(r):
    def u(x):
        if x[1] != 0 and x[2] < -9:
            # what _unfloat sees below 1e-10: the value in units of 1e-14, rounded half even
            return f"s {1 if x[0] else 0} {round(Fraction(x[1], 10**5) * Fraction(10) ** (x[2] + 14))}"
        return "z" if x[1] == 0 else f"{1 if x[0] else 0} {x[1]} {x[2]}"
    c = r["cospar"]
    return " ".join(["tle.write", hx(r["name"]), str(r["norad"]), hx(c), str(r["yy"]), str(r["day8"]), "1" if r["ndot"][0] else "0", str(r["ndot"][1]),
                     u(r["ndd"]), u(r["bstar"]), str(r["elnb"]), str(r["i4"]), str(r["raan4"]), str(r["e7"]), str(r["argp4"]), str(r["ma4"]), str(r["n8"]), str(r["revs"])])


def widen_rec(rng, r):
    """push one field of a record out of its columns (the writer must then fail the way the code fails)"""
    r = dict(r)
    k = rng.choice(["norad", "elnb", "revs", "e7", "n8", "ndot", "exp", "cospar", "lower"])
    if k == "norad":
        r["norad"] = rng.choice([100000, 123456])
    elif k == "elnb":
        r["elnb"] = rng.choice([10000, 99999])
    elif k == "revs":
        r["revs"] = rng.choice([100000, 999999])
    elif k == "e7":
        r["e7"] = rng.choice([10**7, 10**7 + 5, 2 * 10**7, 12 * 10**7 + 3456789])
    elif k == "n8":
        r["n8"] = rng.choice([100 * 10**8, 17 * 10**8, 99 * 10**8 + 99999999])
    elif k == "ndot":
        r["ndot"] = (r["ndot"][0], rng.choice([10**8, 10**9 + 5 * 10**7, 3 * 10**8 + 1]))
    elif k == "exp":
        m5, ex = rng.randint(10000, 99999), rng.choice([10, -10, 12, -15])
        # below 1e-10 the code rounds the binary neighbour of value * 1e14, the model the decimal itself: avoid exact ties
        while ex < -9 and (Fraction(m5, 10**5) * Fraction(10) ** (ex + 14) * 2).denominator == 1 and (Fraction(m5, 10**5) * Fraction(10) ** (ex + 14)).denominator == 2:
            m5 = m5 + 1 if m5 < 99999 else 10000
        r["bstar"] = (rng.random() < 0.5, m5, ex)
    elif k == "cospar":
        r["cospar"] = (r["cospar"][:6] or "98067A") + "ABCD"[: rng.choice([3, 4])]
    elif k == "lower":
        r["cospar"] = "98067a"
    return r, k


def rec_to_orbit_wide(r):
    """like rec_to_orbit, for records outside the columns (cospar given as written text)"""
    orb = rec_to_orbit(r)
    return orb


def k_checksum(out, rng, lines_pool):
    from beyond.io.tle import Tle
    reqs, want = [], []
    for l in lines_pool:
        v = l
        k = rng.random()
        if k < 0.2:
            p = rng.randrange(len(v)) if v else 0
            v = v[:p] + rng.choice("abz_*,;:!-+. 0123456789XYZ") + v[p + 1:]
        elif k < 0.3:
            v = v[:rng.randrange(len(v) + 1)]
        elif k < 0.4:
            v = v + rng.choice(["9", " 7", "a", "-"])
        try:
            w = f"ok {Tle._checksum(v)}"
        except ValueError:
            w = "err value-error"
        reqs.append("tle.ck " + hx(v))
        want.append((v, w))
    for (v, w), m in zip(want, core.Driver().run(reqs)):
        out.count(key=("ck", v), kind="checksum", result=w[:3])
        if m != w:
            out.fail("checksum", "Tle._checksum differs from the model", {"line": v}, observed=w, expected=m)


def k_parse(out, cases):
    """cases: list of (kind, lines)"""
    reqs = ["tle.parse " + " ".join(hx(l) for l in ls) for _, ls in cases]
    replies = core.Driver().run(reqs)
    for (kind, ls), m in zip(cases, replies):
        tle, tok = real_parse_token(ls)
        out.count(key=("parse",) + tuple(ls), kind="parse-" + kind, verdict=" ".join(tok.split(" ")[:4]) if tok.startswith("err parse-error size") else tok[:40])
        if tle is None:
            if m != tok:
                out.fail("parse-verdict", "Tle(text) and the model disagree on acceptance / error kind", {"lines": ls, "kind": kind}, observed=tok, expected=m)
        else:
            if not m.startswith("ok "):
                out.fail("parse-verdict", "Tle(text) and the model disagree on acceptance / error kind", {"lines": ls, "kind": kind}, observed="ok", expected=m)
                continue
            bad = compare_parsed(tle, m)
            if bad:
                out.fail("parse-field-" + bad[0][0], "a field of Tle(text) differs from the model's", {"lines": ls, "kind": kind}, observed=str(bad[:3]), expected=m[:200])
        out.sample({"request": reqs[0][:120], "reply": replies[0][:160]}, limit=1)


def k_rewrite(out, texts):
    """texts: list of (kind, text)"""
    from beyond.io.tle import Tle
    reqs = ["tle.rw " + " ".join(hx(l) for l in t.split("\n")) for _, t in texts]
    for (kind, t), m in zip(texts, core.Driver().run(reqs)):
        if m == "err out-of-model" and kind != "valid":
            out.tally("rewrite-out-of-model-skipped=" + kind)
            continue
        try:
            real = "ok " + str(Tle.from_orbit(Tle(t).orbit()))
        except Exception as e:  # noqa
            real = real_error_token(e)
        out.count(key=("rw", t), kind="rewrite-" + kind, verdict=real[:3])
        if m.startswith("ok "):
            mt = "ok " + "\n".join(unhx(x) for x in m.split(" ")[-1].split(","))
        else:
            mt = m
        if real != mt:
            out.fail("rewrite", "Tle.from_orbit(Tle(text).orbit()) differs from the model", {"text": t}, observed=real, expected=mt)


def k_write(out, recs):
    from beyond.io.tle import Tle
    reqs = [rec_line(r) for r, _ in recs]
    replies = core.Driver().run(reqs)
    for (r, kind), m in zip(recs, replies):
        try:
            real = "ok " + str(Tle.from_orbit(rec_to_orbit(r)))
        except Exception as e:  # noqa
            real = real_error_token(e)
        out.count(key=("write", rec_line(r)), kind="write-" + kind, verdict="ok" if real.startswith("ok ") else real)
        if m.startswith("ok "):
            mt = "ok " + "\n".join(unhx(x) for x in m.split(" ")[-1].split(","))
        else:
            mt = m
        if real != mt:
            out.fail("write-" + kind, "Tle.from_orbit differs from the model writer", {"record": r}, observed=real, expected=mt)
    out.sample({"request": reqs[0][:160], "reply": replies[0][:100]}, limit=2)


def k_floats(out, rng, n):
    from beyond.io.tle import _float, _unfloat
    texts = []
    for _ in range(n):
        k = rng.random()
        if k < 0.5:
            t = fmt_unfl(gen_unfl(rng))
        elif k < 0.8:
            # non canonical but accepted: leading zeros, explicit plus, short / long mantissa
            t = rng.choice(["", "+", "-", " "]) + "".join(rng.choice("0123456789") for _ in range(rng.randint(1, 7))) + rng.choice(["+", "-"]) + str(rng.randint(0, 12))
        else:
            t = "".join(rng.choice("0123456789+-. ") for _ in range(rng.randint(0, 8)))
        texts.append(rng.choice(["", " ", "  "]) + t + rng.choice(["", " "]))
    replies = core.Driver().run(["tle.float " + hx(t) for t in texts])
    follow = []
    for t, m in zip(texts, replies):
        try:
            v = _float(t)
            real = "ok"
        except Exception as e:  # noqa
            v = None
            real = real_error_token(e)
        out.count(key=("float", t), kind="_float", verdict=real)
        if v is None or not m.startswith("ok "):
            if m.split(" ")[:2] != real.split(" ")[:2] if v is None else True:
                out.fail("_float-verdict", "_float and the model disagree on acceptance", {"text": t}, observed=real if v is None else v, expected=m)
            continue
        want = dec_fraction(m[3:])
        if v in (float("inf"), float("-inf")) or (v == 0 and want != 0) or abs(want) < Fraction(1, 10**300):
            out.tally("_float-overflow-or-underflow-skipped")
            continue
        if not abs(Fraction(v) - want) <= abs(want) * Fraction(1, 10**13):
            out.fail("_float-value", "_float differs from the model's decimal", {"text": t}, observed=v, expected=float(want))
            continue
        digits = str(int(m[3:].split(":")[1]))
        if len(digits) > 5 and digits[5] == "5" and set(digits[6:]) <= {"0"}:
            out.tally("_unfloat-exact-tie-skipped")     # the code rounds the binary neighbour of the decimal, the model the decimal itself
            continue
        follow.append((t, v, m[3:]))
    reqs = ["tle.tounfl " + d.replace(":", " ") for _, _, d in follow]
    for (t, v, d), m in zip(follow, core.Driver().run(reqs)):
        real = _unfloat(v)
        out.count(key=("unfloat", t), kind="_unfloat")
        if "ok " + hx(real) != m:
            out.fail("_unfloat", "_unfloat differs from the model", {"text": t, "value": v}, observed=real, expected=unhx(m[3:]) if m.startswith("ok ") else m)


# ---------------------------------------------------------------- off-grid orbits: the float side (Model/TleQuant.lean)

# the numbers Tle.from_orbit hands to str.format / _unfloat: sub-expressions of the keyword expressions that read_writer() compares with the
# source on every run (want1 / want2)
NUM_EXPR = {"ndot": "orbit.ndot / 2", "ndotdot": "orbit.ndotdot / 6", "bstar": "orbit.bstar", "i": "np.degrees(i) % 360", "Ω": "np.degrees(Ω) % 360",
            "e": "e", "ω": "np.degrees(ω) % 360", "M": "np.degrees(M) % 360", "n": "n * 86400 / (2 * np.pi)"}
SCALES = ["UTC", "UTC", "TAI", "TT", "GPS", "TDB"]
_EPOCH0 = None


def us_since_year1(dt):
    from datetime import datetime
    d = dt - datetime(1, 1, 1)
    return (d.days * 86400 + d.seconds) * 10**6 + d.microseconds


def formatted_numbers(orb):
    """evaluate, on a copy converted as the code converts it, the numeric sub-expressions of the writer -> {name: float}"""
    import numpy as np
    orbit = orb.copy(form="TLE", frame="TEME")
    i, Ω, e, ω, M, n = orbit
    ns = {"np": np, "orbit": orbit, "i": i, "Ω": Ω, "e": e, "ω": ω, "M": M, "n": n}
    return {k: float(eval(v, ns)) for k, v in NUM_EXPR.items()}


def q_tokens(x, signed=False):
    import math
    f = Fraction(abs(x)) if signed else Fraction(x)
    t = [str(f.numerator), str(f.denominator)]
    return (["1" if math.copysign(1.0, x) < 0 else "0"] + t) if signed else t


def wq_line(orb):
    """-> (request line, is_tie)"""
    v = formatted_numbers(orb)
    own = us_since_year1(orb.date.datetime)
    utc = us_since_year1(orb.date.change_scale("UTC").datetime)
    name = orb._data.get("name") or ""
    cid = orb._data.get("cospar_id", "")
    y, _, piece = cid.partition("-")
    toks = ["tle.wq", hx(name), str(int(orb._data.get("norad_id", 99999))), hx(y[2:] + piece), str(own), str(own - utc)]
    toks += q_tokens(v["ndot"], True) + q_tokens(v["ndotdot"], True) + q_tokens(v["bstar"], True) + [str(orb.element_nb)]
    for k in ("i", "Ω", "e", "ω", "M", "n"):
        toks += q_tokens(v[k])
    toks.append(str(orb.revolutions))
    return " ".join(toks), (utc % 864) == 432


def with_scale(orb, scale):
    """the same instant, the date labelled with another scale"""
    if scale != "UTC":
        orb.date = orb.date.change_scale(scale)
    return orb


def gen_offgrid(rng):
    orb, inp = gen_float_orbit(rng)
    k = rng.random()
    if k < 0.08:
        # the writer's domain is wider than the format's: push one number out of its columns
        w = rng.choice(["e", "n", "ndot", "drag", "neg-angle", "neg-e"])
        if w == "e":
            orb[2] = rng.choice([1.0, 1.5, 0.99999996, 12.3456789])
        elif w == "n":
            orb[5] = rng.choice([100.0, 99.999999996, 123.456]) * 2 * 3.141592653589793 / 86400.0
        elif w == "ndot":
            orb.ndot = rng.choice([2.0, -2.0, 1.99999999, 20.25, -0.0, 2 * 0.999999996])
        elif w == "drag":
            orb.bstar = rng.choice([1e9, -1e10, 0.999996e9, 5e-324, 1e-300, -2.5e-15, 1e-11 * 0.999996, 0.99999e-10, 0.999995e-10, 3.5e-14, 0.5e-14, 1.5e-14, 2.5e-14])
        elif w == "neg-angle":
            orb[rng.choice([0, 1, 3, 4])] = rng.choice([-1e-20, -1e-9, -0.1, 7.0, 2 * 3.141592653589793])
        else:
            orb[2] = -1e-12
    scale = rng.choice(SCALES)
    inp = dict(inp, scale=scale)
    return with_scale(orb, scale), inp


def k_offgrid(out, rng, n):
    """the float side: off-grid doubles rounded by str.format vs the exact model on their exact rational values"""
    from beyond.io.tle import Tle, _unfloat
    cases = [gen_offgrid(rng) for _ in range(n)]
    reqs, ties = [], []
    for orb, _ in cases:
        l, tie = wq_line(orb)
        reqs.append(l)
        ties.append(tie)
    replies = core.Driver().run(reqs)
    second = []
    for (orb, inp), m, tie, req in zip(cases, replies, ties, reqs):
        try:
            real = "ok " + str(Tle.from_orbit(orb))
        except Exception as e:  # noqa
            real = real_error_token(e)
        mt = "ok " + "\n".join(unhx(x) for x in m.split(" ")[-1].split(",")) if m.startswith("ok ") else m
        out.count(key=("wq", req), kind="write-offgrid", scale=inp["scale"], verdict="ok" if real.startswith("ok ") else real[:40])
        if tie and real != mt:
            out.tally("offgrid-day-tie-skipped")      # the exact day fraction is k + 1/2 units: the float sum of the code decides, the model rounds half-even
            continue
        if real != mt:
            out.fail("write-offgrid", "Tle.from_orbit of an off-grid orbit differs from the exact rounding model", inp, observed=real, expected=mt)
        elif real.startswith("ok "):
            second.append((inp, real[3:]))
    # second and third generation: parse -> write again (the model's `rewrite`)
    k_rewrite(out, [("generation2", t) for _, t in second[: max(50, n // 4)]])
    # _unfloat alone, on doubles of every magnitude
    xs = []
    for _ in range(n):
        k = rng.random()
        if k < 0.3:
            x = rng.choice([-1, 1]) * rng.uniform(0.1, 1) * 10.0 ** rng.randint(-20, 12)
        elif k < 0.5:
            m5 = rng.randint(10000, 99999)
            x = float("%d.5e%d" % (m5, rng.randint(-18, 6))) * rng.choice([1, 1 - 2**-52, 1 + 2**-52])      # around a tie in the fifth digit
        elif k < 0.7:
            x = 10.0 ** rng.randint(-16, 10) * rng.choice([1, 1 - 2**-53, 1 + 2**-52, 0.999995, 0.9999949999, 0.9999950001])
        elif k < 0.8:
            x = rng.choice([5e-324, 2.2250738585072014e-308, 1.7976931348623157e308, 1e-320, 1e300, 0.03125, 0.5, 2.0**-40, 3.0 * 2.0**-50])
        else:
            x = rng.choice([-1, 1]) * (rng.randint(0, 120000) + rng.choice([0, 0.5, 0.25, 0.75])) * 1e-14
        xs.append(x)
    reqs = ["tle.unflq " + " ".join(q_tokens(x, True)) for x in xs]
    for x, m in zip(xs, core.Driver().run(reqs)):
        real = _unfloat(x)
        out.count(key=("unflq", x), kind="_unfloat-double")
        want = unhx(m[3:]) if m.startswith("ok ") else m
        if real != want:
            out.fail("_unfloat-double", "_unfloat of a double differs from the exact rounding model", {"x": x, "hex": x.hex()}, observed=real, expected=want)
    # the epoch alone: every scale, instants around every kind of boundary
    reqs, want = [], []
    from datetime import datetime, timedelta
    from beyond.dates import Date
    for _ in range(n):
        y = edge_or(rng, 1957, 2056, [1957, 2056, 1999, 2000, 2001, 1972, 2016, 2017, 2024])
        span = (datetime(y + 1, 1, 1) - datetime(y, 1, 1)).days * 86400 * 10**6
        us = rng.choice([0, 1, 431, 433, span - 1, span - 431, span - 433, span - 864, 86400 * 10**6 - 1, 86400 * 10**6 * 59, 86400 * 10**6 * 60 - 1]) if rng.random() < 0.4 else rng.randrange(span)
        dt = datetime(y, 1, 1) + timedelta(microseconds=us)
        t = us_since_year1(dt)
        if t % 864 == 432:
            continue
        day = int("{:%j}".format(dt)) + dt.hour / 24.0 + dt.minute / 1440 + dt.second / 86400 + dt.microsecond / 86400000000.0
        reqs.append(f"tle.epochabs {t}")
        want.append((t, "ok %d %d" % (int("{:%y}".format(dt)), int("{:012.8f}".format(day).replace(".", "")))))
    for (t, w), m in zip(want, core.Driver().run(reqs)):
        out.count(key=("epochabs", t), kind="epoch-of-datetime")
        if m != w:
            out.fail("epoch-of-datetime", "year / day-of-year / fraction of a datetime differ from the model (CPython ord2ymd + exact fraction)", {"us_since_0001": t}, observed=w, expected=m)


def k_wrap(out, rng, n):
    """the wrap in front of the angle fields: the source's own expression `np.degrees(a) % 360` on every representative of an angle (negative, several
    turns, the boundaries) vs the exact floor modulo of the model (wrapDeg) on the exact value of np.degrees(a)"""
    import math
    import numpy as np
    xs = []
    for _ in range(n):
        k = rng.random()
        if k < 0.25:
            a = rng.uniform(-math.pi, math.pi)
        elif k < 0.5:
            a = rng.uniform(-2 * math.pi, 4 * math.pi)
        elif k < 0.7:
            a = rng.uniform(-50, 50) * 10.0 ** rng.randint(-3, 3)
        elif k < 0.85:
            a = math.radians(rng.randint(-7200000, 7200000) / 1e4 + rng.choice([0, 0, 0.00005, -0.00005]))       # the printed grid and its ties
        else:
            a = rng.choice([0.0, -0.0, -1e-20, -1e-9, 1e-9, -math.pi, math.pi, -2 * math.pi, 2 * math.pi, 4 * math.pi, -4 * math.pi, math.radians(-100.0),
                            math.radians(-99.99996), math.radians(-0.00004), math.radians(-0.00006), math.radians(359.99996), math.radians(1000.0), math.radians(-28.5)])
        xs.append(a)
    names = ["i", "Ω", "ω", "M"]
    deg, got, reqs = [], [], []
    for j, a in enumerate(xs):
        nm = names[j % 4]
        d = float(np.degrees(np.float64(a)))
        g = float(eval(NUM_EXPR[nm], {"np": np, nm: np.float64(a)}))
        deg.append(d)
        got.append(g)
        f = Fraction(d)
        reqs.append(f"tle.wrapq {f.numerator} {f.denominator}")
    for a, d, g, m in zip(xs, deg, got, core.Driver().run(reqs)):
        out.count(key=("wrapq", a), kind="wrap", region="negative" if d < 0 else ("one-turn" if d < 360 else "above"))
        t = m.split(" ")
        if t[0] != "ok":
            out.fail("wrap", "the model refuses a wrap request", {"a": a}, observed=g, expected=m)
            continue
        exact = Fraction(int(t[1]), int(t[2]))
        # fmod is exact; for a negative value the code adds 360.0 in binary64: one rounding, at most half an ulp of [256, 512)
        tol = 0 if d >= 0 else Fraction(1, 2**45)
        if not (0 <= g <= 360 and abs(Fraction(g) - exact) <= tol):
            out.fail("wrap", "np.degrees(a) % 360 differs from the floor modulo of the model", {"a": a, "degrees": d}, observed=g, expected=float(exact))
            continue
        u = int(t[3])
        want = "%8s" % ("%d.%04d" % (u // 10000, u % 10000))
        # distance of the exact value from a tie of the fourth decimal
        frac = (exact * 10**4) % 1
        if abs(frac - Fraction(1, 2)) <= Fraction(1, 2**30):
            out.tally("wrap-near-tie-skipped")
            continue
        if "{:8.4f}".format(g) != want:
            out.fail("wrap-printed", "the printed angle differs from the model's rounding of the wrapped value", {"a": a, "degrees": d}, observed="{:8.4f}".format(g), expected=want)


def k_from_string(out, rng, n):
    from beyond.io.tle import Tle
    texts = []
    for _ in range(n):
        recs = [gen_rec(rng) for _ in range(rng.randint(1, 5))]
        lines = []
        for r in recs:
            l1, l2 = corrupt_entry(rng, *spec_lines(r), random_kind(rng))
            if rng.random() < 0.2:
                lines.append(rng.choice(["", "# comment", "   ", "#", " # indented", "0 NAME", "1", "2", "1 ", "2 "]))
            if r["name"]:
                lines.append(("0 " if rng.random() < 0.2 else "") + r["name"] + ("   " if rng.random() < 0.2 else ""))
            k = rng.random()
            if k < 0.85:
                lines += [l1, l2]
            elif k < 0.9:
                lines += [l1]
            elif k < 0.95:
                lines += [l2]
            else:
                lines += [l2, l1]
        texts.append(lines)
    # arbitrary interleavings (valid / rejected entries, name lines, blanks, comments, orphan lines, blank drag fields)
    for _ in range(n):
        ls, toks = gen_line_tokens(rng)
        for t in toks:
            out.tally("fs-token=" + t)
        texts.append([l for l in ls if ascii_ok(l) or l == "\t"])
    kinds = [k for k in LINE_TOKENS]
    for a in kinds:
        for b in kinds:
            texts.append(token_lines(rng, a) + token_lines(rng, b) + token_lines(rng, rng.choice(["valid2", "valid3"])))
    reqs = ["tle.fs " + " ".join(hx(l) for l in ls) for ls in texts]
    for ls, m in zip(texts, core.Driver().run(reqs)):
        got = []
        ab = "done"
        try:
            for t in Tle.from_string("\n".join(ls), error="ignore"):
                got.append(",".join(hx(x) for x in str(t).split("\n")))
        except Exception as e:  # noqa
            ab = real_error_token(e)
        real = " ".join(got) + " | " + ab
        out.count(key=("fs",) + tuple(ls), kind="from_string", yielded=len(got))
        if real.strip() != m.strip():
            out.fail("from_string", "Tle.from_string differs from the model", {"lines": ls}, observed=real, expected=m)


def corruption_cases(rng, r, n_digit, n_len):
    l1, l2 = spec_lines(r)
    both = [l1, l2]
    cases = [("valid", [l1, l2])]
    if r["name"]:
        cases.append(("valid-named", [r["name"], l1, l2]))
        cases.append(("valid-named-0", ["0 " + r["name"] + "  ", l1, l2]))
    for li in (0, 1):
        allc = list(digit_corruptions(both[li]))
        pick = allc if n_digit is None else rng.sample(allc, min(n_digit, len(allc)))
        for p, d in pick:
            ls = list(both)
            ls[li] = corrupt_digit(both[li], p, d)
            cases.append(("digit", ls))
        for kn, bad in length_corruptions(rng, both[li], n_len):
            ls = list(both)
            ls[li] = bad
            cases.append((kn, ls))
        for bad in linenum_corruptions(both[li]):
            ls = list(both)
            ls[li] = bad
            cases.append(("linenum", ls))
        ls = list(both)
        ls[li] = both[li] + rng.choice([" ", "   ", "\t"])
        cases.append(("trail-blank", ls))
        ls = list(both)
        p = rng.randrange(2, 68)
        ls[li] = both[li][:p] + rng.choice("abcxyz_*") + both[li][p + 1:]
        cases.append(("bad-char", ls))
    cases.append(("one-line", [l1]))
    cases.append(("one-line", [l2]))
    cases.append(("four-lines", ["A", "B", l1, l2]))
    cases.append(("four-lines", [l1, l2, l1, l2]))
    cases.append(("four-lines", [l1, l2, "junk", l2]))
    cases.append(("swapped", [l2, l1]))
    cases.append(("empty", []))
    return cases


def nonstandard_cases(rng, r):
    """accepted texts outside the canonical layout: blank / plus-signed drag terms, other classification, ephemeris type, blanks in fields"""
    l1, l2 = spec_lines(r)

    def fix(l):
        return l[:68] + str(spec_checksum(l))
    out = []
    for a, b, txt in ((44, 52, " 00000+0"), (44, 52, "+12345-3"), (44, 52, " 01234-3"), (53, 61, "        "), (53, 61, " 12345+0"), (53, 61, " 1234-10"),
                      (7, 8, "C"), (7, 8, "S"), (62, 63, "2"), (64, 68, "    "), (64, 68, "0012"), (9, 17, " 8067A  "), (9, 17, "  067A  "), (33, 43, " 0.000218"[:10].ljust(10)),
                      (33, 43, "+.00002182"), (20, 32, "000.50000000"), (20, 32, "367.25000000"), (20, 32, "400.00000000"), (18, 20, "  "), (2, 7, "    7"), (2, 7, "A1234")):
        v = fix(l1[:a] + txt + l1[b:])
        out.append(("nonstd-l1-%d" % a, [v, l2]))
    for a, b, txt in ((8, 16, "360.0000"), (8, 16, "51.64160"), (8, 16, " 51.6416"[:8]), (26, 33, "-006703"), (26, 33, "      7"), (52, 63, "9.45290855 "[:11]), (63, 68, "     "), (63, 68, "00012"),
                      (17, 25, "999.9999"), (43, 51, "  -1.5  "), (2, 7, "    7")):
        v = fix(l2[:a] + txt + l2[b:])
        out.append(("nonstd-l2-%d" % a, [l1, v]))
    return out


def correspondence(ctx):
    from harness import env
    env.use_real_eop()        # TAI-UTC, TT-UTC, GPS-UTC, TDB-UTC differ from zero: the scale label of an orbit's date matters
    out = Outcome()
    rng = ctx.rng
    recs = [gen_rec(rng) for _ in range(ctx.n(400, 6000))]
    pool = []
    for r in recs[: ctx.n(300, 3000)]:
        pool += list(spec_lines(r))
    k_checksum(out, rng, pool)
    # parse: valid texts, every kind of corruption, structural variants
    cases = []
    for k, r in enumerate(recs[: ctx.n(60, 600)]):
        full = k < ctx.n(3, 50)
        cases += corruption_cases(rng, r, None if full else 30, 10)
    for r in recs[: ctx.n(40, 400)]:
        cases += nonstandard_cases(rng, r)
    for r in recs:
        cases.append(("valid", spec_text(r).split("\n")))
    k_parse(out, cases)
    # parse -> orbit -> write
    k_rewrite(out, [("valid", spec_text(r)) for r in recs] + [(kind, "\n".join(ls)) for kind, ls in cases if kind.startswith("nonstd") or kind in ("lead-blank", "trail-blank")][: ctx.n(600, 6000)])
    # write
    wr = [(r, "grid") for r in recs]
    for r in recs[: ctx.n(200, 3000)]:
        w, k = widen_rec(rng, r)
        wr.append((w, "wide-" + k))
    k_write(out, wr)
    k_floats(out, rng, ctx.n(1500, 30000))
    k_from_string(out, rng, ctx.n(300, 5000))
    k_history(out, rng, ctx.n(500, 8000))
    k_offgrid(out, rng, ctx.n(1500, 30000))
    k_wrap(out, rng, ctx.n(1500, 30000))
    return out
