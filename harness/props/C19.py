"""C19 — mission-design helpers are consistent with the dynamics they target."""
import ast
import math
import os

from harness import core, py2lean, instantiate
from harness.core import Outcome, f2b, b2f

ID = "C19"
LEAN_TARGETS = ["BeyondVerif.Props.C19", "BeyondVerif.Props.C19Geom", "BeyondVerif.Props.C19Kepler", "BeyondVerif.Witness.C19"]
THEOREMS = [
    "BeyondVerif.C19.ltan_raan_inverse",
    "BeyondVerif.C19.ltan_raan_inverse_in_day",
    "BeyondVerif.C19.raan_ltan_inverse",
    "BeyondVerif.C19.raan_ltan_inverse_in_turn",
    "BeyondVerif.C19.ltan_raan_ranges",
    "BeyondVerif.C19.ltan_raan_mismatch",
    "BeyondVerif.C19.orb2ltan_source",
    "BeyondVerif.C19.ltan_type_dispatch_source",
    "BeyondVerif.C19.orb2ltan_inverse",
    "BeyondVerif.C19.orb2ltan_type_dropped_defect",
    "BeyondVerif.C19.walker_count",
    "BeyondVerif.C19.walker_count_general",
    "BeyondVerif.C19.walker_fleet_mem",
    "BeyondVerif.C19.walker_planes_even",
    "BeyondVerif.C19.walker_delta_closes",
    "BeyondVerif.C19.walker_phasing",
    "BeyondVerif.C19.walker_inplane",
    "BeyondVerif.C19.sso_self_inverse_a",
    "BeyondVerif.C19.sso_self_inverse_e",
    "BeyondVerif.C19.sso_node_rate",
    "BeyondVerif.C19.sso_self_inverse_i_via_a",
    "BeyondVerif.C19.sso_self_inverse_i_via_e",
    "BeyondVerif.C19.lambert_fg",
    "BeyondVerif.C19.lambert_fg_universal",
    "BeyondVerif.C19.lambert_scan_exit",
    "BeyondVerif.C19.lamStep_cases",
    "BeyondVerif.C19.lambert_newton_exit",
    "BeyondVerif.C19.lamStep_in_bracket",
    "BeyondVerif.C19.lambert_newton_stays_in_bracket",
    "BeyondVerif.C19.lambert_newton_no_break",
    "BeyondVerif.C19.lambert_returns",
    "BeyondVerif.C19.stumpff_identity",
    "BeyondVerif.C19.lamA_sq",
    "BeyondVerif.C19.lamDtheta_cos",
    "BeyondVerif.C19.lambert_A_sq",
    "BeyondVerif.C19.lambert_solves_universal_kepler",
    "BeyondVerif.C19.lambert_solves_universal_kepler_dtheta",
    "BeyondVerif.C19.lamDtheta_eq",
    "BeyondVerif.C19.lamDtheta_range",
    "BeyondVerif.C19.lamDtheta_two_ways",
    "BeyondVerif.C19.lamDtheta_direction",
    "BeyondVerif.C19.lambert_A_ne_zero",
    "BeyondVerif.C19.lambert_solves_universal_kepler_noncollinear",
    "BeyondVerif.C19.lambert_v0_direction",
    "BeyondVerif.C19W.sign_selection_degenerate",
    "BeyondVerif.C19W.code_selection_polar",
    "BeyondVerif.C19W.sign_selection_not_equivalent",
    "BeyondVerif.C19.timedelta_reads_total_seconds",
    "BeyondVerif.C19.td_total_sub_seconds",
    "BeyondVerif.C19.td_seconds_ne_total",
    "BeyondVerif.C19.j2_setter_unconditional",
    "BeyondVerif.C19.j2_getter_private_copy",
    "BeyondVerif.C19.j2_run_priv_irrelevant",
    "BeyondVerif.C19.j2_history_fresh",
    "BeyondVerif.C19.j2_history_eq_fresh_object",
    "BeyondVerif.C19.sso_tuned_in_place_node_rate",
    "BeyondVerif.C19.betaAngle_eq",
    "BeyondVerif.C19.beta_environment",
    "BeyondVerif.C19.beta_clip_in_domain",
    "BeyondVerif.C19.beta_arg_in_domain",
    "BeyondVerif.C19.beta_range",
    "BeyondVerif.C19.beta_is_elevation",
    "BeyondVerif.C19.bplane_S_unit",
    "BeyondVerif.C19.bplane_S_asymptote",
    "BeyondVerif.C19.bplane_orthonormal",
    "BeyondVerif.C19.bplane_B_perp",
    "BeyondVerif.C19.bplane_B_norm",
]
LEVEL_TEXT = ("Lean theorems over R about formulas translated from the Python source on every run (Stumpff functions, y, F, dF, A, f/g/gdot AND the head of _lambert - norms, cross "
              "product, arccos, direction / way selection - of lambert.py; the arithmetic of beta.py; the three modes "
              "of leo.sso; the three secular rates of propagators/j2.py, the text of the J2.orbit getter / setter, and Infos.n; raan2ltan/ltan2raan; raan/nu of both Walker classes) and about hand-written models of the "
              "Lambert loops, the Walker generators, beta and bplane that are tied to the code by a differential correspondence run: LTAN<->RAAN are exact inverses modulo "
              "day / 2 pi for any sun angle; Walker fleets have t satellites, evenly spaced planes, phasing 2 pi f / t; sso is self-inverse and makes the J2 node rate equal "
              "the solar rate; the Lambert velocities satisfy the f-g arrival relations with the universal-variable Lagrange coefficients whenever F(z) = 0, the returned "
              "state (r0, v0) solves Kepler's universal equation for the requested time with z = alpha chi^2 (all four direction/way cases), the bracketed Newton "
              "loop breaks only when its last step (Newton or bisection) is below the tolerance and its iterates never leave the bracket found by the scan; beta is in [-pi/2, pi/2] and is the elevation above the orbit plane; S is the unit incoming-asymptote direction, (S,T,R) "
              "orthonormal, B perpendicular to S and h with |B| = |a| sqrt(e^2-1). "
              "Direction / way selection (as it is in the source: lamDtheta_eq): for EVERY non-collinear pair of positions - r0 x r1 != 0 as a vector, any of its components may be exactly zero - and either "
              "request, 0 < dtheta < 2 pi, dtheta != pi, A finite and non-zero, the two requests add up to 2 pi (the two ways round), sin(dtheta) and the z component of r0 x v0 of the "
              "returned state have the sign the request asks for; the Kepler-equation theorem holds with the single geometric hypothesis r0 x r1 != 0; kernel-checked witness that a "
              "sign(cr[2])-based selection degenerates at cr[2] = 0. J2 propagator object as a state machine (user's orbit + private copy; setter text regenerated from the AST and "
              "proved to be the unconditional copy): along every history of propagations and in-place writes of elements / date on one orbit object each propagation returns what a fresh "
              "object built from the current values returns, and once the inclination is sso(a, e) of the current a, e the node moves at the solar rate. "
              "Durations: every read of a timedelta as a number in the anchored files (regenerated from the AST) is total_seconds() - of _F and of J2.propagate; a read of .seconds would lose at least 86400 s from one day on.")
LEVEL_NOTE = ("R -> double gap covered only by tolerance-bounded correspondence (this gap is where the two findings, now fixed in /repo, lived: NaN from a Newton overshoot "
              "- 5cfb34d, NaN from arcsin(1+ulp) - 1d112fc; their oracle families stay alive); existence of the Lambert root, convergence of scan + Newton, and 'the universal-variable f-g map is the two-body flow' are not proved; "
              "Lean kernel + propext/Classical.choice/Quot.sound; py2lean translator and harness trusted")
TECHNIQUE = "Lean 4 proof (ring / field_simp / floor arithmetic / induction on loop fuel) over formulas regenerated from the Python AST; differential correspondence for loops and vector code"
TRUSTED = [
    "harness/py2lean.py + fn_def/Tr19 in harness/props/C19.py: translate the function bodies of lambert.py (_C,_S,_y,_F,_dF, A and f/g/gdot slices of _lambert), leo.py (three return expressions of sso), "
    "j2.py (com, dOmega), statevector.py (Infos.n), ltan.py (raan2ltan, ltan2raan), constellation.py (raan, nu of both classes) into Generated/{LambertFn,LeoFn,LtanFn,WalkerFn}{F,R}.lean on every run",
    "lean/templates/Mission.tpl (hand-written: 3-vector algebra, scan and Newton loops, v0/v1 assembly, Walker generator loops, bplane, the J2Obj state machine - its setter is the "
    "unconditional copy that theorem j2_setter_unconditional reads off the regenerated setter text), tied by the correspondence run",
    "TrSel / dtheta_def / accessor_stmts in harness/props/C19.py: the statements of _lambert before `A = ...` -> Generated/LambertFn.lamDthetaSrc, the arithmetic of beta() -> Generated/BetaFn.betaSrc (+ the surrounding object-access statements as text, betaEnv) (3-vectors as components, np.cross, np.linalg.norm, `@`, np.sign, "
    "if/elif); the unparsed statements of the J2.orbit getter and setter -> Generated/LeoFn.j2OrbitGetter / j2OrbitSetter; timedelta_reads: every attribute read .total_seconds/.seconds/.days/.microseconds "
    "of the anchored files -> Generated/LeoFn.timedeltaReads",
    "numpy / libm double arithmetic vs R: tolerance 1e-9 relative (1e-7 (1 + 0.01/dE^2) on Lambert velocities after the iteration, whose exit criterion is an absolute 1e-8 in z = dE^2), Walker fleets bit-exact",
]
ASSUMPTIONS = [
    "theorems are over R; the implementation computes in IEEE doubles",
    "Lambert: F(z) = 0 (resp. the convergence flag) is a hypothesis; y(z) >= 0, C(z) > 0, mu > 0, g != 0; geometry: r0 != 0, r1 != 0, r0 x r1 != 0 as a vector (no condition on single components)",
    "oracle on hand-written geometry: positions 15 to 165 deg apart, transfer time 1.05 to 5 times the parabolic time (Euler's equation) of the way round that the request designates - an elliptic solution of "
    "less than one revolution exists; for cr[2] = 0 or |cr[2]| <= 1e-9 |r0||r1| (polar transfer plane, neither way is pro- or retrograde) the time exceeds both parabolic times and either way is accepted",
    "durations: the model's lamF / lambert take the transfer time in seconds; the harness hands it tdTotal(days, seconds, microseconds) (Model/Mission, compared bit-exactly with timedelta.total_seconds())",
    "J2 histories: the user's orbit is kept in keplerian_mean form (writes by index 0..5 and of the date); the model's epoch is seconds from the first epoch",
    "sso: a > 0, mu > 0, re != 0, J2 != 0, e^2 != 1 (0 <= e < 1 for the eccentricity mode) and -1 <= ssoCos <= 1 (a sun-synchronous inclination exists)",
    "the 'mean solar rate' is the constant the code uses, 2 pi / 365.256363004 d (sidereal year); the tropical-year rate differs from it by 3.9e-5 relative",
    "B-plane: e > 1, h != 0, S not exactly along the pole +-(0,0,1) (T undefined there; every other direction, however close, is inside the theorem bplane_orthonormal and inside the generators down to 1e-5 rad); |a| is an input of the model (cartesian -> keplerian conversion belongs to C01)",
    "Walker: planes != 0, planes | total for count and phasing",
]
NOT_COVERED = [
    "existence and uniqueness of the Lambert root, termination of the 0.05 scan and convergence of the Newton iteration (hypotheses of the theorems; exercised by the oracle only)",
    "that the universal-variable formulation (Kepler's universal equation + Lagrange coefficients f, g) is the two-body flow (classical result, C05's domain; what IS proved: the returned state satisfies that equation for the requested time and r1 = f r0 + g v0); the oracle propagates with an independent universal-variable Kepler solver and with the Kepler propagator",
    "lamDF is the derivative of lamF (Newton would merely converge more slowly otherwise): not proved",
    "_mean_sun_raan / _true_sun_raan themselves (the theorems hold for an arbitrary sun angle), sso_frozen / frozen, beta_limit, flyby (which references undefined names and cannot run)",
    "theta of the B-plane (observed while adding coordinate-plane hyperbolas: for an equatorial hyperbola B is parallel to T, the arccos argument is +-1 +- 1 ulp and theta is 0, pi or NaN "
    "according to rounding, in the code and in the model alike; theta is not part of the property statement)",
    "Orbit.propagate / Orbit.iter themselves (`if self.propagator.orbit is not self: self.propagator.orbit = self`, orbits/orbit.py): part of the J2Obj model by description, exercised by the history "
    "correspondence and the sso-sequence oracle, not translated from the source (C05's anchor)",
]
OPEN = [
    "the bplane model is hand-written; tied to the code by correspondence only (TrSel of this module translates the head of _lambert and the arithmetic of beta; bplane needs vector-valued expressions)",
    "at cr[2] = 0 the request cannot be 'matched' (a polar transfer is neither pro- nor retrograde): what is proved there is that a proper angle is chosen and that the two requests are the two ways round",
]
RULE = ("correspondence: random inputs from ctx.rng through the real functions and the compiled Lean model: lambert scalar functions (z<0, 0, >0; y<0 gives non-finite on both sides), "
        "full _lambert on arcs cut from orbits (both directions, short/long way, small angles) and on hand-written geometry (coordinate planes, planes through one axis, exact-zero components of "
        "r0 x r1, axis-parallel positions, exactly 90 deg, both requests; a non-finite or > 1e5 m/s result inside the domain is a failure of the code, not agreement), transfer angle / A of the model "
        "on the same geometry, histories propagate / orb[k] = v / orb.date = t on one Orbit object with a J2 propagator against the J2Obj state machine, sso 3 modes + J2 node rate measured "
        "through J2.propagate, ltan both types (sun angle taken from the real code), "
        "Walker fleets bit-exact incl. planes not dividing total and raan0 != 0 (whole degrees, tenths, next to 2 pi), beta vs Orbit references incl. axis-aligned orbits and bodies exactly on an axis / on the normal, "
        "bplane for e in [1.05,10] incl. hyperbolas in coordinate planes and polar approaches (asymptote 1e-5 .. 0.3 rad from +z or -z, any orbit plane through it; T, R, theta compared with the 1/sin conditioning); non-trivial = every case; distinct = distinct request. "
        "oracle: Lambert arrival within 10 m by independent (bracketed) universal-variable propagation and by the Kepler propagator through the public lambert(); on hand-written geometry both requests: finite, arrival at "
        "both ends, direction of r0 x v0, two ways round; sso round trips + node rate; sso -> Orbit(J2) -> propagate|iter -> tune i|a|e in place -> propagate|iter: solar rate and equal to a fresh object; "
        "Lambert durations from minutes (fractional seconds) to 60 days (exactly n days, n days + fraction, 24 h + a little) as timedelta(days, seconds, microseconds), propagated for the requested duration, both ends, both requests, both APIs; "
        "an exception inside an oracle case is a failing input of that case; "
        "ltan round trips; Walker count/planes/in-plane/phasing (thorough: every p <= 6, t/p <= 4, f < p); beta range + elevation incl. bodies on the orbit normal and on the axes; "
        "bplane S/orthonormal/B perp/|B|/B x v_inf = h incl. coordinate planes and polar approaches from the north and the south (asymptote 1e-5 .. 0.3 rad from the pole, Earth/Moon/Sun); read - modify in place - read again on the objects handed to beta, bplane and on Walker objects")

MU_E = 3.986004418e14          # only used by the generators to make plausible cases; the checks read mu from the real frames
TWO_PI = 2 * math.pi


# ---------------------------------------------------------------- extraction: formulas translated from the source on every run

def src(*parts):
    return os.path.join(core.REPO, "beyond", *parts)


class Tr19(py2lean.Tr):
    """py2lean.Tr with `a == b` rendered as `a <= b and b <= a` (decidable on Float and on R, equal to `=` on R)"""

    def expr(self, e):
        if isinstance(e, ast.Compare) and len(e.ops) == 1 and isinstance(e.ops[0], ast.Eq):
            a, b = self.expr(e.left), self.expr(e.comparators[0])
            return f"(({a} ≤ {b}) ∧ ({b} ≤ {a}))"
        return super().expr(e)


def _ret_to_assign(stmts):
    out = []
    for s in stmts:
        if isinstance(s, ast.Return):
            out.append(ast.Assign(targets=[ast.Name(id="ret__", ctx=ast.Store())], value=s.value))
        elif isinstance(s, ast.If):
            out.append(ast.If(test=s.test, body=_ret_to_assign(s.body), orelse=_ret_to_assign(s.orelse)))
        elif isinstance(s, ast.Expr) and isinstance(s.value, ast.Constant):
            continue
        else:
            out.append(s)
    return out


def fn_def(path, qualname, inputs, lean_name, consts=None, funcs=None, pick_return=None, extra_inputs=()):
    """whole function body -> `def lean_name (inputs : R) : R := let ...; <returned expression>`.
    pick_return=k: the function is an if-chain on untranslatable tests (mode selection); take the k-th `return`
    in source order together with the straight-line prelude."""
    tree = ast.parse(open(path).read())
    fn = py2lean.find_function(tree, qualname)
    body = fn.body
    if pick_return is not None:
        rets = [n for n in ast.walk(fn) if isinstance(n, ast.Return)]
        rets.sort(key=lambda n: (n.lineno, n.col_offset))
        body = [s for s in fn.body if isinstance(s, ast.Assign)] + [rets[pick_return]]
    stmts = _ret_to_assign(body)
    tr = Tr19(consts=consts, funcs=funcs)
    wanted = py2lean.needed_names(stmts, ["ret__"], inputs) - set(inputs)
    text = tr.block(stmts, "ret__", wanted)
    args = " ".join(py2lean.lname(i) for i in list(inputs) + list(extra_inputs))
    return f"def {lean_name} ({args} : R) : R :=\n{py2lean.indent(text)}\n"


class TrSel(py2lean.TrFn):
    """py2lean.TrFn (3-vectors as scalar components, np.cross, np.linalg.norm, np.sign, `v[k]`) + `a @ b` of two 3-vectors"""

    def expr(self, e):
        if isinstance(e, ast.BinOp) and isinstance(e.op, ast.MatMult):
            a, b = self.vec_of(e.left), self.vec_of(e.right)
            if a is None or b is None or len(a) != len(b):
                raise py2lean.Untranslatable("@ of non-vectors")
            return "(" + " + ".join(f"({x} * {y})" for x, y in zip(a, b)) + ")"
        return super().expr(e)

    def vec_of(self, node):
        if isinstance(node, ast.Call) and self.dotted(node.func) in ("np.asarray", "numpy.asarray") and len(node.args) == 1 and not isinstance(node.args[0], (ast.List, ast.Tuple)):
            v = self.vec_of(node.args[0])
            if v is not None:
                return v
        return super().vec_of(node)


def is_env_stmt(s):
    """a statement that fetches the numbers from objects (method calls on something else than numpy / math, isinstance dispatch):
    outside the expression language - kept as text"""
    if isinstance(s, ast.If) and any(isinstance(n, ast.Call) and isinstance(n.func, ast.Name) and n.func.id == "isinstance" for n in ast.walk(s.test)):
        return True
    for n in ast.walk(s):
        if isinstance(n, ast.Call) and isinstance(n.func, ast.Attribute):
            root = n.func
            while isinstance(root, ast.Attribute):
                root = root.value
            if not (isinstance(root, ast.Name) and root.id in ("np", "numpy", "math")):
                return True
    return False


def beta_def(path):
    """`beta(orb, ref)`: the arithmetic on the cartesian state `orb` (6-vector) and the position `ref_pos` (3-vector) as
    `betaSrc`; the statements that obtain these two from the objects as the text list `betaEnv`"""
    fn = py2lean.find_function(ast.parse(open(path).read()), "beta")
    stmts = [s for s in fn.body if not (isinstance(s, ast.Expr) and isinstance(s.value, ast.Constant))]
    env = [ast.unparse(s) for s in stmts if is_env_stmt(s)]
    tr = TrSel(funcs={"clip": "clipR"})
    tr.vecs = {"orb": ["px", "py", "pz", "vx", "vy", "vz"], "ref_pos": ["rx", "ry", "rz"]}
    body = tr.stmts([s for s in stmts if not is_env_stmt(s)])
    return (f"def betaSrc (px py pz vx vy vz rx ry rz : R) : R :=\n{py2lean.indent(body)}\n\n"
            "/-- the statements of `beta` outside the arithmetic: where the state and the position of the body come from -/\n"
            f"def betaEnv : List String := {lean_strs(env)}\n")


CLIP_PRELUDE = """/-- `np.clip(x, lo, hi)` (a NaN passes through, as in numpy) -/
def clipR (x lo hi : R) : R := if x < lo then lo else if x > hi then hi else x

"""


def dtheta_def(path):
    """the head of `_lambert` — norms, cross product, transfer angle and the direction / way selection, every statement
    before the first assignment of `A` — as `def lamDthetaSrc (r0x … r1z : R) (prograde : Bool) : R`"""
    fn = py2lean.find_function(ast.parse(open(path).read()), "_lambert")
    stmts = [s for s in fn.body if not (isinstance(s, ast.Expr) and isinstance(s.value, ast.Constant))]
    cut = next((k for k, s in enumerate(stmts) if isinstance(s, ast.Assign) and any(isinstance(t, ast.Name) and t.id == "A" for t in s.targets)), None)
    if cut is None:
        raise py2lean.Untranslatable("_lambert: no assignment of A")
    tr = TrSel()
    tr.vecs = {"r0": ["r0x", "r0y", "r0z"], "r1": ["r1x", "r1y", "r1z"]}
    tr.defined.add("prograde")
    body = tr.stmts(stmts[:cut] + [ast.Return(value=ast.Name(id="dtheta", ctx=ast.Load()))])
    return f"def lamDthetaSrc (r0x r0y r0z r1x r1y r1z : R) (prograde : Bool) : R :=\n{py2lean.indent(body)}\n"


def accessor_stmts(path, cls, name):
    """source text of the statements of the getter and of the setter of property `cls.name` (docstrings dropped)"""
    tree = ast.parse(open(path).read())
    c = next(n for n in tree.body if isinstance(n, ast.ClassDef) and n.name == cls)
    get, set_ = [], []
    for f in c.body:
        if isinstance(f, ast.FunctionDef) and f.name == name:
            body = [ast.unparse(s) for s in f.body if not (isinstance(s, ast.Expr) and isinstance(s.value, ast.Constant))]
            deco = [ast.unparse(d) for d in f.decorator_list]
            if "property" in deco:
                get = body
            elif f"{name}.setter" in deco:
                set_ = body
    return get, set_


def fn_stmts(path, name):
    """source text of the statements of the module-level function `name` (docstring dropped), with its argument list first"""
    tree = ast.parse(open(path).read())
    f = next(n for n in tree.body if isinstance(n, ast.FunctionDef) and n.name == name)
    return ["def " + name + "(" + ast.unparse(f.args) + ")"] + [ast.unparse(s_) for s_ in f.body if not (isinstance(s_, ast.Expr) and isinstance(s_.value, ast.Constant))]


def ltan_dispatch(path):
    """the `if type == …` statements of raan2ltan and ltan2raan (one line each, 'function: test -> assignment' per branch)"""
    tree = ast.parse(open(path).read())
    out = []
    for name in ("raan2ltan", "ltan2raan"):
        f = next(n for n in tree.body if isinstance(n, ast.FunctionDef) and n.name == name)
        for st in f.body:
            node = st
            while isinstance(node, ast.If):
                out.append(f"{name}: {ast.unparse(node.test)} -> " + "; ".join(ast.unparse(b) for b in node.body))
                if len(node.orelse) == 1 and isinstance(node.orelse[0], ast.If):
                    node = node.orelse[0]
                else:
                    if node.orelse:
                        out.append(f"{name}: else -> " + "; ".join(ast.unparse(b) for b in node.orelse))
                    node = None
    return out


TIMEDELTA_FILES = [("utils", "lambert.py"), ("utils", "leo.py"), ("utils", "ltan.py"), ("utils", "constellation.py"), ("utils", "beta.py"),
                   ("utils", "interplanetary.py"), ("propagators", "j2.py")]


def timedelta_reads():
    """every place of the anchored files where a duration is turned into a number: attribute reads `.total_seconds` / `.seconds` /
    `.days` / `.microseconds`, as "<file>:<function>: <expression>" in source order"""
    out = []
    for parts in TIMEDELTA_FILES:
        tree = ast.parse(open(src(*parts)).read())

        def visit(node, qual):
            for ch in ast.iter_child_nodes(node):
                q = qual + [ch.name] if isinstance(ch, (ast.FunctionDef, ast.ClassDef)) else qual
                if isinstance(ch, ast.Attribute) and ch.attr in ("total_seconds", "seconds", "days", "microseconds"):
                    out.append((ch.lineno, ch.col_offset, f"{parts[-1]}:{'.'.join(q)}: {ast.unparse(ch)}"))
                visit(ch, q)
        visit(tree, [])
    return [t for _, _, t in sorted(out, key=lambda x: (x[2].split(":")[0], x[0], x[1]))]


def lean_strs(xs):
    return "[" + ", ".join('"' + x.replace("\\", "\\\\").replace('"', '\\"').replace("\n", "\\n") + '"' for x in xs) + "]"


def extract(ctx):
    ch = []
    L = src("utils", "lambert.py")
    lf = {"_C": "lamC", "_S": "lamS", "_y": "lamY", "duration.total_seconds": "id duration"}
    body = "\n".join([
        fn_def(L, "_C", ["z"], "lamC"),
        fn_def(L, "_S", ["z"], "lamS"),
        fn_def(L, "_y", ["nr0", "nr1", "A", "z"], "lamY", funcs=lf),
        fn_def(L, "_F", ["nr0", "nr1", "A", "z", "duration", "mu"], "lamF", funcs=lf),
        fn_def(L, "_dF", ["nr0", "nr1", "A", "z"], "lamDF", funcs=lf),
        py2lean.translate_slice(L, "_lambert", ["nr0", "nr1", "dtheta"], ["A"], "lamA"),
        py2lean.translate_slice(L, "_lambert", ["nr0", "nr1", "A", "z", "mu"], ["f", "g", "gdot"], "lamFG", funcs=lf),
        dtheta_def(L),
    ])
    ch += py2lean.instantiate(core.LEAN, "LambertFn", body, "beyond/utils/lambert.py")
    E = {"Earth.mu": "mu", "Earth.r": "re", "Earth.J2": "j2"}
    P = src("utils", "leo.py")
    body = "\n".join([
        fn_def(P, "sso", ["a", "e"], "ssoI", consts=E, pick_return=0, extra_inputs=["mu", "re", "j2"]),
        fn_def(P, "sso", ["e", "i"], "ssoA", consts=E, pick_return=1, extra_inputs=["mu", "re", "j2"]),
        fn_def(P, "sso", ["a", "i"], "ssoE", consts=E, pick_return=2, extra_inputs=["mu", "re", "j2"]),
        py2lean.translate_slice(src("propagators", "j2.py"), "J2.propagate", ["n", "re", "a", "e", "i", "j2"], ["dΩ"], "j2NodeRate", consts={"Earth.J2": "j2"}),
        fn_def(src("orbits", "statevector.py"), "Infos.n", [], "meanMotion", consts={"self.mu": "mu", "self.kep.a": "a"}, extra_inputs=["mu", "a"]),
        py2lean.translate_slice(src("propagators", "j2.py"), "J2.propagate", ["n", "re", "a", "e", "i", "j2"], ["dΩ", "dω", "dM"], "j2Rates", consts={"Earth.J2": "j2"}),
        "/-- the statements of the getter / setter of `J2.orbit`, as text (what the propagator keeps between two calls) -/\n"
        "def j2OrbitGetter : List String := " + lean_strs(accessor_stmts(src("propagators", "j2.py"), "J2", "orbit")[0]) + "\n\n"
        "def j2OrbitSetter : List String := " + lean_strs(accessor_stmts(src("propagators", "j2.py"), "J2", "orbit")[1]) + "\n\n"
        "/-- every read of a duration as a number in the anchored files (lambert, leo, ltan, constellation, beta, interplanetary, j2) -/\n"
        "def timedeltaReads : List String := " + lean_strs(timedelta_reads()) + "\n",
    ])
    ch += py2lean.instantiate(core.LEAN, "LeoFn", body, "beyond/utils/leo.py, beyond/propagators/j2.py, beyond/orbits/statevector.py (Infos.n)")
    T = src("utils", "ltan.py")
    body = "\n".join([
        fn_def(T, "raan2ltan", ["raan", "sun_raan"], "raan2ltan"),
        fn_def(T, "ltan2raan", ["ltan", "sun_raan"], "ltan2raan"),
        "/-- the statements of `orb2ltan`, as text: which date, which right ascension and which `type` it hands to `raan2ltan` -/\n"
        "def orb2ltanBody : List String := " + lean_strs(fn_stmts(T, "orb2ltan")) + "\n\n"
        "/-- how `raan2ltan` / `ltan2raan` choose the sun angle from `type`, as text (the `if` statements of the two functions) -/\n"
        "def ltanTypeDispatch : List String := " + lean_strs(ltan_dispatch(T)) + "\n",
    ])
    ch += py2lean.instantiate(core.LEAN, "LtanFn", body, "beyond/utils/ltan.py")
    W = src("utils", "constellation.py")
    cs = {"self.planes": "planes", "self.raan0": "raan0", "self.per_plane": "per_plane", "self.spacing": "spacing"}
    body = "\n".join([
        fn_def(W, "WalkerStar.raan", ["planes", "raan0", "i_plane"], "starRaan", consts=cs),
        fn_def(W, "WalkerStar.nu", ["planes", "raan0", "per_plane", "spacing", "i_plane", "i_sat"], "starNu", consts=cs, funcs={"self.raan": "starRaan planes raan0"}),
        fn_def(W, "WalkerDelta.raan", ["planes", "raan0", "i_plane"], "deltaRaan", consts=cs),
        fn_def(W, "WalkerDelta.nu", ["planes", "raan0", "per_plane", "spacing", "i_plane", "i_sat"], "deltaNu", consts=cs, funcs={"self.raan": "deltaRaan planes raan0"}),
    ])
    ch += py2lean.instantiate(core.LEAN, "WalkerFn", body, "beyond/utils/constellation.py")
    ch += py2lean.instantiate(core.LEAN, "BetaFn", CLIP_PRELUDE + beta_def(src("utils", "beta.py")), "beyond/utils/beta.py")
    ch += instantiate.main()
    return ch


# ---------------------------------------------------------------- independent two-body machinery (oracle side)

def stumpff(z):
    if z > 1e-6:
        s = math.sqrt(z)
        return (1 - math.cos(s)) / z, (s - math.sin(s)) / s ** 3
    if z < -1e-6:
        s = math.sqrt(-z)
        if s > 700:
            return math.inf, math.inf      # a hyperbolic state far beyond the root (bracketing of kepler_uv): F = +inf there
        return (math.cosh(s) - 1) / (-z), (math.sinh(s) - s) / s ** 3
    return 0.5 - z / 24 + z * z / 720, 1 / 6 - z / 120 + z * z / 5040


def kepler_uv(r0, v0, dt, mu):
    """independent universal-variable two-body propagation (Bate-Mueller-White / Curtis alg. 3.4)"""
    import numpy as np
    r0 = np.array(r0, float)
    v0 = np.array(v0, float)
    nr0 = float(np.linalg.norm(r0))
    vr0 = float(r0 @ v0) / nr0
    alpha = 2 / nr0 - float(v0 @ v0) / mu
    sm = math.sqrt(mu)

    def FdF(chi):
        z = alpha * chi * chi
        C, S = stumpff(z)
        return (nr0 * vr0 / sm * chi ** 2 * C + (1 - alpha * nr0) * chi ** 3 * S + nr0 * chi - sm * dt,
                nr0 * vr0 / sm * chi * (1 - alpha * chi ** 2 * S) + (1 - alpha * nr0) * chi ** 2 * C + nr0)

    # F is increasing in chi (dF/dchi = r > 0), F(0) = -sqrt(mu) dt <= 0: bracket the root, then Newton kept inside the
    # bracket (bisection otherwise) - near-rectilinear ellipses make the plain Newton iteration diverge
    lo, hi = 0.0, max(sm * abs(alpha) * dt, 1.0)
    for _ in range(200):
        if FdF(hi)[0] >= 0:
            break
        lo, hi = hi, 2 * hi
    chi = min(max(sm * abs(alpha) * dt, lo), hi)
    for _ in range(300):
        F, dF = FdF(chi)
        if F < 0:
            lo = chi
        else:
            hi = chi
        new = chi - F / dF if dF > 0 else None
        if new is None or not lo <= new <= hi:
            new = (lo + hi) / 2
        d = new - chi
        chi = new
        if abs(d) < 1e-13 * max(1.0, abs(chi)):
            break
    z = alpha * chi * chi
    C, S = stumpff(z)
    f = 1 - chi ** 2 / nr0 * C
    g = dt - chi ** 3 * S / sm
    return f * r0 + g * v0


def pq(i, O, w):
    import numpy as np
    P = np.array([math.cos(O) * math.cos(w) - math.sin(O) * math.sin(w) * math.cos(i),
                  math.sin(O) * math.cos(w) + math.cos(O) * math.sin(w) * math.cos(i), math.sin(w) * math.sin(i)])
    Q = np.array([-math.cos(O) * math.sin(w) - math.sin(O) * math.cos(w) * math.cos(i),
                  -math.sin(O) * math.sin(w) + math.cos(O) * math.cos(w) * math.cos(i), math.cos(w) * math.sin(i)])
    return P, Q


def kep2cart(a, e, i, O, w, nu, mu):
    """elliptic or hyperbolic (a < 0) elements -> position, velocity"""
    P, Q = pq(i, O, w)
    p = a * (1 - e * e)
    r = p / (1 + e * math.cos(nu))
    return r * (math.cos(nu) * P + math.sin(nu) * Q), math.sqrt(mu / p) * (-math.sin(nu) * P + (e + math.cos(nu)) * Q)


def nu2ME(nu, e):
    E = 2 * math.atan2(math.sqrt(1 - e) * math.sin(nu / 2), math.sqrt(1 + e) * math.cos(nu / 2))
    return E - e * math.sin(E), E


def gen_lambert(rng, small=False):
    """an elliptic arc of less than one revolution, described by the orbit it was cut from"""
    a = rng.choice([rng.uniform(6.7e6, 9e6), rng.uniform(9e6, 5e7), rng.uniform(9e6, 5e7), rng.uniform(5e7, 1e9)])     # periods from 1.5 h to 115 days
    e = rng.uniform(0, 0.8)
    a = max(a, 6.6e6 / (1 - e))
    i = rng.choice([rng.uniform(0.02, 1.45), rng.uniform(1.69, math.pi - 0.02)])
    O, w, nu0 = (rng.uniform(0, TWO_PI) for _ in range(3))
    if small:
        dnu = math.radians(rng.uniform(0.3, 3.0))
    else:
        dnu = rng.choice([rng.uniform(0.25, math.pi - 0.05), rng.uniform(math.pi + 0.05, TWO_PI - 0.15)])
    M0, E0 = nu2ME(nu0, e)
    M1, E1 = nu2ME(nu0 + dnu, e)
    dM = (M1 - M0) % TWO_PI
    dE = (E1 - E0) % TWO_PI
    n = math.sqrt(MU_E / a ** 3)
    tof = round(dM / n, 6)     # timedelta resolution
    return {"a": a, "e": e, "i": i, "raan": O, "argp": w, "nu0": nu0, "dnu": dnu, "dE": dE, "tof": tof}


def lambert_family(c, finite):
    way = "short" if c["dnu"] < math.pi else "long"
    direction = "prograde" if c["i"] < math.pi / 2 else "retrograde"
    if not finite and c["dE"] ** 2 < 0.05:
        return "lambert-nonfinite-root-below-first-scan-step"
    if not finite:
        return f"lambert-nonfinite-{direction}-{way}"
    return f"lambert-arrival-{direction}-{way}"


def check_lambert(out, c, use_orbit_api):
    import numpy as np
    from beyond.dates import Date, timedelta
    from beyond.orbits import Orbit
    from beyond.utils.lambert import lambert, _lambert
    from beyond.frames.frames import get_frame
    mu = get_frame("EME2000").center.body.mu
    r0, v0t = kep2cart(c["a"], c["e"], c["i"], c["raan"], c["argp"], c["nu0"], mu)
    r1, v1t = kep2cart(c["a"], c["e"], c["i"], c["raan"], c["argp"], c["nu0"] + c["dnu"], mu)
    # the generators used MU_E to pick the time of flight; recompute it with the frame's mu
    M0, _ = nu2ME(c["nu0"], c["e"])
    M1, _ = nu2ME(c["nu0"] + c["dnu"], c["e"])
    tof = round(((M1 - M0) % TWO_PI) / math.sqrt(mu / c["a"] ** 3), 6)
    prograde = c["i"] < math.pi / 2
    d0 = Date(2021, 3, 4, 5, 6, 7)
    way = "short" if c["dnu"] < math.pi else "long"
    out.count(key=("lambert", c["a"], c["e"], c["nu0"], c["dnu"]), kind="lambert-" + ("prograde" if prograde else "retrograde") + "-" + way,
              api="orbit" if use_orbit_api else "array", small_angle=c["dE"] ** 2 < 0.05)
    inp = dict(c, tof=tof, prograde=prograde, r0=list(map(float, r0)), r1=list(map(float, r1)), mu=mu)
    if use_orbit_api:
        o0 = Orbit(list(r0) + list(v0t), d0, "cartesian", "EME2000", "Kepler")
        o1 = Orbit(list(r1) + list(v1t), d0 + timedelta(seconds=tof), "cartesian", "EME2000", "Kepler")
        s0, s1 = lambert(o0, o1, prograde)
        v0, v1 = np.array(s0[3:], float), np.array(s1[3:], float)
        if not (np.all(np.asarray(s0[:3]) == r0) and np.all(np.asarray(s1[:3]) == r1)):
            out.fail("lambert-endpoints-changed", "lambert() altered the end positions", inp)
            return
    else:
        v0, v1 = _lambert(np.array(r0), np.array(r1), timedelta(seconds=tof), mu, prograde)
    finite = bool(np.all(np.isfinite(v0)) and np.all(np.isfinite(v1)))
    fam = lambert_family(c, finite)
    if not finite:
        out.fail(fam, "Lambert solver returns non-finite velocities for an elliptic transfer of less than one revolution", inp,
                 observed=[float(x) for x in v0], expected=[float(x) for x in v0t])
        return
    arr = kepler_uv(r0, v0, tof, mu)
    err = float(np.linalg.norm(arr - r1))
    if use_orbit_api:
        s0.propagator = "Kepler"
        arr2 = np.asarray(s0.propagate(timedelta(seconds=tof)), float)
        err = max(err, float(np.linalg.norm(arr2[:3] - r1)))
        dv1 = float(np.linalg.norm(arr2[3:] - v1))
        if not dv1 < 1e-2:
            out.fail(fam + "-v1", "arrival velocity returned by lambert() differs from the propagated departure state", inp, observed=dv1, expected="< 1e-2 m/s")
            return
    tol = max(10.0, 2e-9 * float(np.linalg.norm(r0) + np.linalg.norm(r1)))
    if not err < tol:
        out.fail(fam, "velocity returned by the Lambert solver does not arrive at the target position (two-body propagation over the transfer time)", inp,
                 observed={"miss_m": err, "v0": [float(x) for x in v0]}, expected={"miss_m": f"< {tol}", "v0": [float(x) for x in v0t]})


# ---------------------------------------------------------------- Lambert on hand-written geometry: exact zeros, axis-aligned positions

AXES = [(1.0, 0.0, 0.0), (0.0, 1.0, 0.0), (0.0, 0.0, 1.0)]
EXACT_CS = [(1.0, 0.0), (0.0, 1.0), (-1.0, 0.0), (0.0, -1.0)]


def t_parab(r0, r1, long_way, mu):
    """time of flight of the parabolic transfer (Euler's equation): every longer time has an elliptic solution of less than one revolution"""
    n0 = math.sqrt(sum(x * x for x in r0))
    n1 = math.sqrt(sum(x * x for x in r1))
    c = math.sqrt(sum((x - y) ** 2 for x, y in zip(r0, r1)))
    sp = (n0 + n1 + c) / 2
    return math.sqrt(2) / 3 * math.sqrt(sp ** 3 / mu) * (1 + (1 if long_way else -1) * ((sp - c) / sp) ** 1.5)


def gen_plane(rng, axis=True):
    """an orthonormal pair spanning the transfer / orbit plane.  axis=True: exact unit vectors - a coordinate plane (every
    component of the normal but one is an exact zero) or a plane containing one coordinate axis (one exact zero)"""
    if not axis:
        P, Q = pq(rng.uniform(0.02, math.pi - 0.02), rng.uniform(0, TWO_PI), rng.uniform(0, TWO_PI))
        return [float(x) for x in P], [float(x) for x in Q], "generic"
    if rng.random() < 0.65:
        a, b = rng.sample([0, 1, 2], 2)
        sa, sb = rng.choice([1.0, -1.0]), rng.choice([1.0, -1.0])
        P = [sa * x for x in AXES[a]]
        Q = [sb * x for x in AXES[b]]
        return P, Q, "coordinate-plane-" + "xyz"[a] + "xyz"[b]
    ax = rng.choice([0, 1, 2])
    psi = rng.uniform(0, TWO_PI)
    P = list(AXES[ax])
    Q = [0.0, 0.0, 0.0]
    Q[(ax + 1) % 3], Q[(ax + 2) % 3] = math.cos(psi), math.sin(psi)
    if rng.random() < 0.5:
        P, Q = Q, P
    return P, Q, "plane-through-" + "xyz"[ax]


def gen_geometry(rng, axis=True):
    """two non-collinear positions (15 deg to 165 deg apart) in such a plane; the in-plane directions are exact
    (1,0), (0,1), (-1,0), (0,-1) in 40 % of the draws: positions parallel to an axis, transfer angles of exactly 90 deg"""
    while True:
        P, Q, kind = gen_plane(rng, axis)

        def cs():
            if rng.random() < 0.4:
                return rng.choice(EXACT_CS)
            t = rng.uniform(0, TWO_PI)
            return math.cos(t), math.sin(t)
        (c0, s0), (c1, s1) = cs(), cs()
        if abs(c0 * s1 - s0 * c1) < 0.26:
            continue
        n0, n1 = rng.uniform(6.7e6, 4.5e7), rng.uniform(6.7e6, 4.5e7)
        r0 = [n0 * (c0 * P[k] + s0 * Q[k]) + 0.0 for k in range(3)]      # + 0.0: no negative zeros
        r1 = [n1 * (c1 * P[k] + s1 * Q[k]) + 0.0 for k in range(3)]
        return {"r0": r0, "r1": r1, "plane": kind}


def cross3(a, b):
    return [a[1] * b[2] - a[2] * b[1], a[2] * b[0] - a[0] * b[2], a[0] * b[1] - a[1] * b[0]]


def geom_zone(r0, r1):
    """crz0: the z component of r0 x r1 is exactly zero; crz~0: it is rounding noise (|cr[2]| <= 1e-9 |r0||r1|: a polar transfer plane
    written with inexact components - the sign of cr[2], hence the way the code goes round, is an accident of rounding)"""
    cr = cross3(r0, r1)
    nn = math.sqrt(sum(x * x for x in r0) * sum(x * x for x in r1))
    zone = "crz0" if cr[2] == 0 else "crz~0" if abs(cr[2]) <= 1e-9 * nn else "crz+" if cr[2] > 0 else "crz-"
    return zone, "".join("0" if c == 0 else "x" for c in cr)


def geom_tof(r0, r1, pro, factor, mu):
    """a transfer time inside the property's domain (elliptic, less than one revolution) for the way round that the
    request designates: prograde = positive z component of the angular momentum.  For cr[2] == 0 (polar transfer plane)
    neither way is pro- or retrograde: the time is taken longer than both parabolic times, either way is acceptable (same for
    cr[2] = rounding noise)."""
    crz = cross3(r0, r1)[2]
    if geom_zone(r0, r1)[0] in ("crz0", "crz~0"):
        tp = t_parab(r0, r1, True, mu)
    else:
        short = (crz > 0) == pro
        tp = t_parab(r0, r1, not short, mu)
    return round(tp * factor, 6)


_CENTER_FRAMES = {}
CENTER_SCALE = {"Earth": 1.0, "Moon": 0.3, "Sun": 5000.0}     # lengths of the generators are multiplied by this


def center_frame(name):
    """(frame, mu) for a centre other than the default: the frames of beyond.env.solarsystem (analytical Sun / Moon); mu is read
    from beyond.constants, not from the frame the code under test reads it from"""
    import warnings
    from beyond import constants
    if name == "Earth":
        return "EME2000", constants.Earth.mu
    if name not in _CENTER_FRAMES:
        from beyond.env import solarsystem
        with warnings.catch_warnings():
            warnings.simplefilter("ignore")
            _CENTER_FRAMES[name] = solarsystem.get_frame(name)
    return _CENTER_FRAMES[name], getattr(constants, name).mu


def check_lambert_center(out, rng, center):
    """lambert() in a frame centred on another body (docstring: 'orb0 should be expressed in the "Sun" ... reference frame'), the
    target orbit possibly given in another frame: gravitational parameter of the frame's centre, conversion of the target"""
    import numpy as np
    from beyond.dates import Date, timedelta
    from beyond.orbits import Orbit
    from beyond.utils.lambert import lambert
    frame, mu = center_frame(center)
    sc = CENTER_SCALE[center]
    g = gen_geometry(rng, axis=rng.random() < 0.5)
    r0, r1 = np.array(g["r0"]) * sc, np.array(g["r1"]) * sc
    pro = rng.random() < 0.5
    factor = rng.uniform(1.1, 4.0)
    tof = geom_tof(list(r0), list(r1), pro, factor, mu)
    other = rng.choice([None, None, "EME2000" if center != "Earth" else "MOD", "TOD" if center == "Earth" else "EME2000"])
    zone, zeros = geom_zone(list(r0), list(r1))
    inp = {"center": center, "r0": [float(x) for x in r0], "r1": [float(x) for x in r1], "prograde": pro, "factor": factor, "tof": tof, "target_frame": other, "plane": g["plane"]}
    out.count(key=("lambert-center", center, tuple(inp["r0"]), tuple(inp["r1"]), pro), kind="lambert-center-" + center, target_frame=str(other))
    d0 = Date(2024, 1, 1) + timedelta(seconds=rng.uniform(0, 3e7))
    o0 = Orbit(list(r0) + [0.0, 0.0, 0.0], d0, "cartesian", frame, None)
    o1 = Orbit(list(r1) + [0.0, 0.0, 0.0], d0 + timedelta(seconds=tof), "cartesian", frame, None)
    if other:
        o1 = o1.copy(frame=other)
    s0, s1 = lambert(o0, o1, pro)
    v0 = np.array(s0[3:], float)
    size = float(np.linalg.norm(r0) + np.linalg.norm(r1))
    tol = max(10.0, 2e-9 * size)
    tag = f"{center}-{'other-frame' if other else 'same-frame'}"
    if str(s1.frame) != str(s0.frame) or not float(np.linalg.norm(np.asarray(s1[:3], float) - r1)) < max(1e-3, 1e-12 * size) * (1e3 if other else 1):
        out.fail("lambert-center-target-" + tag, "lambert() does not return the target at its position in the frame of the initial orbit", inp,
                 observed={"frame": str(s1.frame), "pos": [float(x) for x in s1[:3]]}, expected={"frame": str(s0.frame), "pos": inp["r1"]})
        return
    if not (np.all(np.isfinite(v0)) and float(np.abs(v0).max()) < 1e6):
        out.fail("lambert-center-nonfinite-" + tag, "lambert() returns non-finite velocities in a frame centred on " + center, inp, observed=[float(x) for x in v0])
        return
    err = float(np.linalg.norm(kepler_uv(r0, v0, tof, mu) - r1))
    if not err < tol:
        out.fail("lambert-center-arrival-" + tag, "velocity returned by lambert() does not arrive at the target under the gravity of the centre of the frame of the initial orbit", inp,
                 observed={"miss_m": err, "v0": [float(x) for x in v0]}, expected={"miss_m": f"< {tol}"})


def check_lambert_geom(out, g, pro, factor, use_orbit_api):
    """arrival, finiteness and direction of the Lambert velocities for positions given as plain vectors"""
    import numpy as np
    from beyond.dates import Date, timedelta
    from beyond.orbits import Orbit
    from beyond.utils.lambert import lambert, _lambert
    from beyond.frames.frames import get_frame
    mu = get_frame("EME2000").center.body.mu
    r0, r1 = np.array(g["r0"], float), np.array(g["r1"], float)
    zone, zeros = geom_zone(g["r0"], g["r1"])
    tof = geom_tof(g["r0"], g["r1"], pro, factor, mu)
    tag = f"{zone}-{'prograde' if pro else 'retrograde'}"
    inp = {"r0": g["r0"], "r1": g["r1"], "plane": g["plane"], "prograde": pro, "factor": factor, "tof": tof, "mu": mu, "cross_zero_pattern": zeros}
    out.count(key=("lambert-geom", tuple(g["r0"]), tuple(g["r1"]), pro, factor), kind="lambert-geom-" + zone, plane=g["plane"].split("-")[0],
              cross_zeros=zeros, api="orbit" if use_orbit_api else "array")
    if use_orbit_api:
        d0 = Date(2021, 3, 4, 5, 6, 7)
        # the velocities handed in are placeholders (lambert() replaces them)
        o0 = Orbit(list(r0) + [0.0, 0.0, 0.0], d0, "cartesian", "EME2000", None)
        o1 = Orbit(list(r1) + [0.0, 0.0, 0.0], d0 + timedelta(seconds=tof), "cartesian", "EME2000", None)
        s0, s1 = lambert(o0, o1, pro)
        v0, v1 = np.array(s0[3:], float), np.array(s1[3:], float)
        if not (np.all(np.asarray(s0[:3]) == r0) and np.all(np.asarray(s1[:3]) == r1)):
            out.fail("lambert-endpoints-changed", "lambert() altered the end positions", inp)
            return None
    else:
        v0, v1 = _lambert(r0, r1, timedelta(seconds=tof), mu, pro)
        v0, v1 = np.array(v0, float), np.array(v1, float)
    ok = bool(np.all(np.isfinite(v0)) and np.all(np.isfinite(v1))) and max(float(np.abs(v0).max()), float(np.abs(v1).max())) < 1e5
    if not ok:
        out.fail("lambert-geom-nonfinite-" + tag, "Lambert solver returns non-finite or absurd (> 1e5 m/s) velocities for non-collinear positions and a transfer time "
                 "with an elliptic solution of less than one revolution", inp, observed=[float(x) for x in v0], expected="finite velocities arriving at r1")
        return None
    err = float(np.linalg.norm(kepler_uv(r0, v0, tof, mu) - r1))
    if not err < 10.0:
        out.fail("lambert-geom-arrival-" + tag, "velocity returned by the Lambert solver does not arrive at the target position (two-body propagation over the transfer time)",
                 inp, observed={"miss_m": err, "v0": [float(x) for x in v0]}, expected={"miss_m": "< 10"})
        return None
    back = float(np.linalg.norm(kepler_uv(r1, -v1, tof, mu) - r0))
    if not back < 10.0:
        out.fail("lambert-geom-v1-" + tag, "arrival velocity returned by the Lambert solver, reversed and propagated over the transfer time, does not come back to r0",
                 inp, observed={"miss_m": back, "v1": [float(x) for x in v1]}, expected={"miss_m": "< 10"})
        return None
    hz = float(np.cross(r0, v0)[2])
    if zone in ("crz+", "crz-") and not (hz > 0) == pro:
        out.fail("lambert-geom-direction-" + tag, "the returned transfer orbit does not go round the requested way (sign of the z component of r0 x v0)", inp,
                 observed=hz, expected="> 0" if pro else "< 0")
        return None
    return v0


def check_lambert_pair(out, rng, axis, use_orbit_api):
    """both requests on one geometry; they are the two ways round, hence different velocities"""
    import numpy as np
    g = gen_geometry(rng, axis)
    factor = rng.choice([rng.uniform(1.05, 1.5), rng.uniform(1.5, 5.0)])
    va = check_lambert_geom(out, g, True, factor, use_orbit_api)
    vb = check_lambert_geom(out, g, False, factor, use_orbit_api)
    if va is not None and vb is not None and geom_zone(g["r0"], g["r1"])[0] in ("crz0", "crz~0"):
        # same transfer time for both requests here (geom_tof)
        if not float(np.linalg.norm(va - vb)) > 1.0:
            out.fail("lambert-geom-two-ways-crz0", "prograde and retrograde requests return the same transfer", dict(g, factor=factor),
                     observed=[float(x) for x in va], expected="two different ways round")


# ---------------------------------------------------------------- transfer durations from minutes to tens of days

DURATION_KINDS = ["minutes", "hours", "n-days", "days-fraction", "tens-of-days", "just-over-a-day"]


def gen_duration(rng, kind=None):
    """(days, seconds, microseconds) of a normalised timedelta and its kind: minutes with a fractional second, hours, exactly n days,
    days + seconds + microseconds, tens of days, 24 h plus a little"""
    kind = kind or rng.choice(DURATION_KINDS)
    if kind == "minutes":
        d, sec, us = 0, rng.randint(300, 3599), rng.randint(1, 999999)
    elif kind == "hours":
        d, sec, us = 0, rng.randint(3600, 86399), rng.choice([0, rng.randint(1, 999999)])
    elif kind == "n-days":
        d, sec, us = rng.randint(1, 30), 0, 0
    elif kind == "days-fraction":
        d, sec, us = rng.randint(1, 9), rng.randint(0, 86399), rng.randint(0, 999999)
    elif kind == "tens-of-days":
        d, sec, us = rng.randint(10, 60), rng.randint(0, 86399), rng.choice([0, rng.randint(1, 999999)])
    else:
        d, sec, us = 1, rng.randint(0, 7200), rng.choice([0, rng.randint(1, 999999)])
    return d, sec, us, kind


def td_total(d, sec, us):
    """seconds of timedelta(days=d, seconds=sec, microseconds=us), computed here (not with timedelta.total_seconds)"""
    return ((d * 86400 + sec) * 10 ** 6 + us) / 10 ** 6


def scaled_geometry(rng, pro, total, mu, axis):
    """a geometry (gen_geometry) scaled so that `total` seconds is `factor` (1.05 .. 5) times the parabolic time of the way round
    designated by the request: an elliptic transfer of less than one revolution lasting exactly the requested duration"""
    g = gen_geometry(rng, axis)
    factor = rng.choice([rng.uniform(1.05, 1.5), rng.uniform(1.5, 5.0)])
    zone = geom_zone(g["r0"], g["r1"])[0]
    crz = cross3(g["r0"], g["r1"])[2]
    long_way = True if zone in ("crz0", "crz~0") else not ((crz > 0) == pro)
    tp0 = t_parab(g["r0"], g["r1"], long_way, mu)
    k = (total / (factor * tp0)) ** (2 / 3)           # the parabolic time grows as length^1.5
    return {"r0": [x * k for x in g["r0"]], "r1": [x * k for x in g["r1"]], "plane": g["plane"]}, factor


def check_lambert_duration(out, rng, kind=None, preset=None):
    """Lambert velocities for a requested duration given as timedelta(days, seconds, microseconds), propagated (independent
    universal-variable two-body propagation) for the REQUESTED duration: arrival at the target, both ends, every request"""
    import numpy as np
    from beyond.dates import Date, timedelta
    from beyond.orbits import Orbit
    from beyond.utils.lambert import lambert, _lambert
    from beyond import constants
    mu = constants.Earth.mu
    if preset:
        d, sec, us, kind, pro, api, g = (preset[k] for k in ("days", "seconds", "microseconds", "kind", "prograde", "api", "geometry"))
        total = td_total(d, sec, us)
    else:
        d, sec, us, kind = gen_duration(rng, kind)
        total = td_total(d, sec, us)
        pro = rng.random() < 0.5
        api = rng.choice(["array", "orbit"])
        g, _ = scaled_geometry(rng, pro, total, mu, axis=rng.random() < 0.3)
    r0, r1 = np.array(g["r0"], float), np.array(g["r1"], float)
    zone, _ = geom_zone(g["r0"], g["r1"])
    short = None if zone in ("crz0", "crz~0") else ((cross3(g["r0"], g["r1"])[2] > 0) == pro)
    way = "either" if short is None else "short" if short else "long"
    inp = {"days": d, "seconds": sec, "microseconds": us, "total_seconds": total, "kind": kind, "prograde": pro, "api": api, "geometry": g, "mu": mu}
    out.count(key=("lambert-duration", d, sec, us, tuple(g["r0"]), pro), kind="lambert-duration-" + kind, prograde=pro, way=way, api=api)
    dur = timedelta(days=d, seconds=sec, microseconds=us)
    if api == "orbit":
        d0 = Date(2021, 3, 4, 5, 6, 7)
        o0 = Orbit(list(r0) + [0.0, 0.0, 0.0], d0, "cartesian", "EME2000", None)
        o1 = Orbit(list(r1) + [0.0, 0.0, 0.0], d0 + dur, "cartesian", "EME2000", None)
        s0, s1 = lambert(o0, o1, pro)
        v0, v1 = np.array(s0[3:], float), np.array(s1[3:], float)
    else:
        v0, v1 = (np.array(x, float) for x in _lambert(r0, r1, dur, mu, pro))
    tag = f"{kind}-{'prograde' if pro else 'retrograde'}"
    if not (np.all(np.isfinite(v0)) and np.all(np.isfinite(v1)) and float(max(np.abs(v0).max(), np.abs(v1).max())) < 1e5):
        out.fail("lambert-duration-nonfinite-" + tag, "Lambert solver returns non-finite or absurd velocities for a transfer time with an elliptic solution of less than one revolution", inp,
                 observed=[float(x) for x in v0])
        return
    size = float(np.linalg.norm(r0) + np.linalg.norm(r1))
    tol = max(10.0, 2e-9 * size)
    err = float(np.linalg.norm(kepler_uv(r0, v0, total, mu) - r1))
    back = float(np.linalg.norm(kepler_uv(r1, -v1, total, mu) - r0))
    if not (err < tol and back < tol):
        out.fail("lambert-duration-arrival-" + tag, "velocities returned by the Lambert solver, propagated with two-body dynamics for the REQUESTED duration "
                 f"({d} d {sec} s {us} us), do not arrive at the target (resp. come back to the start)", inp,
                 observed={"miss_m": err, "miss_back_m": back, "v0": [float(x) for x in v0]}, expected={"miss_m": f"< {tol}"})


# ---------------------------------------------------------------- SSO

OMEGA_SUN = TWO_PI / 365.256363004 / 86400     # mean motion of the Sun the code uses (sidereal year)


def gen_sso(rng):
    while True:
        a = rng.uniform(6.5e6, 1.25e7)
        e = rng.uniform(0.0005, 0.4)
        # domain where a solution exists: |cos i| <= 1
        if 2 / 3 * OMEGA_SUN * a ** 3.5 * (1 - e * e) ** 2 / (math.sqrt(MU_E) * 6378136.3 ** 2 * 1.08263e-3) < 0.98:
            return a, e


def check_sso(out, rng, preset=None):
    import numpy as np
    from beyond.utils.leo import sso
    from beyond.orbits import Orbit
    from beyond.dates import Date, timedelta
    from beyond.propagators.j2 import J2
    a, e = preset or gen_sso(rng)
    inp = {"a": a, "e": e}
    i = float(sso(a=a, e=e))
    out.count(key=("sso", a, e), kind="sso")
    if not (math.isfinite(i) and 0 <= i <= math.pi):
        out.fail("sso-inclination", "sso(a, e) is not an inclination although a solution exists", inp, observed=i)
        return
    a2 = float(sso(e=e, i=i))
    e2 = float(sso(a=a, i=i))
    if not (abs(a2 - a) <= 1e-9 * a):
        out.fail("sso-self-inverse-a", "sso(e, i=sso(a, e)) does not give back a", inp, observed=a2, expected=a)
    if not (abs(e2 * e2 - e * e) <= 1e-11):
        out.fail("sso-self-inverse-e", "sso(a, i=sso(a, e)) does not give back e", inp, observed=e2, expected=e)
    # modes starting from an inclination (theorems sso_self_inverse_i_via_a / _via_e): a perturbed retrograde inclination
    i0 = min(math.pi, i + rng.uniform(0.0, 0.05))
    a3 = float(sso(e=e, i=i0))
    if math.isfinite(a3) and a3 > 0 and sso_in_domain(a3, e):
        i3 = float(sso(a=a3, e=e))
        if not abs(i3 - i0) <= 1e-8:
            out.fail("sso-self-inverse-i-via-a", "sso(a=sso(e, i), e) does not give back i", dict(inp, i=i0), observed=i3, expected=i0)
    i1 = max(math.pi / 2, i - rng.uniform(0.0, 0.02))
    e3 = float(sso(a=a, i=i1))
    if math.isfinite(e3) and 0 <= e3 < 1:
        i4 = float(sso(a=a, e=e3))
        if not abs(i4 - i1) <= 1e-8:
            out.fail("sso-self-inverse-i-via-e", "sso(a, e=sso(a, i)) does not give back i", dict(inp, i=i1), observed=i4, expected=i1)
    # node drift of the J2 propagator
    O0 = rng.uniform(0.5, 5.5)
    T = rng.choice([3600.0, 86400.0, 10 * 86400.0])
    orb = Orbit([a, e, i, O0, rng.uniform(0, 6), rng.uniform(0, 6)], Date(2022, 1, 1), "keplerian_mean", "EME2000", J2())
    new = orb.propagate(timedelta(seconds=T)).copy(form="keplerian")
    rate = ((float(new.raan) - O0 + math.pi) % TWO_PI - math.pi) / T
    if not abs(rate - OMEGA_SUN) <= 1e-7 * OMEGA_SUN + 1e-13 / T:
        out.fail("sso-node-rate", "J2 node drift of the sun-synchronous orbit differs from the mean solar rate", dict(inp, i=i, T=T), observed=rate, expected=OMEGA_SUN)


# ---------------------------------------------------------------- histories on ONE orbit object carrying a J2 propagator

def sso_in_domain(a, e):
    return 2 / 3 * OMEGA_SUN * a ** 3.5 * (1 - e * e) ** 2 / (math.sqrt(MU_E) * 6378136.3 ** 2 * 1.08263e-3) < 0.98


def node_rate_of(orb, T, how):
    """node drift rate of `orb` over T seconds through the public API: propagate(timedelta) or the last point of iter()"""
    from beyond.dates import timedelta
    O0 = float(orb.copy(form="keplerian_mean").raan)
    if how == "iter":
        pts = list(orb.iter(stop=timedelta(seconds=T), step=timedelta(seconds=T / 2)))
        new = pts[-1]
    else:
        new = orb.propagate(timedelta(seconds=T))
    return ((float(new.copy(form="keplerian_mean").raan) - O0 + math.pi) % TWO_PI - math.pi) / T


def check_sso_sequence(out, rng, preset=None):
    """sso -> Orbit -> J2 propagate -> tune in place -> propagate: the node of the tuned orbit follows the Sun, and the result is
    the one of a fresh object built from the current values"""
    from beyond.utils.leo import sso
    from beyond.orbits import Orbit
    from beyond.dates import Date
    from beyond.propagators.j2 import J2
    if preset:
        a, e, variant, first, second, T, wrong = (preset[k] for k in ("a", "e", "variant", "first", "second", "T", "wrong"))
    else:
        a, e = gen_sso(rng)
        variant = rng.choice(["i", "i", "a", "e"])
        first, second = rng.choice(["propagate", "iter"]), rng.choice(["propagate", "propagate", "iter"])
        T = rng.choice([3600.0, 86400.0, 5 * 86400.0])
        wrong = rng.uniform(0.05, 0.95)
    i_sso = float(sso(a=a, e=e))
    inp = {"a": a, "e": e, "variant": variant, "first": first, "second": second, "T": T, "wrong": wrong}
    # the orbit as first built: one element is not yet the sun-synchronous one
    el = [a, e, i_sso, rng.uniform(0.5, 5.5), rng.uniform(0, 6), rng.uniform(0, 6)]
    if variant == "i":
        el[2] = wrong * math.pi
        k, val = 2, i_sso
    elif variant == "a":
        el[0] = a * (0.8 + 0.5 * wrong)
        k, val = 0, float(sso(e=e, i=i_sso))
    else:
        el[1] = min(0.6, e + 0.02 + 0.3 * wrong)
        k, val = 1, float(sso(a=a, i=i_sso))
    date = Date(2022, 1, 1)
    orb = Orbit(list(el), date, "keplerian_mean", "EME2000", J2() if rng.random() < 0.5 else "J2")
    before = node_rate_of(orb, T, first)
    orb[k] = val                              # tune in place
    after = node_rate_of(orb, T, second)
    cur = [float(x) for x in orb]
    fresh = node_rate_of(Orbit(cur, date, "keplerian_mean", "EME2000", J2()), T, "propagate")
    out.count(key=("sso-seq", a, e, variant, first, second, T), kind="sso-sequence-" + variant, first=first, second=second)
    tol = 1e-7 * OMEGA_SUN + 1e-13 / T
    if not abs(after - OMEGA_SUN) <= tol:
        out.fail(f"sso-sequence-node-rate-tuned-{variant}-{second}", "J2 node drift of an orbit tuned in place to the sun-synchronous value (after an earlier propagation "
                 "of the same object) differs from the mean solar rate", inp, observed={"rate_before": before, "rate_after": after, "fresh_object": fresh}, expected=OMEGA_SUN)
    elif not abs(after - fresh) <= tol:
        out.fail(f"sso-sequence-vs-fresh-{variant}-{second}", "propagation after an in-place change differs from the propagation of a fresh object with the same values", inp,
                 observed=after, expected=fresh)


def gen_j2_history(rng):
    """a history of operations on one J2 orbit object: propagate / write an element in place / write the date; it contains
    at least one propagate -> write -> propagate"""
    while True:
        a, e = gen_sso(rng)
        if e >= 0.002:
            break
    cur = [a, e, rng.uniform(0.1, 3.0), rng.uniform(0.5, 5.5), rng.uniform(0.2, 6), rng.uniform(0.2, 6)]
    el0 = list(cur)
    ops = []

    def dt():
        return round(rng.choice([60.0, 3600.0, 86400.0, rng.uniform(-1e5, 1e6)]), 3)

    def write():
        k = rng.choice([0, 1, 2, 2, 2, 3, 4, 5])
        if k == 0:
            v = cur[0] * rng.uniform(0.97, 1.05)
        elif k == 1:
            v = rng.uniform(0.002, 0.3)
        elif k == 2:
            v = rng.uniform(0.1, 3.0)
            if rng.random() < 0.5 and sso_in_domain(cur[0], cur[1]):
                v = "sso"
        else:
            v = rng.uniform(0.2, 6)
        if v != "sso":
            cur[k] = v
        return ("S", k, v)
    def anyop(kinds):
        k = rng.choice(kinds)
        return ("P", dt()) if k == "P" else write() if k == "S" else ("D", round(rng.uniform(-1e5, 1e5), 3))
    for _ in range(rng.randint(0, 3)):
        ops.append(anyop("PSD"))
    ops += [("P", dt()), write()]
    for _ in range(rng.randint(0, 2)):
        ops.append(anyop("SD"))
    ops.append(("P", dt()))
    for _ in range(rng.randint(0, 3)):
        ops.append(anyop("PPSD"))
    ops.append(("P", dt()))
    return el0, ops


def run_j2_history(el0, ops):
    """the history on the real objects; returns (token list for the model, [a e i raan argp M t] of every propagation).
    'sso' writes are resolved here with the real sso() on the CURRENT a, e of the object"""
    from beyond.utils.leo import sso
    from beyond.orbits import Orbit
    from beyond.dates import Date, timedelta
    from beyond.propagators.j2 import J2
    d0 = Date(2022, 1, 1)
    orb = Orbit(list(el0), d0, "keplerian_mean", "EME2000", J2())
    toks, outs = [], []
    for op in ops:
        if op[0] == "P":
            # both branches of `if type(date) is timedelta` in J2.propagate: a span, or the absolute date that span leads to
            arg = timedelta(seconds=op[1]) if (len(toks) + len(outs)) % 3 else orb.date + timedelta(seconds=op[1])
            res = orb.propagate(arg).copy(form="keplerian_mean")
            outs.append([float(x) for x in res] + [(res.date - d0).total_seconds()])
            toks += ["P", f2b(op[1])]
        elif op[0] == "S":
            v = float(sso(a=float(orb[0]), e=float(orb[1]))) if op[2] == "sso" else op[2]
            orb[op[1]] = v
            toks += ["S", str(op[1]), f2b(v)]
        else:
            orb.date = d0 + timedelta(seconds=op[1])
            toks += ["D", f2b(op[1])]
    return toks, outs


def check_helper_histories(out, rng):
    """read - modify in place - read again on the objects the helpers take: the second read is the one of a fresh object"""
    import numpy as np
    from beyond.orbits import Orbit
    from beyond.dates import Date
    from beyond.utils.beta import beta
    from beyond.utils.interplanetary import bplane
    from beyond.utils.constellation import WalkerStar, WalkerDelta
    from beyond.frames.frames import get_frame
    mu = get_frame("EME2000").center.body.mu
    date = Date(2023, 5, 6)
    which = rng.choice(["beta", "bplane", "walker"])
    out.count(key=("history", which, rng.random()), kind="history-" + which)
    if which == "beta":
        el = [rng.uniform(7e6, 4e7), rng.uniform(0, 0.5), rng.uniform(0.1, 3.0), rng.uniform(0, 6), rng.uniform(0, 6), rng.uniform(0, 6)]
        ref = Orbit([rng.uniform(7e6, 4e7), 0.1, rng.uniform(0.1, 3.0), 1.0, 2.0, rng.uniform(0, 6)], date, "keplerian", "EME2000", "Kepler")
        orb = Orbit(el, date, "keplerian", "EME2000", "Kepler")
        b1 = float(beta(orb, ref))
        k = rng.choice([2, 3])
        orb[k] = rng.uniform(0.1, 3.0)
        b2 = float(beta(orb, ref))
        fresh = float(beta(Orbit([float(x) for x in orb], date, "keplerian", "EME2000", "Kepler"), ref))
        if not abs(b2 - fresh) < 1e-12:
            out.fail("history-beta-stale", "beta() of an orbit modified in place differs from beta() of a fresh orbit with the same elements", {"elements": el, "k": k, "first": b1},
                     observed=b2, expected=fresh)
    elif which == "bplane":
        e = rng.uniform(1.1, 5.0)
        r, v = kep2cart(-rng.uniform(5e6, 5e8), e, rng.uniform(0.1, 3.0), rng.uniform(0, 6), rng.uniform(0, 6), rng.uniform(-0.9, 0.9) * math.acos(-1 / e), mu)
        orb = Orbit(list(r) + list(v), date, "cartesian", "EME2000", None)
        B1 = np.asarray(bplane(orb).B, float)
        orb[3:] = np.asarray(orb[3:]) * rng.uniform(1.05, 1.5)
        B2 = np.asarray(bplane(orb).B, float)
        Bf = np.asarray(bplane(Orbit([float(x) for x in orb], date, "cartesian", "EME2000", None)).B, float)
        if not np.allclose(B2, Bf, rtol=1e-12, atol=0):
            out.fail("history-bplane-stale", "bplane() of an orbit modified in place differs from bplane() of a fresh orbit with the same state", {"state": [float(x) for x in orb], "first": B1.tolist()},
                     observed=B2.tolist(), expected=Bf.tolist())
    else:
        cls = rng.choice([WalkerStar, WalkerDelta])
        t, p, f = gen_walker(rng)
        w = cls(t, p, f, rng.uniform(0, TWO_PI))
        first = list(w.iter_fleet())
        t2, p2, f2 = gen_walker(rng)
        raan2 = rng.uniform(0, TWO_PI)
        w.total, w.planes, w.spacing, w.raan0 = t2, p2, f2, raan2
        second = [(float(a), float(b)) for a, b in w.iter_fleet()]
        fresh = [(float(a), float(b)) for a, b in cls(t2, p2, f2, raan2).iter_fleet()]
        if second != fresh:
            out.fail("history-walker-stale-" + cls.__name__, "a Walker object whose attributes were changed after a first iteration does not generate the fleet of a fresh object",
                     {"first": [t, p, f], "then": [t2, p2, f2, raan2]}, observed=second[:6], expected=fresh[:6])


# ---------------------------------------------------------------- LTAN

def gen_date(rng):
    from beyond.dates import Date
    return Date(rng.randint(1995, 2035), rng.randint(1, 12), rng.randint(1, 28), rng.randint(0, 23), rng.randint(0, 59), rng.randint(0, 59), rng.randint(0, 999999),
                scale=rng.choice(["UTC", "UTC", "TAI", "TT"]))


def circ(a, b, m):
    d = (a - b) % m
    return min(d, m - d)


def check_ltan(out, rng):
    from beyond.utils.ltan import raan2ltan, ltan2raan
    date = gen_date(rng)
    ty = rng.choice(["mean", "true"])
    ltan = rng.choice([rng.uniform(0, 86400), 0.0, 43200.0, 86399.999, rng.uniform(-86400, 2 * 86400)])
    raan = rng.choice([rng.uniform(0, TWO_PI), 0.0, math.pi, rng.uniform(-TWO_PI, 2 * TWO_PI)])
    out.count(key=("ltan", str(date), ty, ltan, raan), kind="ltan-" + ty)
    r = float(ltan2raan(date, ltan, ty))
    back = float(raan2ltan(date, r, ty))
    inp = {"date": str(date), "type": ty, "ltan": ltan, "raan": raan}
    if not (0 <= r < TWO_PI + 1e-12 and circ(back, ltan, 86400) < 1e-6):
        out.fail("ltan-roundtrip-" + ty, "raan2ltan(ltan2raan(ltan)) differs from ltan modulo one day", inp, observed=back, expected=ltan % 86400)
    l = float(raan2ltan(date, raan, ty))
    back = float(ltan2raan(date, l, ty))
    if not (0 <= l < 86400 + 1e-9 and circ(back, raan, TWO_PI) < 1e-10):
        out.fail("raan-roundtrip-" + ty, "ltan2raan(raan2ltan(raan)) differs from raan modulo 2 pi", inp, observed=back, expected=raan % TWO_PI)
    # orbit-level entry point: orb2ltan(orb, type) must be raan2ltan of the orbit's own date and EME2000 node with the SAME type
    from beyond.utils.ltan import orb2ltan
    from beyond.orbits import Orbit
    fr = rng.choice(["EME2000", "TEME", "MOD", "EME2000"])
    kep = [rng.uniform(6.8e6, 9e6), rng.uniform(0.001, 0.1), rng.uniform(0.3, 2.8), rng.uniform(0.05, 6.2), rng.uniform(0, 6.2), rng.uniform(0, 6.2)]
    orb = Orbit(kep, date, "keplerian", fr, None)
    if rng.random() < 0.5:
        orb = orb.copy(form="cartesian")
    node = float(orb.copy(frame="EME2000", form="keplerian").raan)
    inp2 = {"date": str(date), "type": ty, "frame": fr, "form": orb.form.name, "kep": kep}
    for how, got in (("explicit", float(orb2ltan(orb, ty))),) + ((("default", float(orb2ltan(orb))),) if ty == "mean" else ()):
        out.count(key=("orb2ltan", str(date), ty, fr, how, kep[3]), kind="orb2ltan-" + ty)
        want = float(raan2ltan(date, node, ty))
        if not circ(got, want, 86400) < 1e-6:
            out.fail("orb2ltan-" + ty + "-" + how, "orb2ltan(orb, type) is not raan2ltan(orb.date, node in EME2000, type)", inp2, observed=got, expected=want)
        back = float(ltan2raan(date, got, ty))
        if not circ(back, node, TWO_PI) < 1e-9:
            out.fail("orb2ltan-roundtrip-" + ty + "-" + how, "ltan2raan(date, orb2ltan(orb, type), type) differs from the orbit's node modulo 2 pi", inp2, observed=back, expected=node)


# ---------------------------------------------------------------- Walker

def gen_walker(rng):
    p = rng.randint(1, 12)
    s = rng.randint(1, 12)
    f = rng.randint(0, p - 1) if rng.random() < 0.8 else rng.randint(0, 3 * p)
    return p * s, p, f


def gen_raan0(rng):
    """0 (the default), a random angle, a whole number of degrees, tenths of a degree, close to a full turn"""
    return rng.choice([0.0, rng.uniform(0, TWO_PI), rng.uniform(0, TWO_PI), math.radians(rng.randint(1, 359)), math.radians(rng.randint(1, 3599) / 10), TWO_PI - rng.uniform(0, 1e-3)])


def check_walker(out, rng, preset=None):
    from beyond.utils.constellation import WalkerStar, WalkerDelta
    if preset:
        t, p, f, raan0 = preset
    else:
        t, p, f = gen_walker(rng)
        raan0 = gen_raan0(rng)
    for cls, span in ((WalkerDelta, TWO_PI), (WalkerStar, math.pi)):
        w = cls(t, p, f, raan0)
        fleet = [(float(r), float(n)) for r, n in w.iter_fleet()]
        inp = {"pattern": cls.__name__, "t": t, "p": p, "f": f, "raan0": raan0}
        out.count(key=(cls.__name__, t, p, f, raan0), kind="walker-" + cls.__name__)
        if len(fleet) != t:
            out.fail("walker-count-" + cls.__name__, "number of satellites differs from the stated total", inp, observed=len(fleet), expected=t)
            continue
        s = t // p
        ok_planes = all(abs(fleet[k * s + j][0] - (raan0 + span * k / p)) < 1e-12 * (1 + raan0 + span) for k in range(p) for j in range(s))
        if not ok_planes:
            out.fail("walker-planes-" + cls.__name__, "planes are not evenly spaced", inp, observed=[fleet[k * s][0] for k in range(p)], expected=[raan0 + span * k / p for k in range(p)])
        ok_in = all(abs(fleet[k * s + j][1] - fleet[k * s][1] - TWO_PI * j / s) < 1e-11 for k in range(p) for j in range(s))
        if not ok_in:
            out.fail("walker-inplane-" + cls.__name__, "satellites are not evenly spaced within a plane", inp, observed=[x[1] for x in fleet[:s]])
        ok_ph = all(abs(fleet[(k + 1) * s + j][1] - fleet[k * s + j][1] - TWO_PI * f / t) < 1e-11 * (1 + f) for k in range(p - 1) for j in range(s))
        if not ok_ph:
            out.fail("walker-phasing-" + cls.__name__, "phase offset between adjacent planes is not 2 pi f / t", inp,
                     observed=[fleet[k * s][1] for k in range(p)], expected=[TWO_PI * f / t * k for k in range(p)])


# ---------------------------------------------------------------- beta

def axis_state(rng):
    """a bound orbit state whose plane is spanned by exact unit vectors (equatorial, polar through an axis, plane through one
    axis): position and velocity have exact-zero components, r x v has exact-zero components"""
    P, Q, kind = gen_plane(rng, True)
    c, s_ = rng.choice(EXACT_CS) if rng.random() < 0.5 else (lambda t: (math.cos(t), math.sin(t)))(rng.uniform(0, TWO_PI))
    n0 = rng.uniform(6.7e6, 4.3e7)
    vc = math.sqrt(MU_E / n0) * rng.uniform(0.8, 1.2)
    fpa = rng.uniform(-0.3, 0.3) if rng.random() < 0.5 else 0.0
    r = [n0 * (c * P[k] + s_ * Q[k]) + 0.0 for k in range(3)]
    # velocity: in-plane, perpendicular to r turned by the flight-path angle
    tc, ts = -s_ * math.cos(fpa) + c * math.sin(fpa), c * math.cos(fpa) + s_ * math.sin(fpa)
    v = [vc * (tc * P[k] + ts * Q[k]) + 0.0 for k in range(3)]
    return r, v, cross3(P, Q), kind


def check_beta(out, rng, mode=None):
    import numpy as np
    from beyond.orbits import Orbit
    from beyond.utils.beta import beta
    from beyond.env.solarsystem import get_body
    date = gen_date(rng)
    mode = mode or rng.choice(["Sun", "Moon", "orbit", "normal", "axis-body", "axis-orbit"])
    if mode == "axis-orbit":
        r, v, _, _ = axis_state(rng)
        orb = Orbit(r + v, date, "cartesian", "EME2000", "Kepler")
        a = float(np.linalg.norm(r))
    else:
        a = rng.uniform(6.7e6, 4.3e7)
        orb = Orbit([a, rng.uniform(0, 0.6), rng.uniform(0, math.pi), rng.uniform(0, TWO_PI), rng.uniform(0, TWO_PI), rng.uniform(0, TWO_PI)],
                    date, "keplerian", "EME2000", "Kepler")
    cart = np.asarray(orb.copy(form="cartesian"), float)
    w = np.cross(cart[:3], cart[3:])
    wh = w / np.linalg.norm(w)
    if mode in ("Sun", "Moon"):
        ref = mode
        pos = np.asarray(get_body(mode).propagate(date).copy(frame="EME2000", form="cartesian")[:3], float)
    else:
        if mode == "orbit":
            el = [rng.uniform(7e6, 4.3e7), rng.uniform(0, 0.5), rng.uniform(0, math.pi), rng.uniform(0, TWO_PI), rng.uniform(0, TWO_PI), rng.uniform(0, TWO_PI)]
            ref = Orbit(el, date, "keplerian", "EME2000", "Kepler")
        else:
            if mode == "normal" or (mode == "axis-orbit" and rng.random() < 0.4):
                # a body (almost, or - for an axis-aligned orbit - exactly) on the orbit normal: beta = +-90 deg
                p = rng.choice([1.0, -1.0]) * wh * rng.uniform(7e6, 1e9)
            else:
                # a body exactly on a coordinate axis
                p = np.array(rng.choice(AXES)) * rng.choice([1.0, -1.0]) * rng.uniform(7e6, 1e9) + 0.0
            t = np.cross(p / np.linalg.norm(p), [0.3, -0.5, 0.8])
            t /= np.linalg.norm(t)
            ref = Orbit(list(p) + list(t * math.sqrt(MU_E / np.linalg.norm(p))), date, "cartesian", "EME2000", "Kepler")
        pos = np.asarray(ref.copy(form="cartesian"), float)[:3]
    b = float(beta(orb, ref))
    s = pos / np.linalg.norm(pos)
    up = float(wh @ s)
    elev = math.atan2(up, float(np.linalg.norm(s - up * wh)))
    inp = {"date": str(date), "orbit": [float(x) for x in cart], "ref": mode, "ref_pos": [float(x) for x in pos]}
    out.count(key=("beta", str(date), a, mode), kind="beta-" + mode)
    on_normal = abs(abs(up) - 1) < 1e-12
    if not (math.isfinite(b) and -math.pi / 2 <= b <= math.pi / 2):
        out.fail("beta-range-" + ("normal" if on_normal else "generic"), "beta angle outside [-90 deg, 90 deg] (or not a number)", inp, observed=b, expected=elev)
    elif not abs(b - elev) < 1e-7:     # arcsin loses half the digits next to +-90 deg
        out.fail("beta-elevation" + ("-axis" if mode.startswith("axis") else ""), "beta differs from the elevation of the body above the orbit plane", inp, observed=b, expected=elev)


# ---------------------------------------------------------------- B-plane

def hyper_state(rng, axis, mu, scale=1.0, polar=False):
    """a hyperbolic state (e in [1.05, 10], any anomaly short of the asymptotes); axis=True: the hyperbola lies in a plane
    spanned by exact unit vectors, with the periapsis direction P along one of them (exact-zero components throughout);
    polar=True: the incoming asymptote is close to (never on) the pole +-z of the frame, the orbit plane is any plane containing it"""
    import numpy as np
    e = rng.choice([rng.uniform(1.05, 2.0), rng.uniform(2.0, 10.0)])
    a = -rng.uniform(5e6, 5e8) * scale
    nu = rng.uniform(-0.97, 0.97) * math.acos(-1 / e)
    if polar:
        # polar approach: the incoming asymptote S makes an angle delta with the pole +z or -z of the frame, delta log-uniform from
        # 1e-5 rad to 0.3 rad (T = S x N / |S x N| is regular for every delta > 0: |S x N| = sin(delta)); the orbit plane contains S,
        # its normal W is any unit vector perpendicular to S
        delta = math.exp(rng.uniform(math.log(1e-5), math.log(0.3)))
        az = rng.choice([0.0, math.pi / 2, rng.uniform(0, TWO_PI), rng.uniform(0, TWO_PI)])
        sgn = rng.choice([1.0, -1.0])
        S = np.array([math.sin(delta) * math.cos(az), math.sin(delta) * math.sin(az), sgn * math.cos(delta)])
        u = np.cross(S, [1.0, 0.0, 0.0] if abs(S[0]) < 0.9 else [0.0, 1.0, 0.0])
        u /= np.linalg.norm(u)
        psi = rng.uniform(0, TWO_PI)
        W = math.cos(psi) * u + math.sin(psi) * np.cross(S, u)
        cb, sb = 1 / e, math.sqrt(e * e - 1) / e
        P = cb * S - sb * np.cross(W, S)
        Q = np.cross(W, P)
        kind = "polar-" + ("north" if sgn > 0 else "south") + ("-in-cone" if math.sin(delta) < 0.05 else "")
    elif axis:
        while True:
            P, Q, kind = gen_plane(rng, True)
            # S must not be along the pole (0, 0, 1) (T undefined there): true for every e when the plane is not spanned by z and S
            Sx = [P[k] / e + Q[k] * math.sqrt(e * e - 1) / e for k in range(3)]
            if math.hypot(Sx[0], Sx[1]) > 0.05:
                break
        P, Q = np.array(P), np.array(Q)
    else:
        P, Q = pq(rng.uniform(0.05, math.pi - 0.05), rng.uniform(0, TWO_PI), rng.uniform(0, TWO_PI))
        kind = "generic"
    p = a * (1 - e * e)
    rr = p / (1 + e * math.cos(nu))
    r = rr * (math.cos(nu) * P + math.sin(nu) * Q) + 0.0
    v = math.sqrt(mu / p) * (-math.sin(nu) * P + (e + math.cos(nu)) * Q) + 0.0
    return a, e, nu, P, Q, r, v, kind


def check_bplane(out, rng, axis=False, center="Earth", polar=False, preset=None):
    import numpy as np
    from beyond.orbits import Orbit
    from beyond.dates import Date
    from beyond.utils.interplanetary import bplane
    frame, mu = center_frame(center)
    if preset is not None:      # replay of a recorded case
        a, e, nu, kind = preset["a"], preset["e"], preset["nu"], preset["plane"]
        r, v, S_exp = np.array(preset["state"][:3]), np.array(preset["state"][3:]), np.array(preset["S_expected"])
    else:
        a, e, nu, P, Q, r, v, kind = hyper_state(rng, axis, mu, CENTER_SCALE[center], polar=polar)
        S_exp = P / e + Q * math.sqrt(e * e - 1) / e      # direction of the velocity for nu -> -nu_inf
    orb = Orbit(list(r) + list(v), Date(2023, 5, 6), "cartesian", frame, None)
    bp = bplane(orb)
    B, S, T, Rv, h = (np.asarray(x, float) for x in (bp.B, bp.S, bp.T, bp.R, bp.h))
    bn = abs(a) * math.sqrt(e * e - 1)
    inp = {"a": a, "e": e, "plane": kind, "nu": nu, "center": center, "state": [float(x) for x in list(r) + list(v)], "S_expected": [float(x) for x in S_exp],
           "axis": axis, "polar": polar}
    out.count(key=("bplane", a, e, nu), kind="bplane" + ("-polar" if polar else "-axis" if axis else ""), e_range="<2" if e < 2 else ">=2", side="incoming" if nu < 0 else "outgoing", center=center,
              **({"approach": kind} if polar else {}))
    tol = 1e-9 * e * e / (e - 1)
    sfx = ("-polar" if polar else "-axis" if axis else "") + ("" if center == "Earth" else "-" + center)
    if not np.all(np.isfinite(np.concatenate([B, S, T, Rv]))):
        out.fail("bplane-nonfinite" + sfx, "B-plane of a hyperbolic state is not finite", inp, observed=[list(map(float, x)) for x in (B, S, T, Rv)])
        return
    if not np.linalg.norm(S - S_exp) < tol:
        out.fail("bplane-S-asymptote" + sfx, "S is not the direction of the incoming asymptote", inp, observed=list(map(float, S)), expected=list(map(float, S_exp)))
    gram = np.array([[x @ y for y in (S, T, Rv)] for x in (S, T, Rv)])
    if not np.allclose(gram, np.eye(3), atol=tol):
        out.fail("bplane-orthonormal" + sfx, "(S, T, R) is not orthonormal", inp, observed=gram.tolist())
    if not (abs(B @ S) < tol * bn and abs(B @ h) < tol * bn * np.linalg.norm(h)):
        out.fail("bplane-B-perp" + sfx, "B is not perpendicular to S and to the angular momentum", inp, observed=[float(B @ S), float(B @ h)])
    if not abs(np.linalg.norm(B) - bn) < 1e-8 * bn * e / (e - 1):
        out.fail("bplane-B-norm" + sfx, "|B| differs from the impact parameter |a| sqrt(e^2 - 1)", inp, observed=float(np.linalg.norm(B)), expected=bn)
    # B also is the offset of the incoming asymptote from the focus: B = r_inf - (r_inf . S) S for a point far out on the asymptote
    # (checked through h: |h| = |B| v_inf and B x S parallel to h)
    vinf = math.sqrt(mu / abs(a))
    if not np.linalg.norm(np.cross(B, S * vinf) - h) < 1e-8 * np.linalg.norm(h) * e / (e - 1):
        out.fail("bplane-B-moment" + sfx, "B x v_inf differs from the angular momentum", inp, observed=list(map(float, np.cross(B, S * vinf))), expected=list(map(float, h)))


# ---------------------------------------------------------------- correspondence: compiled Lean model vs real code

def _floats(rep):
    return [b2f(t) for t in rep.split()]


def _cmp(out, family, what, inp, real, model, rtol=1e-9, atol=0.0, scales=None, exact=False, skip=()):
    if len(real) != len(model):
        out.fail(family, what + " (length)", inp, observed=list(real), expected=list(model))
        return False
    for k, (a, b) in enumerate(zip(real, model)):
        a = float(a)
        if k in skip:
            continue
        if exact:
            ok = f2b(a) == f2b(b)
        else:
            sc = max(scales[k] if scales and scales[k] else 0.0, abs(a), abs(b)) if math.isfinite(a) and math.isfinite(b) else 1.0
            ok = core.close(a, b, rtol=rtol, atol=atol, scale=sc)
        if not ok:
            out.fail(family, f"{what} (component {k})", inp, observed=[float(x) for x in real], expected=list(model))
            return False
    return True


def correspondence(ctx):
    import numpy as np
    from beyond.utils import lambert as L
    from beyond.utils.leo import sso
    from beyond.utils import ltan as LT
    from beyond.utils.constellation import WalkerStar, WalkerDelta
    from beyond.utils.beta import beta
    from beyond.utils.interplanetary import bplane
    from beyond.constants import Earth
    from beyond.dates import Date, timedelta
    from beyond.orbits import Orbit
    from beyond.propagators.j2 import J2
    from beyond.frames.frames import get_frame
    out = Outcome()
    rng = ctx.rng
    reqs, post = [], []
    mu = get_frame("EME2000").center.body.mu

    def add(req, fn):
        reqs.append(req)
        post.append(fn)

    # 1. scalar Lambert functions
    for _ in range(ctx.n(400, 20000)):
        nr0, nr1 = rng.uniform(6.6e6, 5e7), rng.uniform(6.6e6, 5e7)
        dth = rng.uniform(0.05, TWO_PI - 0.05)
        A = math.sin(dth) * math.sqrt(nr0 * nr1 / (1 - math.cos(dth)))
        z = rng.choice([0.0, rng.uniform(0.01, 39.0), rng.uniform(0.01, 39.0), -rng.uniform(0.01, 30.0), rng.uniform(1e-6, 0.01)])
        if rng.random() < 0.5:
            dur = round(rng.uniform(100, 1e5), 6)
            td, dkind = timedelta(seconds=dur), "seconds"
        else:
            # the duration as days / seconds / microseconds; the model gets the total computed here
            dd, ds, dus, dkind = gen_duration(rng)
            dur = td_total(dd, ds, dus)
            td = timedelta(days=dd, seconds=ds, microseconds=dus)
            add(" ".join(["td", f2b(float(dd)), f2b(float(ds)), f2b(float(dus))]),
                lambda rep, td=td, dur=dur, t3=(dd, ds, dus): (f2b(td.total_seconds()) == rep.strip() == f2b(dur)) or out.fail(
                    "model-timedelta-total", "timedelta.total_seconds() differs from tdTotal of the model (bit-exact comparison)", {"days_seconds_microseconds": t3},
                    observed=td.total_seconds(), expected=_floats(rep)))
        real = [L._C(z), L._S(z), L._y(nr0, nr1, A, z), L._F(nr0, nr1, A, z, td, mu), L._dF(nr0, nr1, A, z)]
        inp = {"nr0": nr0, "nr1": nr1, "A": A, "z": z, "duration": dur, "mu": mu}
        out.count(key=("lamfn", nr0, nr1, dth, z), kind="lambert-functions", zsign="0" if z == 0 else ("+" if z > 0 else "-"),
                  finite=all(math.isfinite(float(x)) for x in real), duration=dkind)
        sc = [None, None, nr0 + nr1, math.sqrt(mu) * dur + (nr0 + nr1) ** 1.5, None]
        add(" ".join(["lamfn"] + [f2b(x) for x in (nr0, nr1, A, z, dur, mu)]),
            lambda rep, real=real, inp=inp, sc=sc: _cmp(out, "model-lambert-functions", "_C/_S/_y/_F/_dF differ from the translated formulas", inp, real, _floats(rep)[:5], rtol=1e-9, scales=sc))
    # 2. full solver
    for k in range(ctx.n(150, 5000)):
        c = gen_lambert(rng, small=(k % 12 == 11))
        r0, _ = kep2cart(c["a"], c["e"], c["i"], c["raan"], c["argp"], c["nu0"], mu)
        r1, _ = kep2cart(c["a"], c["e"], c["i"], c["raan"], c["argp"], c["nu0"] + c["dnu"], mu)
        pro = rng.random() < 0.8
        if rng.random() < 0.5:
            pro = c["i"] < math.pi / 2
        v0, v1 = L._lambert(np.array(r0), np.array(r1), timedelta(seconds=c["tof"]), mu, pro)
        real = [float(x) for x in list(v0) + list(v1)]
        fin = all(math.isfinite(x) for x in real)
        spd = max(abs(x) for x in real) if fin else 1.0
        inp = dict(c, prograde=pro)
        out.count(key=("lambert", c["a"], c["e"], c["nu0"], c["dnu"], pro), kind="lambert-solve", prograde=pro, way="short" if c["dnu"] < math.pi else "long", finite=fin)
        if pro == (c["i"] < math.pi / 2) and not (fin and spd < 1e5):
            # the request matches the orbit the arc was cut from: inside the property's domain, where a non-finite / absurd
            # result is a failure of the code whatever the model says
            out.fail(lambert_family(c, False), "Lambert solver returns non-finite or absurd velocities for an elliptic transfer of less than one revolution", inp,
                     observed=real, expected="finite velocities", violates_property=True)

        def chk(rep, real=real, inp=inp, spd=spd, fin=fin):
            if rep in ("fuel", "bad-op"):
                out.fail("model-lambert-solve", "model rejected the request: " + rep, inp, observed=real, expected=rep)
                return
            m = _floats(rep)
            if fin and m[7] != 1.0:
                out.fail("model-lambert-solve", "model Newton loop did not leave through `break` although the code returned finite velocities", inp, observed=real, expected=m)
                return
            # the loop stops once a step is < 1e-8 in z (a bisection step leaves an error of that order): for tiny arcs
            # (root z = dE^2 << 1) two double-precision runs taking different Newton/bisection paths differ by ~1e-8/z relative
            _cmp(out, "model-lambert-solve", "_lambert velocities differ from the model", inp, real, m[:6], rtol=1e-7 * (1 + 0.01 / inp["dE"] ** 2), scales=[spd] * 6)
            out.sample({"request": "lambert", "input": {k: inp[k] for k in ("a", "e", "dnu", "tof", "prograde")}, "impl": real, "model": m}, limit=2)
        add(" ".join(["lambert", "1" if pro else "0"] + [f2b(x) for x in list(r0) + list(r1) + [c["tof"], mu]]), chk)
    # 2b. full solver on hand-written geometry (exact zeros in the positions and in r0 x r1, axis-aligned positions, transfer
    #     angles of exactly 90 deg), both requests; + the transfer angle / A of the model alone on the same geometry
    for k in range(ctx.n(90, 3000)):
        g = gen_geometry(rng, axis=(k % 4 != 3))
        zone, zeros = geom_zone(g["r0"], g["r1"])
        factor = rng.choice([rng.uniform(1.05, 1.5), rng.uniform(1.5, 5.0)])
        dths = {}
        for pro in (True, False):
            tof = geom_tof(g["r0"], g["r1"], pro, factor, mu)
            v0, v1 = L._lambert(np.array(g["r0"]), np.array(g["r1"]), timedelta(seconds=tof), mu, pro)
            real = [float(x) for x in list(v0) + list(v1)]
            fin = all(math.isfinite(x) for x in real) and max(abs(x) for x in real) < 1e5
            inp = dict(g, prograde=pro, factor=factor, tof=tof, mu=mu, cross_zero_pattern=zeros)
            out.count(key=("lambert-geom", tuple(g["r0"]), tuple(g["r1"]), pro, factor), kind="lambert-solve-geom-" + zone, plane=g["plane"].split("-")[0], cross_zeros=zeros, finite=fin)
            if not fin:
                # inside the property's domain a non-finite / absurd result is a failure of the code, whatever the model says
                out.fail(f"lambert-geom-nonfinite-{zone}-{'prograde' if pro else 'retrograde'}", "Lambert solver returns non-finite or absurd (> 1e5 m/s) velocities for "
                         "non-collinear positions and a transfer time with an elliptic solution of less than one revolution", inp, observed=real,
                         expected="finite velocities arriving at r1", violates_property=True)

            def chk(rep, real=real, inp=inp, fin=fin):
                if rep in ("fuel", "bad-op"):
                    out.fail("model-lambert-solve-geom", "model rejected the request: " + rep, inp, observed=real, expected=rep)
                    return
                m = _floats(rep)
                if not fin:
                    return
                if m[7] != 1.0:
                    out.fail("model-lambert-solve-geom", "model Newton loop did not leave through `break` although the code returned finite velocities", inp, observed=real, expected=m)
                    return
                spd = max(abs(x) for x in real)
                zr = max(abs(m[6]), 1e-4)
                _cmp(out, "model-lambert-solve-geom", "_lambert velocities differ from the model", inp, real, m[:6], rtol=1e-7 * (1 + 0.01 / zr), scales=[spd] * 6)
            add(" ".join(["lambert", "1" if pro else "0"] + [f2b(x) for x in g["r0"] + g["r1"] + [tof, mu]]), chk)

            def chk_d(rep, inp=inp, pro=pro, dths=dths):
                d, A = _floats(rep)
                dths[pro] = d
                # the conclusions of lamDtheta_range / lambert_A_ne_zero / lamDtheta_two_ways on the compiled (double) model
                ok = math.isfinite(d) and 1e-3 < d < TWO_PI - 1e-3 and abs(d - math.pi) > 1e-3 and math.isfinite(A) and abs(A) > 1.0 and (A > 0) == (d < math.pi)
                if ok and len(dths) == 2:
                    ok = abs(dths[True] + dths[False] - TWO_PI) < 1e-9
                if not ok:
                    out.fail("model-lambert-dtheta-" + inp["cross_zero_pattern"], "transfer angle / A of the model (translated from _lambert) is degenerate on a non-collinear geometry", inp,
                             observed={"dtheta": d, "A": A, "other_request": dths.get(not pro)}, expected="0 < dtheta < 2 pi, dtheta != pi, A finite and non-zero, the two requests adding up to 2 pi")
            add(" ".join(["dtheta", "1" if pro else "0"] + [f2b(x) for x in g["r0"] + g["r1"]]), chk_d)
    # 2d. full solver for durations given as timedelta(days, seconds, microseconds): minutes with a fractional second, hours, exactly
    #     n days, days + fraction, tens of days - on geometry scaled so that the duration is elliptic, less than one revolution
    for k in range(ctx.n(48, 1800)):
        dd, ds, dus, dkind = gen_duration(rng, DURATION_KINDS[k % len(DURATION_KINDS)])
        total = td_total(dd, ds, dus)
        pro = rng.random() < 0.5
        g, factor = scaled_geometry(rng, pro, total, mu, axis=(k % 3 == 0))
        v0, v1 = L._lambert(np.array(g["r0"]), np.array(g["r1"]), timedelta(days=dd, seconds=ds, microseconds=dus), mu, pro)
        real = [float(x) for x in list(v0) + list(v1)]
        fin = all(math.isfinite(x) for x in real) and max(abs(x) for x in real) < 1e5
        inp = dict(g, prograde=pro, days=dd, seconds=ds, microseconds=dus, total_seconds=total, kind=dkind, mu=mu)
        out.count(key=("lambert-duration", dd, ds, dus, tuple(g["r0"]), pro), kind="lambert-solve-duration-" + dkind, finite=fin)
        if not fin:
            out.fail(f"lambert-duration-nonfinite-{dkind}-{'prograde' if pro else 'retrograde'}", "Lambert solver returns non-finite or absurd velocities for a transfer time with an elliptic "
                     "solution of less than one revolution", inp, observed=real, expected="finite velocities arriving at r1", violates_property=True)

        def chk(rep, real=real, inp=inp, fin=fin):
            if rep in ("fuel", "bad-op"):
                out.fail("model-lambert-solve-duration", "model rejected the request: " + rep, inp, observed=real, expected=rep)
                return
            m = _floats(rep)
            if not fin:
                return
            spd = max(abs(x) for x in real)
            zr = max(abs(m[6]), 1e-4)
            _cmp(out, "model-lambert-solve-duration-" + inp["kind"], "_lambert velocities for a duration given in days / seconds / microseconds differ from the model run on its total number of seconds",
                 inp, real, m[:6], rtol=1e-7 * (1 + 0.01 / zr), scales=[spd] * 6)
        add(" ".join(["lambert", "1" if pro else "0"] + [f2b(x) for x in g["r0"] + g["r1"] + [total, mu]]), chk)
    # 2c. histories on ONE orbit object with a J2 propagator (propagate / write elements in place / write the date): every
    #     propagation against the state machine of the model (whose propagator keeps nothing between two calls)
    for _ in range(ctx.n(80, 2500)):
        el0, ops = gen_j2_history(rng)
        toks, outs = run_j2_history(el0, ops)
        real = [x for o in outs for x in o]
        e_min = min([el0[1]] + [op[2] for op in ops if op[0] == "S" and op[1] == 1])
        inp = {"elements": el0, "ops": [list(o) for o in ops]}
        shape = "".join(o[0] for o in ops)
        out.count(key=("j2seq", tuple(el0), shape), kind="j2-history", n_ops=min(len(ops), 9), writes_between_propagations="PS" in shape or "PD" in shape)

        def chk(rep, real=real, inp=inp, e_min=e_min):
            m = _floats(rep)
            if len(m) != len(real):
                out.fail("model-j2-history", "number of propagation results differs", inp, observed=len(real) // 7, expected=len(m) // 7)
                return
            for j in range(0, len(m), 7):
                r_, m_ = real[j:j + 7], m[j:j + 7]
                ok = (core.close(r_[0], m_[0], rtol=1e-9) and abs(r_[1] - m_[1]) < 1e-9 and abs(r_[2] - m_[2]) < 1e-9 and circ(r_[3], m_[3], TWO_PI) < 1e-9
                      and circ(r_[4], m_[4], TWO_PI) < 1e-10 / e_min + 1e-9 and circ(r_[5], m_[5], TWO_PI) < 1e-10 / e_min + 1e-8 and abs(r_[6] - m_[6]) < 1e-5)
                if not (ok or (any(not math.isfinite(x) for x in r_) and any(not math.isfinite(x) for x in m_))):
                    out.fail("model-j2-history", f"propagation #{j // 7} of a history on one orbit object differs from the model (a e i raan argp M t)", inp, observed=r_, expected=m_)
                    return
        add(" ".join(["j2seq"] + [f2b(x) for x in [Earth.mu, Earth.r, Earth.J2] + list(el0) + [0.0]] + toks), chk)
    # 3. sun-synchronous solver and J2 node rate
    for _ in range(ctx.n(300, 10000)):
        a, e = gen_sso(rng) if rng.random() < 0.8 else (rng.uniform(6.5e6, 3e7), rng.uniform(0, 0.7))
        i = rng.choice([rng.uniform(math.pi / 2, math.pi), rng.uniform(0, math.pi)])
        O0 = rng.uniform(0.5, 5.5)
        T = 86400.0
        orb = Orbit([a, e, i, O0, 1.0, 2.0], Date(2022, 1, 1), "keplerian_mean", "EME2000", J2())
        new = orb.propagate(timedelta(seconds=T)).copy(form="keplerian")
        rate = ((float(new.raan) - O0 + math.pi) % TWO_PI - math.pi) / T
        real = [sso(a=a, e=e), sso(e=e, i=i), sso(a=a, i=i), rate]
        inp = {"a": a, "e": e, "i": i}
        out.count(key=("sso", a, e, i), kind="sso", finite=sum(1 for x in real if math.isfinite(float(x))))
        add(" ".join(["sso"] + [f2b(x) for x in (a, e, i, Earth.mu, Earth.r, Earth.J2)]),
            lambda rep, real=real, inp=inp: _cmp(out, "model-sso", "sso / J2 node rate differ from the translated formulas", inp, real, _floats(rep), rtol=1e-9,
                                                  scales=[None, None, 1.0, max(abs(real[3]), 1e-7) * 100]))
    # 4. LTAN <-> RAAN
    for _ in range(ctx.n(300, 10000)):
        date = gen_date(rng)
        ty = rng.choice(["mean", "true"])
        sun = float(LT._mean_sun_raan(date) if ty == "mean" else LT._true_sun_raan(date))
        raan = rng.uniform(-TWO_PI, 2 * TWO_PI)
        ltan = rng.uniform(-86400, 2 * 86400)
        real = [LT.raan2ltan(date, raan, ty), LT.ltan2raan(date, ltan, ty)]
        inp = {"date": str(date), "type": ty, "raan": raan, "ltan": ltan, "sun_raan": sun}
        out.count(key=("ltan", str(date), raan, ltan), kind="ltan-" + ty)

        def chk(rep, real=real, inp=inp, sun=sun):
            m = _floats(rep)
            ok = circ(float(real[0]), m[0], 86400) < 1e-9 * 86400 * (1 + abs(sun)) and circ(float(real[1]), m[1], TWO_PI) < 1e-9 * (1 + abs(sun))
            if not ok:
                out.fail("model-ltan", "raan2ltan / ltan2raan differ from the translated formulas", inp, observed=[float(x) for x in real], expected=m)
        add(" ".join(["ltan"] + [f2b(x) for x in (raan, ltan, sun)]), chk)
    # 5. Walker fleets: exact
    for _ in range(ctx.n(150, 4000)):
        t, p, f = gen_walker(rng)
        if rng.random() < 0.2:
            t += rng.randint(1, p)     # planes not dividing the total: per_plane is the floor
        raan0 = gen_raan0(rng)
        for cls in (WalkerStar, WalkerDelta):
            real = [float(x) for pair in cls(t, p, f, raan0).iter_fleet() for x in pair]
            inp = {"pattern": cls.__name__, "t": t, "p": p, "f": f, "raan0": raan0}
            out.count(key=(cls.__name__, t, p, f, raan0), kind="walker-" + cls.__name__, divides=t % p == 0)
            add(" ".join(["walker", "1" if cls is WalkerDelta else "0", str(t), str(p), str(f), f2b(raan0)]),
                lambda rep, real=real, inp=inp: _cmp(out, "model-walker", "iter_fleet differs from the model (bit-exact comparison)", inp, real, _floats(rep), exact=True))
    # 6. beta (incl. bodies on the orbit normal, where the clip acts)
    for k in range(ctx.n(200, 10000)):
        date = gen_date(rng)
        el = lambda: [rng.uniform(6.7e6, 4.3e7), rng.uniform(0, 0.6), rng.uniform(0, math.pi), rng.uniform(0, TWO_PI), rng.uniform(0, TWO_PI), rng.uniform(0, TWO_PI)]
        orb = Orbit(el(), date, "keplerian", "EME2000", "Kepler")
        cart = [float(x) for x in orb.copy(form="cartesian")]
        normal = k % 5 == 4
        if normal:
            w = np.cross(cart[:3], cart[3:])
            wh = w / np.linalg.norm(w)
            pvec = rng.choice([1.0, -1.0]) * wh * rng.uniform(7e6, 1e9)
            t = np.cross(wh, [0.3, -0.5, 0.8])
            t /= np.linalg.norm(t)
            ref = Orbit(list(pvec) + list(t * math.sqrt(MU_E / np.linalg.norm(pvec))), date, "cartesian", "EME2000", "Kepler")
        else:
            ref = Orbit(el(), date, "keplerian", "EME2000", "Kepler")
        pos = [float(x) for x in ref.copy(form="cartesian")[:3]]
        real = [beta(orb, ref)]
        inp = {"orbit": cart, "ref_pos": pos}
        out.count(key=("beta", tuple(cart)), kind="beta-normal" if normal else "beta")
        add(" ".join(["beta"] + [f2b(x) for x in cart + pos]),
            lambda rep, real=real, inp=inp, normal=normal: _cmp(out, "model-beta", "beta differs from the model", inp, real, _floats(rep), rtol=1e-9, atol=1e-7 if normal else 1e-8))
    # 7. B-plane
    for _ in range(ctx.n(200, 10000)):
        e = rng.choice([rng.uniform(1.05, 2.0), rng.uniform(2.0, 10.0)])
        a = -rng.uniform(5e6, 5e8)
        nu = rng.uniform(-0.97, 0.97) * math.acos(-1 / e)
        r, v = kep2cart(a, e, rng.uniform(0.05, math.pi - 0.05), rng.uniform(0, TWO_PI), rng.uniform(0, TWO_PI), nu, mu)
        orb = Orbit(list(r) + list(v), Date(2023, 5, 6), "cartesian", "EME2000", None)
        bp = bplane(orb)
        aabs = abs(float(orb.infos.kep.a))
        real = [float(x) for x in list(np.asarray(bp.B)) + [bp.theta] + list(np.asarray(bp.S)) + list(np.asarray(bp.T)) + list(np.asarray(bp.R)) + list(np.asarray(bp.e)) + list(np.asarray(bp.h))]
        bn = float(np.linalg.norm(np.asarray(bp.B)))
        hn = float(np.linalg.norm(np.asarray(bp.h)))
        amp = e / (e - 1)
        sc = [bn * amp] * 3 + [1e3 * amp] + [amp] * 9 + [e * amp] * 3 + [hn] * 3
        inp = {"a": a, "e": e, "nu": nu, "state": [float(x) for x in list(r) + list(v)], "aAbs": aabs}
        out.count(key=("bplane", a, e, nu), kind="bplane", e_range="<2" if e < 2 else ">=2")
        add(" ".join(["bplane", f2b(mu), f2b(aabs)] + [f2b(x) for x in list(r) + list(v)]),
            lambda rep, real=real, inp=inp, sc=sc: _cmp(out, "model-bplane", "bplane differs from the model", inp, real, _floats(rep), rtol=1e-9, scales=sc))
    # 6b / 7b. axis-aligned states: orbit planes spanned by exact unit vectors, bodies exactly on an axis or on the orbit normal,
    #          hyperbolas in a coordinate plane
    for k in range(ctx.n(80, 3000)):
        date = gen_date(rng)
        r_, v_, nrm, kind = axis_state(rng)
        orb = Orbit(r_ + v_, date, "cartesian", "EME2000", "Kepler")
        m = rng.choice(["axis", "normal", "generic"])
        if m == "axis":
            pvec = np.array(rng.choice(AXES)) * rng.choice([1.0, -1.0]) * rng.uniform(7e6, 1e9) + 0.0
        elif m == "normal":
            pvec = np.array(nrm) / np.linalg.norm(nrm) * rng.choice([1.0, -1.0]) * rng.uniform(7e6, 1e9) + 0.0
        else:
            pvec = np.array([rng.uniform(-1, 1) for _ in range(3)]) * 1e8
        t = np.cross(pvec / np.linalg.norm(pvec), [0.3, -0.5, 0.8])
        t /= np.linalg.norm(t)
        ref = Orbit(list(pvec) + list(t * math.sqrt(MU_E / np.linalg.norm(pvec))), date, "cartesian", "EME2000", "Kepler")
        cart = [float(x) for x in orb]
        pos = [float(x) for x in ref[:3]]
        real = [beta(orb, ref)]
        inp = {"orbit": cart, "ref_pos": pos, "plane": kind, "body": m}
        out.count(key=("beta-axis", tuple(cart), tuple(pos)), kind="beta-axis-" + m, plane=kind.split("-")[0])
        add(" ".join(["beta"] + [f2b(x) for x in cart + pos]),
            lambda rep, real=real, inp=inp: _cmp(out, "model-beta-axis", "beta differs from the model", inp, real, _floats(rep), rtol=1e-9, atol=1e-7))
    for _ in range(ctx.n(80, 3000)):
        a, e, nu, P, Q, r, v, kind = hyper_state(rng, True, mu)
        orb = Orbit(list(r) + list(v), Date(2023, 5, 6), "cartesian", "EME2000", None)
        bp = bplane(orb)
        aabs = abs(float(orb.infos.kep.a))
        real = [float(x) for x in list(np.asarray(bp.B)) + [bp.theta] + list(np.asarray(bp.S)) + list(np.asarray(bp.T)) + list(np.asarray(bp.R)) + list(np.asarray(bp.e)) + list(np.asarray(bp.h))]
        bn = float(np.linalg.norm(np.asarray(bp.B)))
        hn = float(np.linalg.norm(np.asarray(bp.h)))
        amp = e / (e - 1)
        # theta = arccos(B.T / |B||T|) (not in the property, NOT_COVERED): B is parallel to T for an equatorial hyperbola, the argument is
        # +-1 +- 1 ulp and the result 0, pi or NaN according to rounding, in the code as in the model - not compared here
        sc = [bn * amp] * 3 + [1e3 * amp] + [amp] * 9 + [e * amp] * 3 + [hn] * 3
        inp = {"a": a, "e": e, "nu": nu, "plane": kind, "state": [float(x) for x in list(r) + list(v)], "aAbs": aabs}
        out.count(key=("bplane-axis", a, e, nu), kind="bplane-axis", plane=kind.split("-")[0])
        add(" ".join(["bplane", f2b(mu), f2b(aabs)] + [f2b(x) for x in list(r) + list(v)]),
            lambda rep, real=real, inp=inp, sc=sc: _cmp(out, "model-bplane-axis", "bplane differs from the model", inp, real, _floats(rep), rtol=1e-9, scales=sc, skip=(3,)))
    # 7c. polar approaches: the asymptote S close to the pole +-z of the frame, where T = S x N / |S x N| divides by sin(delta);
    #     T, R and theta are conditioned like 1 / sin(delta) there (the rounding of S is amplified), S, B, e, h are not
    for _ in range(ctx.n(80, 3000)):
        a, e, nu, P, Q, r, v, kind = hyper_state(rng, False, mu, polar=True)
        orb = Orbit(list(r) + list(v), Date(2023, 5, 6), "cartesian", "EME2000", None)
        bp = bplane(orb)
        aabs = abs(float(orb.infos.kep.a))
        real = [float(x) for x in list(np.asarray(bp.B)) + [bp.theta] + list(np.asarray(bp.S)) + list(np.asarray(bp.T)) + list(np.asarray(bp.R)) + list(np.asarray(bp.e)) + list(np.asarray(bp.h))]
        bn = float(np.linalg.norm(np.asarray(bp.B)))
        hn = float(np.linalg.norm(np.asarray(bp.h)))
        amp = e / (e - 1)
        cond = 1 + 1e-4 / max(math.hypot(P[0] / e + Q[0] * math.sqrt(e * e - 1) / e, P[1] / e + Q[1] * math.sqrt(e * e - 1) / e), 1e-12)
        sc = [bn * amp] * 3 + [1e3 * amp * cond] + [amp] * 3 + [amp * cond] * 6 + [e * amp] * 3 + [hn] * 3
        inp = {"a": a, "e": e, "nu": nu, "approach": kind, "state": [float(x) for x in list(r) + list(v)], "aAbs": aabs}
        out.count(key=("bplane-polar", a, e, nu), kind="bplane-polar", approach=kind)
        add(" ".join(["bplane", f2b(mu), f2b(aabs)] + [f2b(x) for x in list(r) + list(v)]),
            lambda rep, real=real, inp=inp, sc=sc: _cmp(out, "model-bplane-polar", "bplane differs from the model", inp, real, _floats(rep), rtol=1e-9, scales=sc))
    replies = core.Driver().run(reqs)
    for req, fn, rep in zip(reqs, post, replies):
        if rep == "bad-op":
            out.fail("model-bad-op", "driver rejected a request", req[:100], observed=None, expected=rep)
            continue
        fn(rep)
    return out


def guarded(out, fn, *args, **kw):
    """an exception inside one oracle case (the library under test raising, or returning something the independent machinery
    cannot digest) is a failing input of that case, never a harness error that hides the verdict"""
    import traceback
    try:
        fn(out, *args, **kw)
    except Exception as e:      # noqa: BLE001
        tb = traceback.extract_tb(e.__traceback__)
        where = next((f"{os.path.basename(t.filename)}:{t.name}" for t in reversed(tb) if "/beyond/" in t.filename), f"{os.path.basename(tb[-1].filename)}:{tb[-1].name}")
        out.fail(f"exception-{fn.__name__}-{type(e).__name__}", f"{fn.__name__} raised {type(e).__name__} ({where})", {"check": fn.__name__, "kwargs": {k: str(v)[:80] for k, v in kw.items()}},
                 observed=repr(e)[:300], expected="no exception")


def oracle(ctx, widened):
    out = Outcome()
    rng = ctx.rng
    big = widened or ctx.thorough
    N = 1200 if big else 120
    for k in range(N):
        guarded(out, check_lambert, gen_lambert(rng, small=(k % 10 == 9)), use_orbit_api=(k % 4 == 0))
    for _ in range(N):
        guarded(out, check_sso, rng)
        guarded(out, check_ltan, rng)
        guarded(out, check_walker, rng)
        guarded(out, check_beta, rng)
        guarded(out, check_bplane, rng)
    for k in range(N // 2):
        guarded(out, check_lambert_pair, rng, axis=(k % 5 != 4), use_orbit_api=(k % 3 == 0))
        guarded(out, check_sso_sequence, rng)
        guarded(out, check_bplane, rng, axis=True)
        guarded(out, check_helper_histories, rng)
        guarded(out, check_lambert_center, rng, ("Sun", "Moon", "Earth")[k % 3])
        guarded(out, check_bplane, rng, axis=(k % 2 == 0), center=("Moon", "Sun")[k % 2])
        guarded(out, check_bplane, rng, polar=True, center=("Earth", "Earth", "Moon", "Sun")[k % 4])
        guarded(out, check_lambert_duration, rng, kind=DURATION_KINDS[k % len(DURATION_KINDS)])
    if big:
        # every small Walker triple, both patterns, a non-zero raan0
        for p in range(1, 7):
            for sat in range(1, 5):
                for f in range(p):
                    guarded(out, check_walker, rng, preset=(p * sat, p, f, gen_raan0(rng)))
    out.sample({"checks": "lambert arrival (universal-variable + Kepler propagator) on arcs cut from orbits and on hand-written geometry (exact zeros, axis-aligned, both requests: "
                          "finite, arrival both ends, direction, two ways), sso self-inverse + J2 node rate incl. propagate -> tune in place -> propagate on one object, ltan<->raan, "
                          "walker count/planes/phasing, beta range/elevation incl. axis-aligned, bplane S/orthonormal/B incl. coordinate planes and polar approaches (asymptote 1e-5 .. 0.3 rad from +-z), read - modify in place - read again on the helpers' objects"})
    return out


def replay(f):
    """re-run the recorded input where the family carries its generator parameters (lambert, walker, sso);
    otherwise a short oracle sweep restricted to failures of the same family"""
    import random
    out = Outcome()
    fam, inp = f["family"], f.get("input") or {}
    if fam.startswith("lambert") and not fam.startswith(("lambert-geom", "lambert-duration")) and isinstance(inp, dict) and "dnu" in inp:
        c = {k: inp[k] for k in ("a", "e", "i", "raan", "argp", "nu0", "dnu", "dE", "tof")}
        for api in (False, True):
            check_lambert(out, c, use_orbit_api=api)
    elif fam.startswith("lambert-duration") and isinstance(inp, dict) and "geometry" in inp:
        check_lambert_duration(out, random.Random(0), preset=inp)
    elif fam.startswith("lambert-geom") and isinstance(inp, dict) and "r0" in inp:
        g = {"r0": inp["r0"], "r1": inp["r1"], "plane": inp.get("plane", "?")}
        for api in (False, True):
            for pro in ((inp["prograde"],) if "prograde" in inp else (True, False)):
                check_lambert_geom(out, g, pro, inp["factor"], api)
    elif fam.startswith("sso-sequence") and isinstance(inp, dict):
        check_sso_sequence(out, random.Random(0), preset=inp)
    elif fam.startswith("walker") and isinstance(inp, dict):
        check_walker(out, random.Random(0), preset=(inp["t"], inp["p"], inp["f"], inp["raan0"]))
    elif fam.startswith("sso") and isinstance(inp, dict):
        check_sso(out, random.Random(0), preset=(inp["a"], inp["e"]))
    elif fam.startswith("bplane") and isinstance(inp, dict) and "S_expected" in inp:
        check_bplane(out, random.Random(0), axis=inp["axis"], center=inp["center"], polar=inp["polar"], preset=inp)
    else:
        full = oracle(core.Ctx(ID, "quick", 0), False)
        out.failures = [x for x in full.failures if x["family"] == fam]
        return out
    out.failures = [x for x in out.failures if x["family"] == fam]
    return out
