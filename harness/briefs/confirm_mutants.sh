#!/bin/bash
# confirm.sh <ID> <k...> : confirm mutants one after another in the agent's worktree
ID=$1; shift
for k in "$@"; do
  d=/tmp/mut/$ID-out/$k; [ -d $d ] || d=/tmp/mut/$ID-out/$ID-$k
  /venv/bin/python /verif/harness/confirm_mutant.py /tmp/mut/$ID $d $ID-$k 2>&1 | grep -E "KEPT|REJECTED|patch does not apply" 
done
git -C /tmp/mut/$ID status --short | head -3
