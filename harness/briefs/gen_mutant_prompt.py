import json,sys,glob,os
pid=sys.argv[1]; ks=sys.argv[2:]  # names like m4 m5
props={json.loads(l)['id']:json.loads(l) for l in open('/verif/properties.jsonl')}
p=props[pid]
prev=[]
for f in sorted(glob.glob(f'/verif/seeded/{pid}-m*/meta.json')):
    m=json.load(open(f)); prev.append('- '+m.get('summary','')[:260].replace('\n',' '))
wt=f'/tmp/mut/{pid}'
out=f'/tmp/mut/{pid}-out'
print(f"""You are helping to evaluate a verification effort for the pure-Python flight dynamics library galactics/beyond. Your task is to write {len(ks)} realistic, subtle BUG-INTRODUCING changes ("seeded changes") to the library that break ONE stated property, so that we can measure whether the verification machinery (which you must not look at) notices them.

Your workspace: `{wt}` — a scratch git worktree of the library at its current HEAD (package `beyond/`, tests in `tests/`). Work ONLY there and in `{out}/` (create it). Do NOT read or write anything under /verif or /repo (that would spoil the independence of the experiment). Python: `/venv/bin/python` with `PYTHONPATH={wt}` so that `import beyond` picks up your worktree — always check `beyond.__file__` in your demo.

THE PROPERTY ({pid} — {p['title']}):
{p.get('statement', p.get('text',''))}
Code it is anchored in: {json.dumps(p.get('anchors', {}).get('files', []))}

WHAT TO PRODUCE: {len(ks)} independent changes ({', '.join(ks)}), each in its own directory `{out}/<name>/` containing
  * `patch.diff` — `git -C {wt} diff` of the change alone (relative to HEAD; touches only library code under beyond/, never tests),
  * `demo.py` — a small self-contained program that exits 0 on the unchanged library and exits non-zero (assert) on the changed one, demonstrating that the property is violated (print what it observed). Run as `PYTHONPATH={wt} /venv/bin/python demo.py`. It may use test data under {wt}/tests/ by absolute path computed from `beyond.__file__`,
  * `meta.json` — {{"property": "{pid}", "summary": "<what the change does, 2-4 sentences>", "needs_to_manifest": "<the specific input / sequence / interleaving / two cooperating sites needed>", "files_touched": [...]}}.

REQUIREMENTS for each change
  1. The library still imports and the EXISTING test suite result is unchanged: `cd {wt} && PYTHONPATH={wt} /venv/bin/python -m pytest -q -p no:cacheprovider --timeout=900 --continue-on-collection-errors` must give exactly what it gives on the unchanged tree: 306 passed, 11 failed (the 11 pre-existing failures: tests/env/test_jpl.py::test_get, ::test_propagate, tests/orbits/test_ephem.py::test_interpolate, tests/orbits/test_forms.py::test_cylindrical, ::test_equinoctial, ::test_hyperbolic, ::test_keplerian_mean_circular, tests/orbits/test_orbit.py::test_coord_global_transform, ::test_coord_unit_transform, ::test_orbit_change_form, tests/propagators/test_keplernum.py::test_propagate_rk4). Run the baseline once first to see it (takes about 2 minutes).
  2. It must look like something a maintainer could plausibly write (a refactoring, an optimisation/cache, a tidy-up, a unit or index slip, a boundary condition, an edge-case 'fix'), not sabotage; no dead giveaways in comments.
  3. It must need something SPECIFIC to manifest — a particular multi-step sequence of operations, an unusual but legitimate input (a quadrant, a sign, a boundary, a rarely used option or form), re-use of an object, two cooperating sites that each look fine alone — NOT something ordinary use or a one-line smoke test would expose at once. But when it manifests it must clearly violate the property as stated (not merely a rounding-level difference).
  4. The {len(ks)} changes must differ from each other in mechanism and location, and from these ideas that were already tried (do something else):
{chr(10).join(prev) if prev else '  (none)'}

PROCEDURE: read the anchored code; run the baseline suite; for each change: edit, write demo, run the suite, save `git diff > patch.diff`, then `git -C {wt} checkout -- .` and verify the demo passes again on the clean tree. Leave the worktree clean at the end. Keep /tmp usage small.

Final report (your last message): for each change: name, one-paragraph description, what it needs to manifest, suite result with the change, demo result without/with the change.""")
