#!/usr/bin/env python3
"""Regenerate MANIFEST.json from harness/props/*.py (claimed) and harness/not_applicable.json."""
import importlib
import json
import os
import sys

VERIF = os.path.dirname(os.path.dirname(os.path.abspath(__file__)))
sys.path.insert(0, VERIF)
props = [json.loads(l) for l in open(os.path.join(VERIF, "properties.jsonl"))]
checks = []
na = json.load(open(os.path.join(VERIF, "harness", "not_applicable.json")))
for p in props:
    pid = p["id"]
    path = os.path.join(VERIF, "harness", "props", pid + ".py")
    if not os.path.exists(path) or pid in na:
        continue
    src = open(path).read()
    ns = {}
    # read the literal metadata without importing beyond
    import ast
    tree = ast.parse(src)
    for node in tree.body:
        if isinstance(node, ast.Assign) and len(node.targets) == 1 and isinstance(node.targets[0], ast.Name):
            try:
                ns[node.targets[0].id] = ast.literal_eval(node.value)
            except Exception:
                pass
    checks.append({
        "property_id": pid,
        "quick_cmd": f"/venv/bin/python harness/check.py {pid} --tier quick",
        "thorough_cmd": f"/venv/bin/python harness/check.py {pid} --tier thorough",
        "evidence_file": f"evidence/{pid}.json",
        "replay_cmd_template": "/venv/bin/python harness/replay.py {path}",
        "engine": "lean4-proof+correspondence",
        "level_claimed": {"category": "proof", "text": ns.get("LEVEL_TEXT", ""), "design_ref": f"DESIGN.md section 5, {pid}"},
        "level_note": ns.get("LEVEL_NOTE", ""),
        "technique": ns.get("TECHNIQUE", "Lean 4 theorems about a model of the code; model tied to /repo by regenerated tables and a differential correspondence run"),
    })
man = {
    "version": 1,
    "setup_cmd": "/venv/bin/python harness/instantiate.py && cd lean && lake build",
    "hooks": {
        "guard": "GALACTICS_BEYOND_VERIF",
        "enable": "no instrumentation hooks are compiled into /repo; observation is done by wrapping objects inside the harness process",
        "baseline_off_cmd": "cd /repo && /venv/bin/python -m pytest -ra -q -p no:cacheprovider --timeout=900 --continue-on-collection-errors",
        "source_commits": [],
        "add_only": True,
    },
    "engines": [{
        "name": "lean4-proof+correspondence",
        "path": "harness/check.py",
        "serves_properties": [c["property_id"] for c in checks],
        "kind_free_text": "Lean 4.33 + Mathlib theorems about executable models (lean/BeyondVerif); tables regenerated from /repo each run; compiled Lean driver vs real code line-protocol correspondence; oracle sweep on the real API for failing inputs",
    }],
    "checks": checks,
    "notes": "See DESIGN.md. Exit 0 = held; exit 1 + VIOLATION line; exit 2 = infrastructure error/timeout. Known findings: known_findings.json.",
    "not_applicable": [{"property_id": k, "reason": v} for k, v in na.items()],
}
json.dump(man, open(os.path.join(VERIF, "MANIFEST.json"), "w"), indent=1)
print("claimed:", [c["property_id"] for c in checks], "not_applicable:", list(na))
