#!/usr/bin/env python3
"""Assemble known_findings.json from known_findings.d/Cxx.json (one list of entries per property).
Development-time tool only: checks read known_findings.json and never write it."""
import glob
import json
import os

VERIF = os.path.dirname(os.path.dirname(os.path.abspath(__file__)))
out = {"comment": "Genuine defects of galactics/beyond recorded rather than repaired (status open: the check prints KNOWN-FINDING and exits 0 for "
       "failures of exactly that family) and repaired ones (status fixed: 'fixed: property=<id> <commit> <what failed>'; they suppress nothing). "
       "Matched on property + family, the family being computed by the oracle from the failing input itself (call site / input class). "
       "Assembled from known_findings.d/*.json by harness/merge_findings.py; never written at run time.",
       "findings": []}
for p in sorted(glob.glob(os.path.join(VERIF, "known_findings.d", "*.json"))):
    out["findings"] += json.load(open(p))
json.dump(out, open(os.path.join(VERIF, "known_findings.json"), "w"), indent=1, ensure_ascii=False)
print(len(out["findings"]), "entries")
