#!/usr/bin/env python3
"""Instantiate every hand-written numeric model template lean/templates/<Name>.tpl twice:
BeyondVerif/Model/<Name>F.lean (Float, executable) and BeyondVerif/Model/<Name>R.lean (ℝ, theorems).
First line of a template:  `-- imports: Generated.CWMat Model.Foo`  (each gets the F / R suffix)."""
import os
import sys

VERIF = os.path.dirname(os.path.dirname(os.path.abspath(__file__)))
sys.path.insert(0, VERIF)
from harness.core import write_if_changed, LEAN  # noqa: E402

HF = "/- GENERATED from lean/templates/{n}.tpl by harness/instantiate.py — edit the template. Float instantiation. -/\nimport BeyondVerif.NumFloat\n{imp}namespace BeyondVerif.F\nopen BeyondVerif.NumFloat\nset_option linter.unusedVariables false\n\n"
HR = "/- GENERATED from lean/templates/{n}.tpl by harness/instantiate.py — edit the template. Real instantiation. -/\nimport BeyondVerif.NumReal\n{imp}noncomputable section\nnamespace BeyondVerif.R\nopen BeyondVerif.NumReal\nopen Classical\nset_option linter.unusedVariables false\n\n"


def main():
    changed = []
    tdir = os.path.join(LEAN, "templates")
    for fn in sorted(os.listdir(tdir)):
        if not fn.endswith(".tpl"):
            continue
        name = fn[:-4]
        text = open(os.path.join(tdir, fn)).read()
        first, _, body = text.partition("\n")
        imports = first.replace("-- imports:", "").split() if first.startswith("-- imports:") else []
        if not first.startswith("-- imports:"):
            body = text
        impF = "".join(f"import BeyondVerif.{m}F\n" for m in imports)
        impR = "".join(f"import BeyondVerif.{m}R\n" for m in imports)
        if write_if_changed(os.path.join(LEAN, "BeyondVerif", "Model", name + "F.lean"), HF.format(n=name, imp=impF) + body + "\nend BeyondVerif.F\n"):
            changed.append(name + "F")
        if write_if_changed(os.path.join(LEAN, "BeyondVerif", "Model", name + "R.lean"), HR.format(n=name, imp=impR) + body + "\nend BeyondVerif.R\n"):
            changed.append(name + "R")
    return changed


if __name__ == "__main__":
    print("instantiated:", main())
