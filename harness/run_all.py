#!/usr/bin/env python3
"""run every claimed check (MANIFEST.json) once, sequentially, and summarise: harness/run_all.py [quick|thorough] [seed]"""
import json
import os
import subprocess
import sys
import time

VERIF = os.path.dirname(os.path.dirname(os.path.abspath(__file__)))
tier = sys.argv[1] if len(sys.argv) > 1 else "quick"
seed = sys.argv[2] if len(sys.argv) > 2 else "0"
man = json.load(open(os.path.join(VERIF, "MANIFEST.json")))
rows = []
for c in man["checks"]:
    cmd = c["quick_cmd"] if tier == "quick" else c["thorough_cmd"]
    t = time.time()
    p = subprocess.run(cmd, shell=True, cwd=VERIF, capture_output=True, text=True, env=dict(os.environ, VERIF_SEED=seed, VERIF_TIER=tier))
    out = p.stdout + p.stderr
    v = [l for l in out.split("\n") if l.startswith("VIOLATION")]
    k = [l[:90] for l in out.split("\n") if l.startswith("KNOWN-FINDING")]
    rows.append((c["property_id"], p.returncode, round(time.time() - t, 1), v[:1], len(k)))
    print(rows[-1], flush=True)
print("all ok" if all(r[1] == 0 for r in rows) else "FAILURES: " + ", ".join(r[0] for r in rows if r[1] != 0))
