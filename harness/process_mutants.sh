#!/bin/bash
# process_mutants.sh <ID> : confirm /tmp/mut/<ID>/out/m{1,2,3} independently and copy the kept ones to /verif/seeded/<ID>-m<k>
ID=$1
for k in 1 2 3; do
  if [ -d /tmp/mut/$ID/out/m$k ]; then python3 /verif/harness/confirm_mutant.py /tmp/mut/$ID /tmp/mut/$ID/out/m$k $ID-m$k; fi
done 2>&1 | grep -E "KEPT|REJECTED|patch does not apply"
