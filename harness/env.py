"""Shared set-up of the beyond package for the harness process (EOP tables, JPL kernel)."""
import os

from harness import core


def use_real_eop():
    """real IERS tables shipped with the test-suite (tests/data/pole): leap seconds, UT1-UTC, pole"""
    from beyond.config import config
    from beyond.dates.eop import EopDb
    config.update({"eop": {"folder": os.path.join(core.REPO, "tests", "data", "pole"), "type": "all", "missing_policy": "pass"}})
    # drop a cached failed instantiation, if any
    from beyond.dates import eop
    d = EopDb._dbs.get(EopDb.DEFAULT_DBNAME)
    if isinstance(d, Exception):
        EopDb._dbs[EopDb.DEFAULT_DBNAME] = eop.SimpleEopDatabase
    return EopDb.db()


def use_jpl():
    from pathlib import Path
    from beyond.config import config
    from beyond.env import jpl
    base = Path(core.REPO) / "tests" / "data" / "jpl"
    config.set("env", "jpl", "files", [str(base / "de403_2000-2020.bsp"), str(base / "pck00010.tpc"), str(base / "gm_de431.tpc")])
    jpl.create_frames()
