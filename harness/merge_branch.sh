#!/bin/bash
# merge_branch.sh <ID>: merge the builder branch wk-<ID> into main, regenerate derived files, claim the property
set -e
cd /verif
ID=$1
git merge wk-$ID -m "merge wk-$ID" || true
# derived files are regenerated, never merged by hand
python3 harness/merge_findings.py
git add known_findings.json
python3 - <<PY
import json
na=json.load(open('/verif/harness/not_applicable.json')); na.pop('$ID',None)
json.dump(na,open('/verif/harness/not_applicable.json','w'),indent=1)
PY
/venv/bin/python harness/instantiate.py
python3 harness/manifest_gen.py
git add -A
git status --short | grep -E "^(UU|AA|DU|UD)" && { echo "UNRESOLVED CONFLICTS"; exit 1; }
git commit -qm "merge wk-$ID: property $ID" || true
echo merged $ID
