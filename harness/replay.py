#!/venv/bin/python
"""replay.py <replay file>: re-run the recorded failing input against /repo's current tree.

Exit 1 if the failure reproduces, 0 if it no longer does, 2 if the replay file names only a
broken theorem/correspondence (nothing to execute)."""
import importlib
import json
import os
import sys

sys.path.insert(0, os.path.dirname(os.path.dirname(os.path.abspath(__file__))))
import warnings
warnings.filterwarnings("ignore")
from harness import core  # noqa: E402

r = json.load(open(sys.argv[1]))
pid = r["property"]
if r["kind"] != "failing-input":
    print("no failing input recorded; no longer checks:")
    for b in r.get("no_longer_checks", []):
        print("  ", b)
    sys.exit(2)
mod = importlib.import_module(f"harness.props.{pid}")
f = r["failure"]
print("family:", f["family"], "\nwhat:", f["what"], "\ninput:", f["input"], "\nobserved then:", f.get("observed"), "\nexpected:", f.get("expected"))
if hasattr(mod, "replay"):
    out = mod.replay(f)
    print("reproduces:" if out.failures else "does not reproduce", [x["what"] for x in out.failures[:3]])
    sys.exit(1 if out.failures else 0)
print("(module has no replay function)")
sys.exit(2)
