"""C20 — registration sites of the frame registry, read from the AST of /repo.

A *site* is a function of the anchored files that links two nodes (`x + y`) and/or stores a link method
(`setattr(T, f"{a}_to_{b}", obj._to_parent)`).  For each site this module yields the ordered list of symbolic
operations

    link(a, b)                     a, b in {self, parent, other}
    setattr(holder, ka, kb, owner) holder in {root, inst(r), typeOf(r)}

where `self` is the object being registered, `parent` the node it is linked to and `other` anything else with a
name (e.g. the parent FRAME of a local orbital orientation, whose name differs from its orientation's name).
The statement structure (which holder, which names in the key, which operands, the order, calls to other sites)
comes from the AST; what is written by hand — and trusted — is, per site, the table saying which source
expression denotes which role (`ALIASES`), checked for consistency at every inlined call.

Anything unexpected (an unrecognised `setattr`, a `+` between unknown expressions, a key that is not an
f-string "<x>_to_<y>", a call whose arguments do not line up with the callee's roles) raises SiteError: the
extraction is then reported as broken, never silently skipped.
"""
import ast
import os
import re


class SiteError(Exception):
    pass


S, P, O = "self", "parent", "other"

# world: which node graph / base class the site works on
ROOT_CLASS = {"orient": ("Orientation", "orient.Orientation"), "center": ("Center", "center.Center")}

# label -> (file, qualified function, world, {expression: role}, name of the constructor parameter holding self's name or None)
SITES = {
    "Center.add_link": ("beyond/frames/center.py", "Center.add_link", "center",
                        {"self": S, "self.node": S, "center": P, "center.node": P}, None),
    "JplCenter.add_link": ("beyond/env/jpl.py", "JplCenter.add_link", "center",
                           {"self": S, "linked": P}, None),
    "TopocentricOrientation.__init__": ("beyond/frames/orient.py", "TopocentricOrientation.__init__", "orient",
                                        {"self": S, "parent": P, "self.parent": P}, "name"),
    "LocalOrbitalOrientation.__init__": ("beyond/frames/orient.py", "LocalOrbitalOrientation.__init__", "orient",
                                         {"self": S, "parent.orientation": P, "self.parent.orientation": P, "parent": O, "self.parent": O}, "name"),
    "LagrangeOrient.__init__": ("beyond/frames/lagrange.py", "LagrangeOrient.__init__", "orient",
                                {"self": S, "frame1.orientation": P, "self.frame1.orientation": P}, "name"),
    "create_station[orient]": ("beyond/frames/stations.py", "create_station", "orient",
                               {"o": S, "parent_frame.orientation": P, "parent_frame": O}, "name"),
    "create_station[center]": ("beyond/frames/stations.py", "create_station", "center",
                               {"c": S, "parent_frame.center": P}, "name"),
    "orbit2frame[orient]": ("beyond/frames/frames.py", "orbit2frame", "orient",
                            {"orientation": S, "parent.orientation": P, "parent": O}, "name"),
    "orbit2frame[center]": ("beyond/frames/frames.py", "orbit2frame", "center",
                            {"center_obj": S, "ref_orbit.frame.center": P}, "name"),
    "lagrange[orient]": ("beyond/frames/lagrange.py", "lagrange", "orient",
                         {"l_orient": S, "frame1.orientation": P}, None),
    "lagrange[center]": ("beyond/frames/lagrange.py", "lagrange", "center",
                         {"l_center": S, "frame2.center": P}, None),
    "solarsystem.get_frame[center]": ("beyond/env/solarsystem.py", "get_frame", "center",
                                      {"center": S, "parent_frame.center": P}, None),
    "jpl.create_frames[center#bodies]": ("beyond/env/jpl.py", "create_frames", "center",
                                         {"target": S, "center": P}, None),
    "jpl.create_frames[center#earth]": ("beyond/env/jpl.py", "create_frames", "center",
                                        {"BASE_FRAME.center": S, "first_frame.center": P}, None),
}

# calls that execute another site: callee expression (as written at the call) -> callee label
CALLS = {
    "orient": {"orient.TopocentricOrientation": "TopocentricOrientation.__init__",
               "orient.LocalOrbitalOrientation": "LocalOrbitalOrientation.__init__",
               "LagrangeOrient": "LagrangeOrient.__init__"},
    "center": {".add_link": None},   # resolved by receiver: see _callee_of_add_link
}

# sites NOT required to register on the base class by the theorems: none since the fix of C20-topocentric-ctor-instance-only
# (the bare TopocentricOrientation.__init__ used to store its method on the instance only)
UNCHECKED = []


def _find_function(tree, qual):
    parts = qual.split(".")
    body = tree.body
    node = None
    for i, p in enumerate(parts):
        found = None
        for n in body:
            if isinstance(n, (ast.FunctionDef, ast.ClassDef)) and n.name == p:
                found = n
                break
        if found is None:
            raise SiteError(f"{qual}: not found")
        node = found
        body = found.body
    if not isinstance(node, ast.FunctionDef):
        raise SiteError(f"{qual}: not a function")
    return node


def _ordered_statements(fn):
    """all simple statements of the function in source order, descending into compound statements (both branches)"""
    out = []

    def rec(stmts):
        for s in stmts:
            if isinstance(s, (ast.If, ast.For, ast.While, ast.With, ast.Try)):
                for field in ("body", "orelse", "finalbody"):
                    rec(getattr(s, field, []) or [])
                for h in getattr(s, "handlers", []) or []:
                    rec(h.body)
            elif isinstance(s, (ast.FunctionDef, ast.ClassDef)):
                continue
            else:
                out.append(s)
    rec(fn.body)
    return out


class _Site:
    def __init__(self, label, repo, cache):
        self.label = label
        self.file, self.qual, self.world, self.aliases, self.name_param = SITES[label]
        self.repo = repo
        self.cache = cache
        src = open(os.path.join(repo, self.file)).read()
        self.tree = ast.parse(src)
        self.fn = _find_function(self.tree, self.qual)
        self.is_method = "." in self.qual
        self.cls = self.qual.split(".")[0] if self.is_method else None
        self.keyvars = {}
        self.shapes = []

    # -------------------------------------------------- expression -> role
    def role(self, expr, key=False):
        """role of an object expression; for key parts `X.name` has the role of X, the ctor's name parameter is self"""
        txt = ast.unparse(expr)
        if key:
            if self.name_param and txt == self.name_param:
                return S
            if txt.endswith(".name"):
                txt = txt[: -len(".name")]
            else:
                # a Node/Center object formatted with str(): Node.__str__ is the name
                pass
        if txt not in self.aliases and txt.endswith(".node"):
            txt = txt[: -len(".node")]     # a Center and its Node are one object of the model (Center.__init__: self.node = Node(name))
        return self.aliases.get(txt)

    def other_world_aliases(self):
        out = set()
        for lab, (f, q, w, al, _) in SITES.items():
            if f == self.file and q == self.qual and w != self.world:
                out |= set(al)
        return out

    def key_of(self, expr):
        ka, kb, shape = resolve_key(self.tree, expr, self.keyvars, self.label)
        self.shapes.append(shape)
        return ka, kb

    def holder(self, expr):
        txt = ast.unparse(expr)
        for w, names in ROOT_CLASS.items():
            if txt in names:
                return w, ("root",)
        if isinstance(expr, ast.Call) and ast.unparse(expr.func) == "type" and len(expr.args) == 1:
            r = self.role(expr.args[0])
            return (self.world if r else None), ("typeOf", r)
        if isinstance(expr, ast.Attribute) and expr.attr == "__class__":
            r = self.role(expr.value)
            return (self.world if r else None), ("typeOf", r)
        r = self.role(expr)
        if r is not None:
            return self.world, ("inst", r)
        return None, None

    # -------------------------------------------------- statements
    def ops(self):
        if self.label in self.cache:
            return self.cache[self.label]
        out = []
        other = self.other_world_aliases()
        for st in _ordered_statements(self.fn):
            # remember f-strings assigned to a variable (mtd = f"...")
            if isinstance(st, ast.Assign) and len(st.targets) == 1 and isinstance(st.targets[0], ast.Name) and isinstance(st.value, ast.JoinedStr):
                self.keyvars[st.targets[0].id] = st.value
                continue
            # x + y [+ z ...] as a statement (or the value of an assignment)
            val = st.value if isinstance(st, (ast.Expr, ast.Assign)) else None
            if isinstance(val, ast.BinOp) and isinstance(val.op, ast.Add):
                chain = []
                e = val
                while isinstance(e, ast.BinOp) and isinstance(e.op, ast.Add):
                    chain.append(e.right)
                    e = e.left
                chain.append(e)
                chain.reverse()
                roles = [self.role(x) for x in chain]
                txts = [ast.unparse(x) for x in chain]
                numeric = isinstance(st, ast.Assign)   # `a = b + c` arithmetic is not a link unless its operands are nodes of a world
                if all(r is None for r in roles):
                    if any(t in other for t in txts) or numeric:
                        continue
                    raise SiteError(f"{self.label}: `{ast.unparse(val)}` links expressions whose roles are unknown")
                if any(r is None for r in roles):
                    raise SiteError(f"{self.label}: `{ast.unparse(val)}` links an expression whose role is unknown")
                for a, b in zip(roles, roles[1:]):
                    out.append(("link", a, b))
                continue
            # calls
            for call in [n for n in ast.walk(st) if isinstance(n, ast.Call)]:
                ftxt = ast.unparse(call.func)
                if ftxt == "setattr":
                    if len(call.args) != 3:
                        raise SiteError(f"{self.label}: setattr with {len(call.args)} arguments")
                    w, h = self.holder(call.args[0])
                    ka, kb = self.key_of(call.args[1])
                    if w is None:
                        if ast.unparse(call.args[0]) in other:
                            continue
                        raise SiteError(f"{self.label}: setattr on an unknown holder `{ast.unparse(call.args[0])}`")
                    if w != self.world:
                        continue
                    ra, rb = self.role(ka, key=True), self.role(kb, key=True)
                    if ra is None or rb is None:
                        raise SiteError(f"{self.label}: key `{ast.unparse(call.args[1])}` names an unknown object")
                    v = call.args[2]
                    if not (isinstance(v, ast.Attribute) and v.attr == "_to_parent"):
                        raise SiteError(f"{self.label}: registered value is not a `_to_parent` method: {ast.unparse(v)}")
                    ro = self.role(v.value)
                    if ro is None:
                        raise SiteError(f"{self.label}: owner of the registered method unknown: {ast.unparse(v)}")
                    out.append(("setattr", h, ra, rb, ro))
                    continue
                callee = self.callee(call, ftxt)
                if callee is not None:
                    out.extend(self.inline(call, callee))
        self.cache[self.label] = out
        return out

    def callee(self, call, ftxt):
        if self.world == "orient":
            return CALLS["orient"].get(ftxt)
        # centre world: <recv>.add_link(...) / super().add_link(...)
        if isinstance(call.func, ast.Attribute) and call.func.attr == "add_link":
            recv = ast.unparse(call.func.value)
            if recv == "super()":
                if self.role(ast.Name("self")) != S:
                    raise SiteError(f"{self.label}: super().add_link outside a method")
                return "Center.add_link"
            r = self.aliases.get(recv)
            if r is None:
                return None       # an add_link of another binding group of the same function
            if r != S:
                raise SiteError(f"{self.label}: add_link called on `{recv}` whose role is {r}")
            return "JplCenter.add_link" if self.label.endswith("#bodies]") else "Center.add_link"
        return None

    def inline(self, call, callee_label):
        """ops of the callee, after checking that the callee's role table, rewritten through the actual arguments, agrees with ours"""
        callee = _Site(callee_label, self.repo, self.cache)
        params = [a.arg for a in callee.fn.args.args]
        actual = {}
        pos = params[1:] if callee.is_method else params
        if callee.is_method and callee.fn.name != "__init__" and isinstance(call.func, ast.Attribute):
            recv = call.func.value
            actual["self"] = ast.Name("self") if ast.unparse(recv) == "super()" else recv
        for p, a in zip(pos, call.args):
            actual[p] = a
        for kw in call.keywords:
            actual[kw.arg] = kw.value

        class Sub(ast.NodeTransformer):
            def visit_Name(self, n):
                return actual.get(n.id, n)
        for expr_txt, r in callee.aliases.items():
            base = expr_txt.split(".")[0]
            if base == "self" and callee.fn.name == "__init__":
                continue   # the object under construction: it is whatever the call expression is bound to (role S by convention)
            if base not in actual:
                continue   # parameter left to its default: nothing to compare
            e = Sub().visit(ast.parse(expr_txt, mode="eval").body)
            mine = self.role(e)
            if mine != r:
                raise SiteError(f"{self.label}: call of {callee_label}: callee's `{expr_txt}` ({r}) is our `{ast.unparse(e)}` ({mine})")
        if callee.name_param and callee.name_param in actual:
            if self.role(actual[callee.name_param], key=True) != S:
                raise SiteError(f"{self.label}: call of {callee_label}: the name given to the new object is not self's name")
        return list(callee.ops())


def resolve_key(tree, expr, keyvars, label, depth=0):
    """(first name expression, second name expression, shape) of an attribute-name expression.  Follows a variable holding
    the f-string, a call of a module-level helper whose body is a single `return`, and a `re.sub(pattern, repl, <key>)`
    wrapper.  shape = {"sep": literal between the two names, "norm": None | [pattern, repl]}"""
    if depth > 4:
        raise SiteError(f"{label}: attribute name nested too deeply")
    if isinstance(expr, ast.Name) and expr.id in keyvars:
        return resolve_key(tree, keyvars[expr.id], keyvars, label, depth + 1)
    if isinstance(expr, ast.JoinedStr):
        parts = expr.values
        if not (len(parts) == 3 and isinstance(parts[0], ast.FormattedValue) and isinstance(parts[2], ast.FormattedValue)
                and isinstance(parts[1], ast.Constant) and isinstance(parts[1].value, str)
                and parts[0].conversion == -1 and parts[2].conversion == -1 and parts[0].format_spec is None and parts[2].format_spec is None):
            raise SiteError(f"{label}: attribute name is not '<a><sep><b>': {ast.unparse(expr)}")
        return parts[0].value, parts[2].value, {"sep": parts[1].value, "norm": None}
    if isinstance(expr, ast.Call):
        ftxt = ast.unparse(expr.func)
        if ftxt == "re.sub" and len(expr.args) == 3 and all(isinstance(a, ast.Constant) and isinstance(a.value, str) for a in expr.args[:2]):
            ka, kb, shape = resolve_key(tree, expr.args[2], keyvars, label, depth + 1)
            if shape["norm"] is not None:
                raise SiteError(f"{label}: attribute name normalised twice")
            return ka, kb, {"sep": shape["sep"], "norm": [expr.args[0].value, expr.args[1].value]}
        if isinstance(expr.func, ast.Name):
            for n in tree.body:
                if isinstance(n, ast.FunctionDef) and n.name == expr.func.id:
                    body = [x for x in n.body if not (isinstance(x, ast.Expr) and isinstance(x.value, ast.Constant))]
                    if len(body) != 1 or not isinstance(body[0], ast.Return) or expr.keywords or len(expr.args) != len(n.args.args):
                        break
                    actual = {p.arg: a for p, a in zip(n.args.args, expr.args)}

                    class Sub(ast.NodeTransformer):
                        def visit_Name(self, node):
                            return actual.get(node.id, node)
                    import copy
                    return resolve_key(tree, Sub().visit(copy.deepcopy(body[0].value)), {}, label, depth + 1)
    raise SiteError(f"{label}: attribute name is not an f-string '<a>_to_<b>' (nor a helper returning one): {ast.unparse(expr)}")


LOOKUPS = {"Center.convert_to": ("beyond/frames/center.py", "Center.convert_to"),
           "Orientation.convert_to": ("beyond/frames/orient.py", "Orientation.convert_to")}


def extract_lookups(repo):
    """for each convert_to: the `for a, b in …steps(…)` loop must compute `direct` from (a, b) and `reverse` from (b, a);
    returns label -> {"direct": [first, second, shape], "reverse": […]} with first/second in {"a", "b"}"""
    out = {}
    for label, (file, qual) in LOOKUPS.items():
        tree = ast.parse(open(os.path.join(repo, file)).read())
        fn = _find_function(tree, qual)
        loops = [n for n in ast.walk(fn) if isinstance(n, ast.For) and isinstance(n.iter, ast.Call) and ast.unparse(n.iter.func).endswith("steps")]
        if len(loops) != 1 or not (isinstance(loops[0].target, ast.Tuple) and len(loops[0].target.elts) == 2):
            raise SiteError(f"{label}: the loop over steps() was not found")
        va, vb = (ast.unparse(e) for e in loops[0].target.elts)
        found = {}
        for st in ast.walk(loops[0]):
            if isinstance(st, ast.Assign) and len(st.targets) == 1 and isinstance(st.targets[0], ast.Name) and st.targets[0].id in ("direct", "reverse"):
                ka, kb, shape = resolve_key(tree, st.value, {}, label)
                names = []
                for k in (ka, kb):
                    t = ast.unparse(k)
                    if t not in (va, vb):
                        raise SiteError(f"{label}: lookup key uses `{t}`, not a loop variable")
                    names.append("a" if t == va else "b")
                found[st.targets[0].id] = names + [shape]
        if set(found) != {"direct", "reverse"}:
            raise SiteError(f"{label}: `direct` / `reverse` keys not found")
        # the attribute names must be used for hasattr/getattr on self
        used = {ast.unparse(c.args[1]) for c in ast.walk(loops[0]) if isinstance(c, ast.Call) and ast.unparse(c.func) in ("hasattr", "getattr") and len(c.args) >= 2
                and ast.unparse(c.args[0]) == "self"}
        if used != {"direct", "reverse"}:
            raise SiteError(f"{label}: hasattr/getattr look up {sorted(used)} on self, expected direct / reverse")
        out[label] = found
    return out


def extract_shapes(repo):
    """label -> list of key shapes used by the registrations of the site (inlined callees included)"""
    cache = {}
    out = {}
    for label in SITES:
        st = _Site(label, repo, cache)
        st.ops()
        out[label] = st.shapes
    return out


def extract_sites(repo):
    cache = {}
    out = {}
    for label in SITES:
        out[label] = _Site(label, repo, cache).ops()
    return out


def orientation_class_methods(repo):
    """(a, b) for every `def a_to_b` in the body of class Orientation"""
    tree = ast.parse(open(os.path.join(repo, "beyond/frames/orient.py")).read())
    for n in tree.body:
        if isinstance(n, ast.ClassDef) and n.name == "Orientation":
            out = []
            for f in n.body:
                if isinstance(f, ast.FunctionDef):
                    m = re.fullmatch(r"(\w+?)_to_(\w+)", f.name)
                    if m:
                        out.append((m.group(1), m.group(2)))
            return out
    raise SiteError("class Orientation not found")


def lean_ident(label):
    words = re.findall(r"[A-Za-z0-9]+", label.replace("__init__", "Ctor"))
    return "site" + "".join(w[0].upper() + w[1:] for w in words)


def to_lean(sites, methods_idx):
    role = {S: ".self", P: ".parent", O: ".other"}

    def holder(h):
        if h[0] == "root":
            return ".root"
        return f"(.{h[0]} {role[h[1]]})"

    def op(o):
        if o[0] == "link":
            return f".link {role[o[1]]} {role[o[2]]}"
        return f".setattr {holder(o[1])} {role[o[2]]} {role[o[3]]} {role[o[4]]}"
    L = ["import BeyondVerif.Model.Registry",
         "/-! registration sites of the frame registry, read from the AST of the anchored files (harness/c20_sites.py) -/",
         "namespace BeyondVerif.Generated", "open BeyondVerif.Reg"]
    for label, ops in sites.items():
        L.append(f"/-- `{label}` -/")
        L.append(f"def {lean_ident(label)} : List SiteOp := [" + ", ".join(op(o) for o in ops) + "]")
    L.append("def regSites : List (String × List SiteOp) := [" + ", ".join(f'("{lab}", {lean_ident(lab)})' for lab in sites) + "]")
    L.append("/-- every site that `sites_register_root` requires to register on the base class: all of them (including the bare `TopocentricOrientation.__init__`) -/")
    L.append("def publicSites : List (String × List SiteOp) := [" + ", ".join(f'("{lab}", {lean_ident(lab)})' for lab in sites if lab not in UNCHECKED) + "]")
    L.append("/-- `def <a>_to_<b>` of the class body of `Orientation`, as indices into `orientNames` -/")
    L.append("def orientMethods : List (Nat × Nat) := [" + ", ".join(f"({a}, {b})" for a, b in methods_idx) + "]")
    L.append("end BeyondVerif.Generated")
    return "\n".join(L) + "\n"


def keys_to_lean(shapes, lookups):
    def cps(t):
        return "[" + ", ".join(str(ord(c)) for c in t) + "]"

    def shape(sh):
        norm = "none" if sh["norm"] is None else f"some ({cps(sh['norm'][0])}, {cps(sh['norm'][1])})"
        return f"⟨{cps(sh['sep'])}, {norm}⟩"
    L = ["import BeyondVerif.Model.LinkKey",
         "/-! how the link-method names are formed at every registration and lookup site, read from the AST (harness/c20_sites.py);",
         "strings are lists of code points -/",
         "namespace BeyondVerif.Generated", "open BeyondVerif.LinkKey",
         "/-- (site, shape of the attribute name) for every `setattr` of the registration sites -/",
         "def keyShapes : List (String × KeyShape) := [" + ", ".join(f'("{lab}", {shape(sh)})' for lab, shs in shapes.items() for sh in shs) + "]",
         "/-- (convert_to, `direct` is built from (a, b), `reverse` from (b, a), shape of direct, shape of reverse) -/",
         "def lookupShapes : List (String × Bool × Bool × KeyShape × KeyShape) := [" + ", ".join(
             f'("{lab}", {"true" if d["direct"][:2] == ["a", "b"] else "false"}, {"true" if d["reverse"][:2] == ["b", "a"] else "false"}, {shape(d["direct"][2])}, {shape(d["reverse"][2])})'
             for lab, d in lookups.items()) + "]",
         "end BeyondVerif.Generated"]
    return "\n".join(L) + "\n"


if __name__ == "__main__":
    import sys
    repo = os.environ.get("VERIF_REPO", "/repo")
    for k, v in extract_sites(repo).items():
        print(k, v)
    print(orientation_class_methods(repo))
